#!/usr/bin/env python3
# usage: mutate.py <relative file> <old> <new> <Cnn> [<Cnn>...]   — apply one textual mutation to a scratch copy of the repaired tree, re-extract, run rules
import sys, os, shutil, subprocess, tempfile
base = os.environ.get("BASE", "/root/scratch/fixrepo")
rel, old, new, *cids = sys.argv[1:]
d = tempfile.mkdtemp(prefix="mut.")
try:
    for x in ("renet", "renetcode", "renet_netcode", "Cargo.toml", "Cargo.lock"):
        src = os.path.join(base, x)
        (shutil.copytree if os.path.isdir(src) else shutil.copy)(src, os.path.join(d, x))
    p = os.path.join(d, rel); s = open(p).read()
    assert s.count(old) == 1, f"pattern occurs {s.count(old)} times"
    open(p, "w").write(s.replace(old, new))
    facts = os.path.join(d, "facts")
    out = subprocess.run(["/root/scratch/vn/extract.sh", d, facts], capture_output=True, text=True)
    if not os.path.exists(os.path.join(facts, "renetcode.json")) or not os.path.exists(os.path.join(facts, "renet.json")):
        print("MUTANT DOES NOT COMPILE"); print(out.stdout[-1500:]); sys.exit(2)
    for c in cids:
        r = subprocess.run([sys.executable, "-m", "sa.run", c, "--facts", facts], capture_output=True, text=True, cwd="/root/scratch/vn")
        bad = [l for l in r.stdout.splitlines() if "BAD" in l or "->" in l]
        print(f"{c}: {'DETECTED' if bad else 'missed'}"); [print("   ", l.strip()[:220]) for l in bad]
        if r.returncode: print(r.stderr[-800:])
finally:
    shutil.rmtree(d, ignore_errors=True)
