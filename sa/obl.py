# obligation scopes: run the O-engine fixpoint for an entry-point set, cache per fact directory, classify against the vetted table
import os, json, re, time, hashlib
from .facts import Facts, short
from .absint_heap import fixpoint

SCOPES = {
    "renet": ["RenetClient::new", "RenetClient::new_from_server", "RenetClient::process_packet", "RenetClient::update", "RenetClient::get_packets_to_send",
              "RenetClient::send_message", "RenetClient::receive_message", "RenetClient::disconnect", "RenetClient::disconnect_due_to_transport", "RenetClient::set_connected",
              "RenetClient::set_connecting", "RenetClient::can_send_message", "RenetClient::channel_available_memory",
              "RenetServer::new", "RenetServer::add_connection", "RenetServer::remove_connection", "RenetServer::process_packet_from", "RenetServer::get_packets_to_send",
              "RenetServer::update", "RenetServer::disconnect", "RenetServer::disconnect_all", "RenetServer::receive_message", "RenetServer::send_message", "RenetServer::broadcast_message"],
    "netcode": ["NetcodeServer::new", "NetcodeServer::process_packet", "NetcodeServer::update", "NetcodeServer::update_client", "NetcodeServer::generate_payload_packet",
                "NetcodeServer::disconnect", "NetcodeServer::set_max_clients", "NetcodeClient::new", "NetcodeClient::process_packet", "NetcodeClient::update",
                "NetcodeClient::generate_payload_packet", "NetcodeClient::disconnect", "token::ConnectToken::read", "token::ConnectToken::generate"],
}

def analysis_key():
    """hash of the engine code and tables: a cached fixpoint is reused only by the code that produced it"""
    k = os.environ.get("VERIF_ANALYSIS_KEY")
    if k: return k
    import glob
    root = os.path.dirname(os.path.dirname(os.path.abspath(__file__)))
    h = hashlib.sha256()
    for p in sorted(glob.glob(os.path.join(root, "sa", "absint*.py")) + glob.glob(os.path.join(root, "sa", "obl.py")) + glob.glob(os.path.join(root, "sa", "facts.py"))):
        h.update(open(p, "rb").read())
    return "e" + h.hexdigest()[:15]

def coarse(okey):
    """what an obligation is about, independent of how the operands are spelled: the names of the fields, parameters and methods involved
    (`*P1(self).memory_usage_bytes ; Bytes::len(&removed.message)` -> `memory_usage_bytes,message,len`). Vetting is keyed on this, so moving an
    expression into a temporary, a helper or an iterator chain does not turn a vetted internal invariant into a new report."""
    names = set(re.findall(r"\.([a-z_][a-z_0-9]*)", okey)) | set(re.findall(r"P\d+\(([a-z_][a-z_0-9]*)\)", okey)) | set(re.findall(r"::([a-z_][a-z_0-9]*)\(", okey))
    names -= {"deref", "deref_mut", "into_iter", "iter", "next", "branch", "unwrap", "expect", "new", "clone", "as_ref", "as_mut", "self", "index", "index_mut", "from", "into"}
    consts = set(re.findall(r"(?<![\w.])(\d{2,})(?![\w.])", okey))
    return ",".join(sorted(names)) + ("#" + ",".join(sorted(consts)) if consts else "")


def subject(okey):
    """the thing an obligation is about: the first field of own state mentioned by its operands (`sliced_data`, `memory_usage_bytes`,
    `sent_packets`, `clients`), else the first method. The vetted table is matched on (function, kind, subject)."""
    m = re.search(r"P1\(self\)\)?\.([a-z_][a-z_0-9]*)", okey) or re.search(r"\.([a-z_][a-z_0-9]*)", okey) or re.search(r"::([a-z_][a-z_0-9]*)\(", okey)
    return m.group(1) if m else okey[:30]


def kind_class(k):
    if k.startswith("overflow:"): return k
    return k.split(":")[0]

def run_scope(facts_dir, scope, rounds=8, use_cache=True):
    """fixpoint of one entry-point scope; result cached next to the facts (keyed by the analysis code), computed once under a file lock"""
    import fcntl
    cache = os.path.join(facts_dir, f"obl_{scope}_{analysis_key()}.json")
    if use_cache and os.path.exists(cache): return json.load(open(cache))
    with open(os.path.join(facts_dir, f"obl_{scope}.lock"), "w") as lf:
        fcntl.flock(lf, fcntl.LOCK_EX)
        if use_cache and os.path.exists(cache): return json.load(open(cache))
        return _run_scope(facts_dir, scope, rounds, cache)

def _run_scope(facts_dir, scope, rounds, cache):
    F = Facts(facts_dir)
    t0 = time.time()
    eng = fixpoint(SCOPES[scope], facts=F, max_rounds=rounds)
    sites = {}
    for o in eng.obl:
        okey = o["okey"]
        if kind_class(o["kind"]) == "panic": okey = okey.split(", &array")[0]     # an explicit panic is identified by its message, not by the formatted arguments
        key = f"{o['fn']}|{kind_class(o['kind'])}|{okey}"
        e = sites.setdefault(key, dict(key=key, ckey=f"{o['fn']}|{kind_class(o['kind'])}|{coarse(okey)}", skey=f"{o['fn']}|{kind_class(o['kind'])}|{subject(okey)}", fn=o["fn"], kind=o["kind"], file=o["file"], line=o["line"], descr=o["descr"], ok=True, visits=0, tainted=False))
        e["ok"] = e["ok"] and o["ok"]; e["visits"] += 1
        e["tainted"] = e["tainted"] or bool(o.get("tainted", True))
        if not o["ok"]: e["descr"] = o["descr"]
    summ = {f"{short(k[0])}.{k[1]}.{k[2]}": repr(v) for k, v in eng.summ.items() if k[2] != "<exists>"}
    out = dict(scope=scope, wall_s=round(time.time() - t0, 1), sites=list(sites.values()), summaries=summ, unknown=dict(eng.unknown_callees.most_common(40)))
    try:
        tmp = cache + f".{os.getpid()}"
        json.dump(out, open(tmp, "w")); os.replace(tmp, cache)
    except OSError:
        pass        # the cache directory is gone (pruned): the result is still valid, it is just not cached
    return out

def load_vetted(path):
    v = {}
    if os.path.exists(path):
        for l in open(path):
            l = l.strip()
            if l and not l.startswith("#"):
                j = json.loads(l); v[j["key"]] = j
    return v
