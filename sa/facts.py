# Core analyses over the MIR fact files: CFG, dominators, origin expressions.
import json, os, sys, functools, collections

FACTS_DIR = os.environ.get("FACTS", "")
CRATES = ["renet", "renetcode", "renet_netcode"]

PANIC_CALLEES = ("core::panicking::", "std::rt::panic", "std::rt::begin_panic", "core::option::unwrap_failed",
                 "core::option::expect_failed", "core::result::unwrap_failed", "core::slice::index::slice_",
                 "std::process::abort", "core::intrinsics::abort")


class Facts:
    def __init__(self, d=FACTS_DIR, inline=True):
        self.fns, self.adts, self.consts, self.statics = {}, {}, {}, []
        raw = {}
        for c in CRATES:
            j = json.load(open(os.path.join(d, c + ".json")))
            raw.update(j["fns"])
            self.adts.update(j["adts"])
            self.consts.update(j["consts"])
            self.statics += j["statics"]
        self.inlined_helpers = {}
        # promoted constants (`&ConnectionState::Connected`, `&[..]` temporaries): tiny bodies, resolved by the origin layer, not subjects of rules
        self.promoted = {k: Fn(k, v, self) for k, v in raw.items() if "::promoted[" in k}
        raw = {k: v for k, v in raw.items() if "::promoted[" not in k}
        if inline:
            raw, self.inlined_helpers = inline_helpers(raw)
        for k, v in raw.items():
            self.fns[k] = Fn(k, v, self)

    def fn(self, suffix):
        m = [f for k, f in self.fns.items() if k == suffix or k.endswith("::" + suffix)]
        assert len(m) == 1, (suffix, [f.path for f in m])
        return m[0]


# ---- helper inlining ----------------------------------------------------------------------------------------------------------
# A private function that is not in tables/known_functions.txt (the functions of the pinned tree) is a *helper*: it is inlined into its callers and is not
# a subject of its own. This makes every rule invariant under "extract a block into a private helper" refactorings: the caller's inlined body
# has the same stores, guards and calls as before the extraction (parameters are bound to the argument operands, so origins resolve to the
# caller's places). Functions named by a rule (anchors), public functions, closures and recursive functions are never inlined.
_KNOWN = None

def known_functions():
    global _KNOWN
    if _KNOWN is None:
        root = os.path.dirname(os.path.dirname(os.path.abspath(__file__)))
        with open(os.path.join(root, "tables", "known_functions.txt")) as f:
            _KNOWN = {l.strip() for l in f if l.strip() and not l.startswith("#")}
    return _KNOWN


def _strip_generics(p):
    import re
    return re.sub(r"::<.*$", "", re.sub(r"::<[^>]*>(?=::)", "", p or ""))


def is_helper(path, j):
    import re
    if j.get("kind") not in ("Fn", "AssocFn") or "{closure" in path or "{impl" in path.rsplit("::", 1)[-1]: return False
    if str(j.get("vis", "")).startswith("Public"): return False
    return path not in known_functions()


def _shift(node, dl, db, keep_param_names=False):
    """deep copy of a statement / terminator with local indices shifted by dl and block indices by db"""
    if isinstance(node, list): return [_shift(x, dl, db) for x in node]
    if not isinstance(node, dict): return node
    out = {}
    for k, v in node.items():
        if k == "local" and isinstance(v, int): out[k] = v + dl
        elif k in ("target", "otherwise") and isinstance(v, int): out[k] = v + db
        elif k == "unwind" and isinstance(v, int): out[k] = v + db
        elif k == "targets" and isinstance(v, list): out[k] = [[val, bb + db] for val, bb in v]
        else: out[k] = _shift(v, dl, db)
    return out


def is_pure_accessor(path, j, raw, _depth=0):
    """small `&self` function without stores through references and without calls other than to std value helpers or other pure accessors:
    `is_connected()`, `is_disconnected()`, `disconnect_reason()`. They are inlined into their callers (and stay subjects of their own), so
    a status test reads the same whether it is written `self.is_disconnected()`, `matches!(self.connection_status, ..)` or `if let .. = ..`."""
    if j.get("kind") not in ("Fn", "AssocFn") or "{closure" in path or not (1 <= j.get("argc", 0) <= 2) or len(j["blocks"]) > 14: return False
    l1 = j["locals"][1]["ty"] if len(j["locals"]) > 1 else {}
    if not (l1.get("k") == "ref" and not l1.get("mut")): return False
    for b in j["blocks"]:
        if b.get("cleanup"): continue
        for st in b["stmts"]:
            if st["k"] == "assign" and any(pr["k"] == "deref" for pr in st["place"]["proj"]): return False
        t = b["term"]
        if t["k"] == "call":
            nm = t.get("resolved") or t.get("callee") or ""
            if not (nm.endswith("::clone") or "PartialEq" in nm or "::eq" in nm or "::ne" in nm or "Option" in nm and nm.rsplit("::", 1)[-1] in ("is_some", "is_none")):
                # a call to another pure accessor of the same kind (`is_disconnected()` written as `self.disconnect_reason().is_some()`)
                callee = raw.get(_strip_generics(nm))
                if _depth < 2 and callee is not None and callee is not j and is_pure_accessor(_strip_generics(nm), callee, raw, _depth + 1): continue
                return False
        if t["k"] == "assert" and not str(t.get("kind", "")).startswith("overflow"): return False
    return True


def inline_helpers(raw, max_rounds=6):
    helpers = {p for p, j in raw.items() if is_helper(p, j)}
    import re
    # a method of a type with lifetime parameters is stored as `Type::<'a>::method`, a call to it resolves to `Type::<'_>::method` / `Type::<'a>::method`:
    # look callees up by their path without generic arguments
    _sg = globals()["_strip_generics"]
    _bare = {}
    for p_ in raw: _bare.setdefault(_sg(p_), p_)
    def _strip_generics(x):
        y = _sg(x)
        return y if y in raw else _bare.get(y, y)
    # pure accessors no rule names, plus the connection-status predicates (rules reason about the status enum itself, see rules/C12.py)
    STATUS = ("RenetClient::is_disconnected", "RenetClient::is_connected", "RenetClient::is_connecting", "RenetClient::disconnect_reason",
              "SendChannelReliable::can_send_message", "SendChannelUnreliable::can_send_message",   # + the channels' budget predicate
              "NetcodeClient::is_disconnected", "NetcodeClient::is_connected", "NetcodeClient::is_connecting", "NetcodeClient::disconnect_reason")
    accessors = {p for p, j in raw.items() if p not in helpers and is_pure_accessor(p, j, raw)
                 and (p.endswith(STATUS) or p not in known_functions())}
    helpers |= accessors
    # callers graph restricted to helpers, to refuse recursion
    def callees(j):
        out = set()
        for b in j["blocks"]:
            t = b["term"]
            if t["k"] == "call":
                r = _strip_generics(t.get("resolved") or "")
                if r in raw: out.add(r)
        return out
    rec = set()
    for h in helpers:
        seen, st = set(), list(callees(raw[h]))
        while st:
            x = st.pop()
            if x == h: rec.add(h); break
            if x in seen or x not in helpers: continue
            seen.add(x); st.extend(callees(raw[x]))
    helpers -= rec
    used = {}
    out = {p: j for p, j in raw.items()}
    for _ in range(max_rounds):
        changed = False
        for p in list(out):
            j = out[p]
            new_blocks = None
            for bi in range(len(j["blocks"])):
                b = j["blocks"][bi]
                t = b["term"]
                if t["k"] != "call" or b.get("cleanup"): continue
                r = _strip_generics(t.get("resolved") or "")
                if r not in helpers or r == p: continue
                cal = out[r]
                if any(bb["term"]["k"] == "call" and _strip_generics(bb["term"].get("resolved") or "") in helpers for bb in cal["blocks"] if not bb.get("cleanup")):
                    continue   # inline the callee's own helpers first (next round)
                if len(t["args"]) != cal["argc"]: continue
                if new_blocks is None:
                    j = dict(j); j["locals"] = list(j["locals"]); j["blocks"] = [dict(x) for x in j["blocks"]]; out[p] = j
                    new_blocks = True
                dl, db = len(j["locals"]), len(j["blocks"])
                for l in cal["locals"]:
                    nl = dict(l); nl["i"] = l["i"] + dl; nl["inl"] = r
                    j["locals"].append(nl)
                b = j["blocks"][bi] = dict(j["blocks"][bi]); b["stmts"] = list(b["stmts"])
                for k, a in enumerate(t["args"]):
                    b["stmts"].append({"k": "assign", "place": {"local": dl + 1 + k, "proj": []}, "rv": {"k": "use", "op": a}, "span": t["span"], "inl_arg": True})
                b["term"] = {"k": "goto", "target": db, "span": t["span"], "inl_call": r}
                for cb in cal["blocks"]:
                    nb = {"i": cb["i"] + db, "cleanup": cb.get("cleanup", False), "stmts": _shift(cb["stmts"], dl, db), "term": _shift(cb["term"], dl, db)}
                    if nb["term"]["k"] == "return":
                        nb["stmts"].append({"k": "assign", "place": t["dest"], "rv": {"k": "use", "op": {"k": "move", "place": {"local": dl, "proj": []}}}, "span": nb["term"]["span"], "inl_ret": True})
                        nb["term"] = {"k": "goto", "target": t["target"], "span": nb["term"]["span"]} if t["target"] is not None else {"k": "unreachable", "span": nb["term"]["span"]}
                    j["blocks"].append(nb)
                used[r] = used.get(r, 0) + 1
                changed = True
        if not changed: break
    for h in used:
        if h not in accessors: out.pop(h, None)
    for p in list(out):
        # every function: `let r = match .. { A => Some(x), B => None }; if let Some(x) = r { .. }` has the same merge-then-test shape as an inlined helper
        if not any(bb["term"].get("inl_call") for bb in out[p]["blocks"]):
            out[p] = dict(out[p]); out[p]["blocks"] = [dict(b) for b in out[p]["blocks"]]
        duplicate_return_tails(out[p])
        thread_known_variants(out[p])
        duplicate_return_tails(out[p])
    return out, used


_VARIANT_INDEX = {"Ok": 0, "Err": 1, "None": 0, "Some": 1, "Continue": 0, "Break": 1}
_BRANCH = {"Ok": "Continue", "Err": "Break", "Some": "Continue", "None": "Break"}


def _succs(b):
    t = b["term"]; k = t["k"]
    if k == "goto": return [t["target"]]
    if k == "switch": return [x for _, x in t["targets"]] + [t["otherwise"]]
    if k in ("call", "assert", "drop"): return [t["target"]] if t.get("target") is not None else []
    return []


def duplicate_return_tails(j, max_blocks=8, max_stmts=24, max_preds=12):
    if os.environ.get("VERIF_DEV_NO_TAILDUP"): return      # development switch (bisecting a normalisation); never set by ./check
    """tail duplication: a join block from which the function runs straight to its `return` (a hoisted common tail such as
    `self.usage -= len; Some(message)` or `self.last_received = now; payload` after a `match`) is cloned for each predecessor, so that what
    the tail does is again dominated by the arm that leads to it. Purely a CFG normalisation: no path is added or removed."""
    blocks = j["blocks"]
    n0 = len(blocks)
    for _round in range(40):
        if len(blocks) > 3 * n0 + 40: break          # growth cap
        preds = {}
        for b in blocks:
            if b.get("cleanup"): continue
            for x in _succs(b): preds.setdefault(x, []).append(b["i"])
        done = False
        for R in list(blocks):
            if R["term"]["k"] != "return" or R.get("cleanup"): continue
            # grow the linear chain backwards from the return block while blocks have a single predecessor
            chain = [R["i"]]
            while True:
                ps = sorted(set(preds.get(chain[0], [])))
                if len(ps) != 1: break
                q = blocks[ps[0]]
                if q.get("cleanup") or len(set(_succs(q))) != 1 or q["i"] in chain or q["term"]["k"] == "switch": break
                chain.insert(0, q["i"])
                if len(chain) > max_blocks: break
            head = chain[0]
            hp = sorted(set(preds.get(head, [])))
            if len(hp) < 2 or len(hp) > max_preds or len(chain) > max_blocks: continue
            if sum(len(blocks[c]["stmts"]) for c in chain) > max_stmts: continue
            if head == 0 or any(h in chain for h in hp): continue
            # keep the original chain for the first predecessor, clone it for the others
            for pi in hp[1:]:
                P = blocks[pi]
                base = len(blocks); remap = {ci: base + k for k, ci in enumerate(chain)}
                for ci in chain:
                    cb = blocks[ci]
                    nb = {"i": remap[ci], "cleanup": False, "stmts": json.loads(json.dumps(cb["stmts"])), "term": json.loads(json.dumps(cb["term"])), "tail_dup_of": ci}
                    if nb["term"]["k"] != "return": nb["term"]["target"] = remap[chain[chain.index(ci) + 1]]
                    blocks.append(nb)
                t = P["term"] = json.loads(json.dumps(P["term"]))
                if t["k"] == "switch":
                    t["targets"] = [[v, remap[head] if x == head else x] for v, x in t["targets"]]
                    if t["otherwise"] == head: t["otherwise"] = remap[head]
                elif t.get("target") == head: t["target"] = remap[head]
            done = True
            break
        if not done: break


def thread_known_variants(j, max_chain=5):
    """jump threading after inlining: a helper returning `Err(..)` on one path and `Ok(..)` on another merges both at the call's continuation, where
    the caller immediately tests the variant (`?`, `match`, `if let`). The merge loses dominance facts (the store on the Ok path no longer
    dominates what follows the `?`). For every predecessor whose result variant is evident from the statements it executes, the short
    continuation chain up to the discriminant switch is cloned and the switch is resolved. The same is done for a *correlated* test: a value
    that an earlier switch on the way to the predecessor has already decided (`if fits { usage += n }; fits` followed by the caller's
    `if !fits { return }`): the edge taken fixes the value. Purely a CFG normalisation: no path is added."""
    blocks = j["blocks"]
    locs = j.get("locals") or []
    succs = _succs
    def is_bool(l): return l < len(locs) and (locs[l].get("ty") or {}).get("k") == "bool"
    pay = {}
    def kill(l, env, denv, alias):
        env.pop(l, None); denv.pop(l, None); alias.pop(l, None); pay.pop(l, None)
        for k_ in [k_ for k_, r_ in alias.items() if r_ == l]: alias.pop(k_, None)
    def learn(l, v, denv, alias):
        denv[l] = v
        root = alias.get(l, l)
        denv[root] = v
        for k_, r_ in alias.items():
            if r_ == root: denv[k_] = v
    def step_stmt(st, env, denv, alias):
        if st["k"] != "assign": return
        if st["place"]["proj"]:
            return
        l = st["place"]["local"]; rv = st["rv"]
        src = rv["op"]["place"]["local"] if rv["k"] == "use" and rv["op"]["k"] in ("copy", "move") and not rv["op"]["place"]["proj"] else None
        sv_e = env.get(src) if src is not None else None; sv_d = denv.get(src) if src is not None else None; sroot = alias.get(src, src) if src is not None else None
        sv_p = pay.get(src) if src is not None else None
        kill(l, env, denv, alias)
        if rv["k"] in ("ref", "rawptr") and not rv["place"]["proj"] and rv["place"]["local"] in env: env[l] = env[rv["place"]["local"]]   # &x of a known variant
        if rv["k"] == "aggr" and rv.get("vname") in _VARIANT_INDEX and (rv.get("path") or "").split("::")[-1] in ("Result", "Option", "ControlFlow"):
            env[l] = rv["vname"]
            # remember what the payload is, when it is itself a tracked value (`Some(Admission::Slot(i))`)
            f0 = rv["fields"][0] if rv.get("fields") else None
            if f0 is not None and f0["k"] in ("copy", "move") and not f0["place"]["proj"] and f0["place"]["local"] in env: pay[l] = env[f0["place"]["local"]]
        elif rv["k"] == "aggr" and rv.get("ak") == "adt" and isinstance(rv.get("variant"), int) and rv.get("vname") and (rv.get("path") or "").split("::")[0] in ("renet", "renetcode", "renet_netcode"):
            env[l] = "#%d" % rv["variant"]          # a variant of one of the workspace's own enums, by index
        elif src is not None:
            if sv_e is not None: env[l] = sv_e
            if sv_d is not None: denv[l] = sv_d
            if sv_p is not None: pay[l] = sv_p
            if sroot != l: alias[l] = sroot
        elif rv["k"] == "discr" and not rv["place"]["proj"] and rv["place"]["local"] in env:
            ev_ = env[rv["place"]["local"]]
            denv[l] = int(ev_[1:]) if ev_.startswith("#") else _VARIANT_INDEX[ev_]
        elif rv["k"] == "discr" and len(rv["place"]["proj"]) == 2 and rv["place"]["proj"][0]["k"] == "downcast" and rv["place"]["proj"][1]["k"] == "field" and rv["place"]["local"] in pay:
            ev_ = pay[rv["place"]["local"]]           # discriminant of the payload: `match opt { Some(Admission::Slot(i)) => .. }`
            denv[l] = int(ev_[1:]) if ev_.startswith("#") else _VARIANT_INDEX[ev_]
        elif rv["k"] == "use" and rv["op"]["k"] in ("copy", "move") and len(rv["op"]["place"]["proj"]) == 2 and rv["op"]["place"]["proj"][0]["k"] == "downcast" and rv["op"]["place"]["proj"][1]["k"] == "field" and rv["op"]["place"]["local"] in pay:
            env[l] = pay[rv["op"]["place"]["local"]]   # the payload moved out: `let Some(x) = opt`
        elif rv["k"] == "use" and rv["op"]["k"] == "const" and isinstance(rv["op"].get("val"), int) and (rv["op"].get("ty") or {}).get("k") == "bool": denv[l] = rv["op"]["val"]
        elif rv["k"] == "un" and rv.get("op") == "Not" and rv["a"]["k"] in ("copy", "move") and not rv["a"]["place"]["proj"] and rv["a"]["place"]["local"] in denv and denv[rv["a"]["place"]["local"]] in (0, 1): denv[l] = 1 - denv[rv["a"]["place"]["local"]]
    def step_term(cb, env, denv, alias):
        tm = cb["term"]
        if tm["k"] == "call":
            d = tm["dest"]["local"] if not tm["dest"]["proj"] else None
            if d is not None: kill(d, env, denv, alias)
            nm = tm.get("resolved") or tm.get("callee") or ""
            a0 = tm["args"][0] if tm["args"] else None
            if nm.endswith("Try>::branch") and a0 and a0["k"] in ("copy", "move") and not a0["place"]["proj"] and a0["place"]["local"] in env and d is not None:
                env[d] = _BRANCH[env[a0["place"]["local"]]]
                if a0["place"]["local"] in pay: pay[d] = pay[a0["place"]["local"]]
            elif nm.rsplit("::", 1)[-1] in ("is_none", "is_some") and "Option" in nm and a0 and a0["k"] in ("copy", "move") and not a0["place"]["proj"] and a0["place"]["local"] in env and d is not None:
                v_ = env[a0["place"]["local"]]
                if v_ in ("Some", "None"): denv[d] = int((v_ == "None") == nm.endswith("is_none"))
            # a call may write through any `&mut` it was given: forget what is known about locals whose address escaped is beyond this
            # normalisation; the values tracked here are plain bool / enum temporaries of the function itself
    def edge_fact(q, target):
        """(local, value) known on the edge q -> target of a switch on a plain local"""
        tm = q["term"]
        if tm["k"] != "switch": return None
        on = tm["on"]
        if on["k"] not in ("copy", "move") or on["place"]["proj"]: return None
        c = on["place"]["local"]
        if os.environ.get("VERIF_DEV_NO_CORR"): return None   # development switch; never set by ./check
        vals = [v for v, x in tm["targets"] if x == target]
        oth = tm["otherwise"] == target
        if len(vals) == 1 and not oth: return (c, vals[0])
        if not vals and oth and [v for v, _ in tm["targets"]] == [0] and is_bool(c): return (c, 1)
        return None
    changed = True; rounds = 0
    while changed and rounds < 60:
        changed = False; rounds += 1
        preds = {}
        for b in blocks:
            if b.get("cleanup"): continue
            for x in succs(b): preds.setdefault(x, []).append(b["i"])
        def entry_state(pi, depth=4):
            """facts that hold when block pi is entered, from the unique-predecessor chain above it"""
            path = [pi]
            cur = pi
            for _ in range(depth):
                ps = sorted(set(preds.get(cur, [])))
                if len(ps) != 1 or ps[0] in path: break
                path.insert(0, ps[0]); cur = ps[0]
            env, denv, alias = {}, {}, {}
            pay.clear()
            for a, b_ in zip(path, path[1:]):
                q = blocks[a]
                for st in q["stmts"]: step_stmt(st, env, denv, alias)
                step_term(q, env, denv, alias)
                ef = edge_fact(q, b_)
                if ef: learn(ef[0], ef[1], denv, alias)
            return env, denv, alias
        for S in list(blocks):
            if S["term"]["k"] != "switch" or S.get("cleanup"): continue
            on = S["term"]["on"]
            if on["k"] not in ("copy", "move") or on["place"]["proj"]: continue
            chain = [S["i"]]
            cur = S["i"]
            while len(chain) < max_chain:
                ps = sorted(set(preds.get(cur, [])))
                if len(ps) != 1: break
                p = blocks[ps[0]]
                if p["term"]["k"] not in ("goto", "call") or len(succs(p)) != 1 or p.get("cleanup") or p["i"] in chain: break
                chain.insert(0, p["i"]); cur = p["i"]
            head = chain[0]
            hp = sorted(set(preds.get(head, [])))
            if len(hp) < 2: continue
            cands = [(pi, []) for pi in hp]      # (predecessor, join blocks between it and the chain head that are cloned with the chain)
            while cands:
                pi, prefix = cands.pop(0)
                full = prefix + chain
                first = full[0]
                P = blocks[pi]
                if P.get("cleanup") or pi in full: continue
                if P["term"]["k"] == "goto": pass
                elif P["term"]["k"] == "switch":
                    if edge_fact(P, first) is None: continue
                else: continue
                env, denv, alias = entry_state(pi)
                for st in P["stmts"]: step_stmt(st, env, denv, alias)
                step_term(P, env, denv, alias)
                ef = edge_fact(P, first)
                if ef: learn(ef[0], ef[1], denv, alias)
                for ci in full:
                    cb = blocks[ci]
                    for st in cb["stmts"]: step_stmt(st, env, denv, alias)
                    if ci != S["i"]: step_term(cb, env, denv, alias)
                d = on["place"]["local"]
                if d not in denv:
                    # the predecessor is itself a bare join (`goto` only, reached from several arms): look one level further up, cloning it too
                    if P["term"]["k"] == "goto" and len(prefix) < 2 and len(P["stmts"]) <= 2 and len(set(preds.get(pi, []))) >= 2:
                        cands += [(pp, [pi] + prefix) for pp in sorted(set(preds.get(pi, [])))]
                    continue
                val = denv[d]
                tgt = dict((v, x) for v, x in S["term"]["targets"]).get(val, S["term"]["otherwise"])
                # clone the chain for this predecessor
                base = len(blocks); remap = {ci: base + k for k, ci in enumerate(full)}
                for ci in full:
                    cb = blocks[ci]
                    nb = {"i": remap[ci], "cleanup": False, "stmts": json.loads(json.dumps(cb["stmts"])), "term": json.loads(json.dumps(cb["term"])), "threaded_from": ci}
                    if ci == S["i"]: nb["term"] = {"k": "goto", "target": tgt, "span": cb["term"]["span"], "threaded": val}
                    else: nb["term"]["target"] = remap[full[full.index(ci) + 1]]
                    blocks.append(nb)
                t = P["term"] = json.loads(json.dumps(P["term"]))
                if t["k"] == "switch":
                    t["targets"] = [[v, remap[first] if x == first else x] for v, x in t["targets"]]
                    if t["otherwise"] == first: t["otherwise"] = remap[first]
                else: t["target"] = remap[first]
                changed = True
            if changed: break


def is_log_or_derive(span):
    e = span.get("exp")
    if not e:
        return False
    outer = e.split("<")[-1]
    return outer.startswith("Bang:log::") or outer.startswith("Derive:")


class Fn:
    def __init__(self, path, j, facts):
        self.path, self.j, self.facts = path, j, facts
        self.blocks = j["blocks"]
        self.argc = j["argc"]
        self.locals = j["locals"]
        self.n = len(self.blocks)
        self._build_cfg()

    # ---- CFG -------------------------------------------------------------
    def _build_cfg(self):
        self.succ = [[] for _ in range(self.n)]
        self.edge_label = {}  # (a,b) -> list of labels
        self.panics = set()   # blocks ending in a diverging panic call
        for b in self.blocks:
            i, t = b["i"], b["term"]
            k = t["k"]
            outs = []
            if k == "goto":
                outs = [(t["target"], "goto")]
            elif k == "switch":
                for v, tgt in t["targets"]:
                    outs.append((tgt, ("val", v)))
                outs.append((t["otherwise"], ("otherwise", tuple(v for v, _ in t["targets"]))))
            elif k == "call":
                if t["target"] is not None:
                    outs = [(t["target"], "ret")]
                else:
                    self.panics.add(i)
            elif k == "assert":
                outs = [(t["target"], "ok")]
            elif k == "drop":
                outs = [(t["target"], "drop")]
            for tgt, lab in outs:
                if tgt not in self.succ[i]:
                    self.succ[i].append(tgt)
                self.edge_label.setdefault((i, tgt), []).append(lab)
        self.pred = [[] for _ in range(self.n)]
        for a in range(self.n):
            for b in self.succ[a]:
                self.pred[b].append(a)
        # reachable from entry (normal edges)
        seen, st = {0}, [0]
        while st:
            a = st.pop()
            for b in self.succ[a]:
                if b not in seen:
                    seen.add(b); st.append(b)
        self.reach = seen
        self.returns = [b["i"] for b in self.blocks if b["term"]["k"] == "return" and b["i"] in seen]
        self._dom = None
        self._pdom = None

    def dominators(self):
        if self._dom is None:
            self._dom = _doms(self.n, 0, self.succ, self.pred, self.reach)
        return self._dom

    def postdominators(self):
        """post-dominators w.r.t. normal returns (virtual exit = n); panicking paths are ignored"""
        if self._pdom is None:
            n = self.n
            succ = [list(p) for p in self.pred] + [list(self.returns)]  # reversed graph, exit node n -> returns
            pred = [list(s) for s in self.succ] + [[]]
            for r in self.returns:
                pred[r] = pred[r] + [n]
            # nodes that can reach a return
            seen, st = {n}, [n]
            while st:
                a = st.pop()
                for b in succ[a]:
                    if b not in seen:
                        seen.add(b); st.append(b)
            self._pdom = _doms(n + 1, n, succ, pred, seen)
        return self._pdom

    def dominates(self, a, b):
        """block a dominates block b"""
        d = self.dominators()
        return b in d and a in d[b]

    def edge_dominates(self, a, b, x):
        """every path from entry to block x passes through CFG edge a->b"""
        if x not in self.reach:
            return True
        # remove the edge and test reachability of x
        seen, st = {0}, [0]
        while st:
            u = st.pop()
            for v in self.succ[u]:
                if u == a and v == b:
                    continue
                if v not in seen:
                    seen.add(v); st.append(v)
        return x not in seen

    def reachable_from(self, srcs, avoid_edges=()):
        seen, st = set(srcs), list(srcs)
        while st:
            u = st.pop()
            for v in self.succ[u]:
                if (u, v) in avoid_edges:
                    continue
                if v not in seen:
                    seen.add(v); st.append(v)
        return seen

    # ---- statements -------------------------------------------------------
    def sites(self):
        """iterate (bb, idx, stmt_or_term) ; idx == len(stmts) for the terminator"""
        for b in self.blocks:
            if b["i"] not in self.reach or b["cleanup"]:
                continue
            for k, s in enumerate(b["stmts"]):
                yield b["i"], k, s
            yield b["i"], len(b["stmts"]), b["term"]

    def defs(self):
        if hasattr(self, "_defs"):
            return self._defs
        d = collections.defaultdict(list)
        for bb, k, s in self.sites():
            if s["k"] == "assign" and not s["place"]["proj"]:
                d[s["place"]["local"]].append((bb, k, s))
            elif s["k"] == "call" and not s["dest"]["proj"]:
                d[s["dest"]["local"]].append((bb, k, s))
        self._defs = d
        return d

    def defs1(self, local):
        """definitions of `local`, with the copies made by the CFG normalisations (threaded chains, duplicated tails) counted once"""
        ds = self.defs().get(local, [])
        if len(ds) <= 1: return list(ds)
        seen, out = set(), []
        for d in ds:
            st = d[2]
            key = json.dumps({k: v for k, v in st.items() if k not in ("target", "unwind")}, sort_keys=True)
            if key not in seen: seen.add(key); out.append(d)
        return out

    def defs_at(self, local, bb, idx=10**9):
        """the definitions of `local` that can be the value read at program point (bb, idx): if some definition dominates the point, only the
        nearest dominating one (normalisation clones - threaded chains, duplicated tails - each carry their own copy of a definition)"""
        ds = self.defs().get(local, [])
        dom = [d for d in ds if (d[0] == bb and d[1] < idx) or (d[0] != bb and self.dominates(d[0], bb))]
        if not dom: return list(ds)
        best = dom[0]
        for d in dom[1:]:
            if (d[0] == best[0] and d[1] > best[1]) or (d[0] != best[0] and self.dominates(best[0], d[0])): best = d
        return [best]

    # ---- origins ----------------------------------------------------------
    def origin_of_operand(self, op, depth=0):
        k = op["k"]
        if k == "const":
            if op.get("def"):
                return ("fn", op["def"])
            sname = op.get("s") or ""
            if "::promoted[" in sname and depth < 40:
                for pk, pf in self.facts.promoted.items():
                    if pk.endswith("::" + sname) or pk == sname:
                        try: return pf.origin_of_local(0, depth + 1)
                        except Exception: break
            return ("const", op["val"], op.get("s"))
        if k in ("copy", "move"):
            return self.origin_of_place(op["place"], depth)
        return ("unknown", op.get("s"))

    def origin_of_place(self, place, depth=0):
        base = self.origin_of_local(place["local"], depth)
        for pr in place["proj"]:
            base = _project(base, pr, self)
        return base

    def origin_of_local(self, l, depth=0):
        if depth > 80:
            return ("deep", l)
        if 1 <= l <= self.argc:
            return ("param", l, self.locals[l].get("name"))
        ds = self.defs().get(l, [])
        if len(ds) == 0:
            return ("undef", l)
        if len(ds) > 1:
            # a local with several definitions (loop variable, conditionally assigned): a definition that refers back to the local itself
            # (`i = i + 1`) is cut with ("rec", l), so the expression is finite and the same wherever it is computed from
            stack = self.__dict__.setdefault("_phi_stack", [])
            if l in stack:
                return ("rec", l)
            stack.append(l)
            try:
                outs = []
                for bb, k, s in ds:
                    outs.append(self._origin_of_def(s, depth + 1))
            finally:
                stack.pop()
            outs = _dedup(outs)
            if len(outs) == 1:
                return outs[0]
            return ("phi", l, tuple(outs))
        return self._origin_of_def(ds[0][2], depth + 1)

    def call_origin(self, term, depth=0):
        """canonical origin of a call terminator; calls that take a `&mut` argument are stateful and carry their site"""
        args = tuple(self.origin_of_operand(a, depth + 1) for a in term["args"])
        name = term.get("resolved") or term.get("callee") or "indirect"
        stateful = False
        for a in term["args"]:
            if a["k"] in ("copy", "move") and not a["place"]["proj"]:
                ty = self.locals[a["place"]["local"]]["ty"]
                if ty.get("k") == "ref" and ty.get("mut"): stateful = True
        if stateful:
            return ("call", name, args, ("site", term["span"]["l"][0], term["span"]["l"][1]))      # source position only: clones made by jump threading are the same call
        return ("call", name, args)

    def _origin_of_def(self, s, depth):
        if s["k"] == "call":
            return self.call_origin(s, depth)
        rv = s["rv"]
        k = rv["k"]
        if k == "use":
            return self.origin_of_operand(rv["op"], depth)
        if k in ("ref", "rawptr"):
            return ("ref", self.origin_of_place(rv["place"], depth))
        if k == "cast":
            inner = self.origin_of_operand(rv["op"], depth)
            if rv["ck"] in ("IntToInt", "Transmute", "PtrToPtr") or rv["ck"].startswith("PointerCoercion"):
                return ("cast", rv["ck"].split("(")[0], inner)
            return ("cast", rv["ck"], inner)
        if k == "bin":
            return ("bin", rv["op"], self.origin_of_operand(rv["a"], depth + 1), self.origin_of_operand(rv["b"], depth + 1))
        if k == "un":
            return ("un", rv["op"], self.origin_of_operand(rv["a"], depth + 1))
        if k == "discr":
            return ("discr", self.origin_of_place(rv["place"], depth))
        if k == "aggr":
            return ("aggr", rv.get("path") or rv["ak"], rv.get("vname"),
                    tuple(self.origin_of_operand(f, depth + 1) for f in rv["fields"]), tuple(rv.get("fnames") or ()))
        if k == "repeat":
            return ("repeat", self.origin_of_operand(rv["op"], depth + 1), rv["n"])
        return ("other", rv.get("s"))


def _dedup(xs):
    out = []
    for x in xs:
        if x not in out:
            out.append(x)
    return out


def _project(base, pr, fn):
    k = pr["k"]
    if k == "deref":
        if base[0] == "ref":
            return base[1]
        # Box deref lowering: (box.0.0 as *const T) Transmute
        if base[0] == "cast" and base[1] == "Transmute" and base[2][0] == "field":
            b = base[2]
            # strip .0.0 (Unique.pointer / NonNull.pointer)
            while b[0] == "field" and b[2] in ("0", "pointer", None) and b[1][0] == "field":
                b = b[1]
            return ("deref", b)
        return ("deref", base)
    if k == "field":
        if base[0] == "as":
            v = _known_payload(base[1], base[2], pr["i"])
            if v is not None: return v
        if base[0] == "aggr" and base[3] and pr["i"] < len(base[3]) and base[1] in ("tuple", None) or (base[0] == "aggr" and base[1] == "tuple"):
            return base[3][pr["i"]]
        if base[0] == "aggr" and base[4] and pr["name"] in base[4]:
            return base[3][base[4].index(pr["name"])]
        return ("field", base, pr["name"] if pr["name"] is not None else str(pr["i"]), pr.get("adt"))
    if k == "downcast":
        return ("as", base, pr["name"])
    if k == "index":
        return ("index", base, fn.origin_of_local(pr["local"], 8))
    if k == "cindex":
        return ("index", base, ("const", pr["off"], None))
    return (k, base)


_TRY = {"Continue": ("Ok", "Some"), "Break": ("Err", "None")}

def _known_payload(x, variant, i, depth=0):
    """payload field i of `x as variant` when x is visibly built as that variant: an aggregate, a merge of aggregates of which exactly one kind
    can be `variant`, or `Try::branch(r)` of such a value (`r?` yields the Ok/Some payload). Makes a value returned through `Ok(v)` / `Some(v)` by
    a (now inlined) helper transparent to the origin layer."""
    if depth > 4 or not isinstance(x, tuple): return None
    while x and x[0] in ("ref", "deref") and isinstance(x[1], tuple): x = x[1]
    if x[0] == "aggr":
        if x[2] == variant and i < len(x[3]): return x[3][i]
        return None
    if x[0] == "phi":
        outs = []
        for a in x[2]:
            if isinstance(a, tuple) and a[0] == "aggr" and a[2] != variant: continue      # cannot be this variant
            v = _known_payload(a, variant, i, depth + 1)
            if v is None: return None
            outs.append(v)
        outs = _dedup(outs)
        return outs[0] if len(outs) == 1 else None
    if x[0] == "call" and x[1].endswith("Try>::branch") and variant in _TRY and x[2]:
        for inner in _TRY[variant]:
            v = _known_payload(x[2][0], inner, 0, depth + 1)
            if v is not None:
                # Continue(c): c is the Ok/Some payload itself (field 0 of the ControlFlow)
                return v if i == 0 else None
        return None
    return None


def _doms(n, entry, succ, pred, nodes):
    """simple iterative dominator sets restricted to `nodes`"""
    nodes = set(nodes)
    dom = {v: set(nodes) for v in nodes}
    dom[entry] = {entry}
    order = _rpo(entry, succ, nodes)
    changed = True
    while changed:
        changed = False
        for v in order:
            if v == entry:
                continue
            ps = [p for p in pred[v] if p in nodes]
            if not ps:
                continue
            new = set.intersection(*(dom[p] for p in ps)) | {v}
            if new != dom[v]:
                dom[v] = new
                changed = True
    return dom


def _rpo(entry, succ, nodes):
    seen, out = set(), []
    st = [(entry, iter(succ[entry]))]
    seen.add(entry)
    while st:
        v, it = st[-1]
        adv = False
        for w in it:
            if w in nodes and w not in seen:
                seen.add(w)
                st.append((w, iter(succ[w])))
                adv = True
                break
        if not adv:
            out.append(v)
            st.pop()
    return out[::-1]


def fmt(o, depth=0):
    """compact rendering of an origin expression"""
    if not isinstance(o, tuple):
        return str(o)
    k = o[0]
    if k == "param":
        return f"P{o[1]}({o[2] or ''})"
    if k == "const":
        return f"{o[1] if o[1] is not None else o[2]}"
    if k == "field":
        return f"{fmt(o[1])}.{o[2]}"
    if k == "deref":
        return f"*{fmt(o[1])}"
    if k == "ref":
        return f"&{fmt(o[1])}"
    if k == "call":
        return f"{short(o[1])}({', '.join(fmt(a) for a in o[2])})"
    if k == "bin":
        return f"({fmt(o[2])} {o[1]} {fmt(o[3])})"
    if k == "un":
        return f"{o[1]}({fmt(o[2])})"
    if k == "cast":
        return f"{fmt(o[2])}" if o[1] in ("IntToInt", "PointerCoercion") else f"cast[{o[1]}]({fmt(o[2])})"
    if k == "as":
        return f"{fmt(o[1])} as {o[2]}"
    if k == "discr":
        return f"discr({fmt(o[1])})"
    if k == "aggr":
        return f"{short(str(o[1]))}::{o[2]}{{{', '.join(fmt(a) for a in o[3])}}}"
    if k == "phi":
        return "phi(" + " | ".join(fmt(a) for a in o[2]) + ")"
    if k == "index":
        return f"{fmt(o[1])}[{fmt(o[2])}]"
    if k == "fn":
        return short(o[1])
    if k == "rec":
        return f"rec#{o[1]}"
    return str(o)


def stable(o):
    """like fmt, but a value merged from several definitions (a loop variable, a conditionally assigned local) is rendered by the identity of
    its MIR local instead of by the (depth-limited) expansion of its definitions: two uses of the same loop index compare equal"""
    if not isinstance(o, tuple): return str(o)
    k = o[0]
    if k == "phi": return f"phi#{o[1]}"
    if k == "rec": return f"phi#{o[1]}"
    if k == "param": return f"P{o[1]}({o[2] or ''})"
    if k == "const": return f"{o[1] if o[1] is not None else o[2]}"
    if k == "field": return f"{stable(o[1])}.{o[2]}"
    if k == "deref": return f"*{stable(o[1])}"
    if k == "ref": return f"&{stable(o[1])}"
    if k == "call": return f"{short(o[1])}({', '.join(stable(a) for a in o[2])})"
    if k == "bin": return f"({stable(o[2])} {o[1]} {stable(o[3])})"
    if k == "un": return f"{o[1]}({stable(o[2])})"
    if k == "cast": return stable(o[2])
    if k == "as": return f"{stable(o[1])} as {o[2]}"
    if k == "index": return f"{stable(o[1])}[{stable(o[2])}]"
    if k == "aggr": return f"{short(str(o[1]))}::{o[2]}{{{', '.join(stable(a) for a in o[3])}}}"
    return fmt(o)


def short(p):
    p = str(p)
    import re
    p = re.sub(r"<([A-Za-z_:]+::)?([A-Za-z_]+)(<[^>]*>)? as ([A-Za-z_:]+::)?([A-Za-z_]+)(<[^>]*>)?>::", r"\2::", p)
    parts = p.split("::")
    return "::".join(parts[-2:]) if len(parts) > 2 else p


if __name__ == "__main__":
    F = Facts()
    f = F.fn(sys.argv[1])
    print(f.path, "blocks", f.n, "returns", f.returns)
    for bb, k, s in f.sites():
        if is_log_or_derive(s["span"]):
            continue
        if s["k"] == "assign" and s["place"]["proj"]:
            print(f"bb{bb}[{k}] STORE {fmt(f.origin_of_place(s['place']))} := {fmt(f._origin_of_def(s, 0))}   @{s['span']['l'][0]}")
        elif s["k"] == "call":
            print(f"bb{bb} CALL {short(s.get('resolved') or s.get('callee'))}({', '.join(fmt(f.origin_of_operand(a)) for a in s['args'])})   @{s['span']['l'][0]}")
        elif s["k"] == "switch":
            print(f"bb{bb} SWITCH {fmt(f.origin_of_operand(s['on']))} -> {s['targets']} else {s['otherwise']}   @{s['span']['l'][0]}")
        elif s["k"] == "assert":
            print(f"bb{bb} ASSERT {s['kind']} {[fmt(f.origin_of_operand(o)) for o in s['operands']]}   @{s['span']['l'][0]}")
