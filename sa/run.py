# check runner: python3 -m sa.run C05 [--facts DIR]
import sys, os, json, time, importlib
from .facts import Facts
from .rules import Tree, RuleResult

def run_property(cid, facts_dir, verbose=True):
    os.environ["FACTS"] = facts_dir
    F = Facts(facts_dir)
    t = Tree(F)
    mod = importlib.import_module(f"rules.{cid}")
    t0 = time.time()
    results = [r.finish() for r in mod.rules(t)]
    viol = [v for r in results for v in r.violations]
    if verbose:
        for r in results:
            status = "ok " if not r.violations else "BAD"
            print(f"  [{status}] {r.id:10s} sites={r.sites:<3d} floor={r.floor:<3d} {r.descr}")
            for v in r.violations: print(f"         -> {v.site.loc() if v.site else ''} {v.msg}   key={v.key}")
        print(f"  {cid}: {len(results)} rule instances, {sum(r.sites for r in results)} sites, {len(viol)} violation(s), {time.time()-t0:.2f}s")
    return results

if __name__ == "__main__":
    args = sys.argv[1:]
    facts = os.environ.get("FACTS", "")
    if "--facts" in args:
        i = args.index("--facts"); facts = args[i + 1]; del args[i:i + 2]
    sys.path.insert(0, os.path.dirname(os.path.dirname(os.path.abspath(__file__))))
    for cid in args:
        print(f"== {cid} on {facts}")
        run_property(cid, facts)
