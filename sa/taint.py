# Origin-level taint: which values can be chosen by whoever supplies hostile bytes (datagrams, packets, serialized connect tokens)?
# Used by the obligation layer: a partial operation (index, subtraction, unwrap, ...) whose operands are NOT input-dependent is an internal
# invariant of the library's own state, outside what C06/C07 quantify over ("whatever bytes are handed to ..."); it is counted, not reported.
#   sources  : hostile parameters of the API entry points; results of the byte readers (octets get_*, serialize::read_*, read_exact targets, ...)
#   flows    : through arithmetic, casts, projections, aggregates, calls (a call with a tainted argument has a tainted result),
#              into callee parameters (per call site), into struct fields (a field that is ever stored a tainted value is tainted by name)
# Over-approximate on purpose: more taint = more obligations reported (the pre-taint behaviour); under-tainting would hide real defects.
import re
from .facts import fmt

ENTRY_HOSTILE = {   # function path suffix -> hostile parameter names
    "RenetClient::process_packet": ("packet",),
    "RenetServer::process_packet_from": ("payload",),
    "NetcodeServer::process_packet": ("buffer",),
    "NetcodeServer::process_packet_internal": ("buffer",),
    "NetcodeClient::process_packet": ("buffer",),
    "NetcodeClient::new": ("authentication",),
    "ConnectToken::read": ("src",),
    "PrivateConnectToken::read": ("src",),
    "PrivateConnectToken::decode": ("encoded",),
    "ChallengeToken::read": ("src",),
    "ChallengeToken::decode": ("token_data",),
    "packet::Packet::from_bytes": ("b",),
    "Packet::<'a>::decode": ("buffer",),
}
SOURCE_CALL = re.compile(r"(Octets.*::get_|Octets.*::peek_|serialize::read_|::read_exact$|::read_u\d+$|::read_i\d+$|::read_bytes|from_le_bytes$|from_be_bytes$|packet::decode_prefix$|packet::read_sequence)")
# the connect token a client was built from is input (it may have come from ConnectToken::read)
TAINTED_FIELD_SEED = {"connect_token"}


LOOKUP = {"get", "get_mut", "remove", "entry", "or_insert_with", "or_insert", "index", "index_mut", "contains", "contains_key", "range", "first", "first_mut", "last",
          "last_mut", "iter", "iter_mut", "into_iter", "values", "values_mut", "keys", "next", "len", "is_empty", "position", "find", "find_map", "take", "unwrap",
          "expect", "unwrap_or", "as_ref", "as_mut", "as_deref", "as_deref_mut", "deref", "deref_mut", "borrow", "borrow_mut", "clone", "cloned", "copied", "pop_front",
          "pop_first", "pop", "first_entry", "get_key_value", "is_some", "is_none", "ok", "branch", "flatten", "enumerate", "filter", "map", "rev", "peekable", "insert"}


class Taint:
    def __init__(self, facts):
        self.F = facts
        self.params = set()      # (fn path, param index)
        self.fields = {(None, n) for n in TAINTED_FIELD_SEED} | {("renetcode::client::NetcodeClient", "connect_token")}   # (adt path, field name)
        for p, f in facts.fns.items():
            for suf, names in ENTRY_HOSTILE.items():
                if p.endswith("::" + suf) or p.endswith(suf):
                    for i in range(1, f.argc + 1):
                        if f.locals[i].get("name") in names: self.params.add((p, i))
        self._fix()

    def is_tainted(self, f, o, depth=0):
        if not isinstance(o, tuple) or not o or depth > 60: return False
        k = o[0]
        if k == "param": return (f.path, o[1]) in self.params
        if k == "const" or k == "fn" or k == "undef" or k == "rec": return False
        if k == "field":
            adt = o[3] if len(o) > 3 else None
            if not str(o[2]).isdigit() and ((adt, str(o[2])) in self.fields or (adt is None and any(n_ == str(o[2]) for a_, n_ in self.fields))): return True   # tuple positions are not names
            return self.is_tainted(f, o[1], depth + 1)
        if k == "call":
            if SOURCE_CALL.search(o[1]): return True
            m = re.sub(r"::<[^:]*?>", "", o[1]).rsplit("::", 1)[-1]
            if m in LOOKUP or m.startswith("find") or m.startswith("position"):       # the result is (a view of) what the receiver holds: a lookup by a hostile key yields own state, not hostile data
                return bool(o[2]) and self.is_tainted(f, o[2][0], depth + 1)
            return any(self.is_tainted(f, a, depth + 1) for a in o[2])
        if k == "phi": return any(self.is_tainted(f, a, depth + 1) for a in o[2])
        if k == "aggr": return any(self.is_tainted(f, a, depth + 1) for a in o[3])
        return any(self.is_tainted(f, x, depth + 1) for x in o[1:] if isinstance(x, tuple))

    def _fix(self):
        F = self.F
        for _ in range(12):
            before = (len(self.params), len(self.fields))
            for p, f in F.fns.items():
                for bb, k, s in f.sites():
                    if s["k"] == "call":
                        callee = re.sub(r"::<.*$", "", re.sub(r"::<[^>]*>(?=::)", "", s.get("resolved") or ""))
                        g = F.fns.get(callee)
                        if g is not None:
                            for i, a in enumerate(s["args"]):
                                if i + 1 <= g.argc and (callee, i + 1) not in self.params:
                                    try:
                                        if self.is_tainted(f, f.origin_of_operand(a)): self.params.add((callee, i + 1))
                                    except RecursionError: pass
                    elif s["k"] == "assign":
                        rv = s["rv"]
                        try:
                            if s["place"]["proj"] and s["place"]["proj"][-1]["k"] == "field" and s["place"]["proj"][-1].get("name"):
                                nm = (s["place"]["proj"][-1].get("adt"), s["place"]["proj"][-1]["name"])
                                if nm not in self.fields and not str(nm[1]).isdigit() and self.is_tainted(f, f._origin_of_def(s, 0)): self.fields.add(nm)
                            if rv["k"] == "aggr" and rv.get("fnames"):
                                for nm_, op in zip(rv["fnames"], rv["fields"]):
                                    nm = (rv.get("path"), nm_)
                                    if nm_ and not str(nm_).isdigit() and nm not in self.fields and self.is_tainted(f, f.origin_of_operand(op)): self.fields.add(nm)
                        except RecursionError: pass
            if (len(self.params), len(self.fields)) == before: break
