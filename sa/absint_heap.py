# PROTOTYPE (scratch): field-based heap summaries + collection contracts + entry-point fixpoint on top of absint.py
import sys, re, collections
from . import absint_core as A
from .absint_core import *

# declared relational invariants: len(field) == other integer field of the same record (checked at construction, assumed at load)
LEN_INVARIANTS = {
    ("renet::channel::slice_constructor::SliceConstructor", "SliceConstructor"): [("received", "num_slices")],
    ("renet::channel::reliable::UnackedMessage", "Sliced"): [("acked", "num_slices"), ("last_sent", "num_slices")],
}

class BotV:
    def __repr__(self): return "BOT"
BOT = BotV()

class MapV:
    """HashMap / BTreeMap / BTreeSet: element value summary (or BOT when nothing was ever inserted)"""
    def __init__(self, elem, key=None): self.elem, self.key = elem, key
    def __repr__(self): return f"Map(elem={self.elem!r})"

MAP_ADTS = ("std::collections::HashMap", "std::collections::BTreeMap", "std::collections::BTreeSet", "std::collections::HashSet")

def close(st, v, depth=0):
    """summary form: intervals only, no atoms, no refs"""
    if isinstance(v, IntV):
        lo, hi = int_of(st, v); return IntV(lo, hi)
    if isinstance(v, RecV): return RecV(v.name, {k: close(st, x, depth + 1) for k, x in v.fields.items()})
    if isinstance(v, EnumV): return EnumV(v.name, {k: (close(st, r, depth + 1) if r is not None else None, ()) for k, (r, fx) in v.variants.items()})
    if isinstance(v, SeqV): return SeqV(close(st, v.len), close(st, v.elem, depth + 1) if v.elem is not None else None)
    if isinstance(v, MapV): return MapV(close(st, v.elem, depth + 1) if not isinstance(v.elem, BotV) else BOT)
    if isinstance(v, BotV): return BOT
    return TOP

def _apply_len_inv(adt, variant, rec):
    for seqf, intf in LEN_INVARIANTS.get((adt, variant), []):
        if isinstance(rec.fields.get(seqf), SeqV) and isinstance(rec.fields.get(intf), IntV):
            rec.fields[seqf] = SeqV(rec.fields[intf], rec.fields[seqf].elem)
    return rec

def inst(v):
    """fresh instance of a summary value"""
    if isinstance(v, IntV): return mk_int(v.lo, v.hi, "summ")
    if isinstance(v, RecV): return _apply_len_inv(v.name, v.name.rsplit("::", 1)[-1], RecV(v.name, {k: inst(x) for k, x in v.fields.items()}))
    if isinstance(v, EnumV): return EnumV(v.name, {k: (_apply_len_inv(v.name, k, inst(r)) if r is not None else None, ()) for k, (r, fx) in v.variants.items()})
    if isinstance(v, SeqV): return SeqV(inst(v.len), inst(v.elem) if v.elem is not None else None)
    if isinstance(v, MapV): return MapV(inst(v.elem) if not isinstance(v.elem, BotV) else BOT)
    return v

def has_bot(v, depth=0):
    if isinstance(v, BotV): return True
    if isinstance(v, RecV): return any(has_bot(x, depth + 1) for x in v.fields.values())
    return False

def join_summ(a, b, widen):
    if isinstance(a, BotV): return b
    if isinstance(b, BotV): return a
    if isinstance(a, MapV) and isinstance(b, MapV): return MapV(join_summ(a.elem, b.elem, widen))
    s = State()
    return close(s, join_val(s, s, a, b, widen))

def summ_le(a, b):
    if isinstance(a, BotV): return True
    if isinstance(b, BotV): return False
    if isinstance(a, MapV) and isinstance(b, MapV): return summ_le(a.elem, b.elem)
    s = State(); return val_le(s, s, a, b)

_orig_join_val = A.join_val
def join_val2(sa, sb, a, b, widen=False):
    if isinstance(a, BotV): return b
    if isinstance(b, BotV): return a
    if isinstance(a, MapV) and isinstance(b, MapV): return MapV(join_val2(sa, sb, a.elem, b.elem, widen))
    return _orig_join_val(sa, sb, a, b, widen)
A.join_val = join_val2
join_val = join_val2
_orig_val_le = A.val_le
def val_le2(sa, sb, a, b):
    if isinstance(a, BotV): return True
    if isinstance(a, MapV) and isinstance(b, MapV): return val_le2(sa, sb, a.elem, b.elem)
    return _orig_val_le(sa, sb, a, b)
A.val_le = val_le2


class Engine2(Engine):
    def __init__(self, facts, **kw):
        super().__init__(facts, **kw)
        self.summ = {}          # (adt, variant, field) -> summary value
        self.summ_changed = False
        self.round = 0
        self._lazy = {}
        self.free_input = False
        self.publish_on_store = True   # exit-time publishing (class invariants at API boundaries) is implemented but not yet enabled: see DESIGN I.7
        self.elem_cells = []

    def is_ws(self, path): return path in self.F.adts

    # -- summaries --------------------------------------------------------------
    def join_summary(self, st, adt, variant, field, val):
        key = (adt, variant, field)
        new = close(st, val)
        old = self.summ.get(key, BOT)
        if summ_le(new, old): return
        self.summ[key] = join_summ(old, new, widen=self.round > 3)
        self.summ_changed = True

    def default(self, t, why="", depth=0):
        k = t["k"]
        if k == "adt":
            p = t["path"]
            if p in MAP_ADTS:
                el = t["args"][-1] if t["args"] else None
                e = self.default(el, why + "{}", depth + 1) if el is not None and depth < 4 else TOP
                return MapV(e if not has_bot(e) else BOT)
            if p == "std::time::Duration": return RecV(p, {"nanos": mk_int(0, (1 << 96), why + ".ns")})
            a = self.F.adts.get(p)
            if a and getattr(self, "free_input", False):
                return Engine.default(self, t, why, depth)
            if a and depth < 5:
                if a["kind"] == "Struct":
                    vname = a["variants"][0]["name"]
                    fields = {}
                    for f in a["variants"][0]["fields"]:
                        s = self.summ.get((p, vname, f["name"]), BOT)
                        fields[f["name"]] = inst(s) if not isinstance(s, BotV) else BOT
                    r = RecV(p, fields)
                    if has_bot(r): return BOT
                    for seqf, intf in LEN_INVARIANTS.get((p, vname), []):
                        if isinstance(r.fields.get(seqf), SeqV) and isinstance(r.fields.get(intf), IntV):
                            r.fields[seqf] = SeqV(r.fields[intf], r.fields[seqf].elem)
                    return r
                if a["kind"] == "Enum":
                    vs = {}
                    for v in a["variants"]:
                        fields = {}
                        for f in v["fields"]:
                            s = self.summ.get((p, v["name"], f["name"]), BOT)
                            fields[f["name"]] = inst(s) if not isinstance(s, BotV) else BOT
                        r = RecV(v["name"], fields)
                        if not has_bot(r):
                            for seqf, intf in LEN_INVARIANTS.get((p, v["name"]), []):
                                if isinstance(r.fields.get(seqf), SeqV) and isinstance(r.fields.get(intf), IntV):
                                    r.fields[seqf] = SeqV(r.fields[intf], r.fields[seqf].elem)
                        if not has_bot(r) and ((p, v["name"], "<exists>") in self.summ or not v["fields"] and (p, v["name"], "<exists>") in self.summ):
                            vs[v["name"]] = (r, ())
                    return EnumV(p, vs) if vs else BOT
            if p == "std::option::Option":
                inner = self.default(t["args"][0], why + ".some", depth + 1) if depth < 5 else TOP
                vs = {"None": (None, ())}
                if not has_bot(inner): vs["Some"] = (RecV("Some", {"0": inner}), ())
                return EnumV(p, vs)
            if p in SEQ_ADTS or p.endswith("::Vec") or p.endswith("::Bytes") or p.endswith("::VecDeque"):
                el = t["args"][0] if t["args"] else {"k": "int", "s": False, "w": 8}
                e = self.default(el, why + "[]", depth + 1) if depth < 4 else TOP
                if has_bot(e): return SeqV(const_int(0), None)
                return SeqV(mk_int(0, MAXLEN, why + ".len"), e)
        if k in ("ref", "ptr"):
            inner = self.default(t["to"], why + "*", depth + 1) if depth < 5 else TOP
            if has_bot(inner): return BOT
            c = Cell(why + "*"); self._pending_cells.append((c, inner)); return RefV(c)
        if k == "tuple":
            r = RecV("tuple", {str(i): self.default(x, f"{why}.{i}", depth + 1) for i, x in enumerate(t["of"])})
            return BOT if has_bot(r) else r
        if k == "array":
            e = self.default(t["of"], why + "[]", depth + 1) if depth < 4 else TOP
            return SeqV(const_int(t["len"] if t["len"] is not None else 0), e if not has_bot(e) else None)
        if k == "param": return TOP
        return Engine.default(self, t, why, depth)

    _pending_cells = []

    def flush_cells(self, st):
        for c, v in self._pending_cells: st.mem[c] = v
        self._pending_cells.clear()

    def read_cell(self, st, c):
        self.flush_cells(st)
        return Engine.read_cell(self, st, c)

    # -- writes feed summaries ---------------------------------------------------
    def _write(self, st, v, projs, val, fr, cell):
        if projs and projs[0]["k"] == "field" and projs[0].get("adt") and self.is_ws(projs[0]["adt"]) and len(projs) >= 1:
            pr = projs[0]
            res = Engine._write(self, st, v, projs, val, fr, cell)
            # class invariants hold at API boundaries: field values are published at construction and at entry-point exits,
            # not at every store (a method may pass through transient states, e.g. 65 ranges before trimming to 64)
            if self.publish_on_store and isinstance(res, RecV) and pr["name"] in res.fields:
                adt = pr["adt"]; a = self.F.adts[adt]
                variant = a["variants"][0]["name"] if a["kind"] == "Struct" else res.name
                self.join_summary(st, adt, variant, pr["name"], res.fields[pr["name"]])
            return res
        return Engine._write(self, st, v, projs, val, fr, cell)

    def rvalue(self, st, fr, rv, dest_ty=None):
        v = Engine.rvalue(self, st, fr, rv, dest_ty)
        if rv["k"] == "aggr" and rv.get("ak") == "adt" and self.is_ws(rv["path"]):
            rec = v.variants[rv["vname"]][0] if isinstance(v, EnumV) else v
            for seqf, intf in LEN_INVARIANTS.get((rv["path"], rv["vname"]), []):
                sv, iv = rec.fields.get(seqf), rec.fields.get(intf)
                ok = isinstance(sv, SeqV) and isinstance(iv, IntV) and isinstance(sv.len, IntV) and st.entails(lin_of(st, sv.len) - lin_of(st, iv)) and st.entails(lin_of(st, iv) - lin_of(st, sv.len))
                self.obl.append(dict(fn=fr["fn"].path, kind="invariant", ok=bool(ok), line=0, file="", descr=f"declared invariant len({seqf}) == {intf} at construction of {rv['vname']}", okey=f"len({seqf})=={intf}", ctx=""))
            for fname, fv in rec.fields.items():
                self.join_summary(st, rv["path"], rv["vname"], fname, fv)
            self.summ[(rv["path"], rv["vname"], "<exists>")] = IntV(1, 1)
        return v

    def tmpcell(self, st, v):
        c = Engine.tmpcell(self, st, v)
        if isinstance(v, (RecV, EnumV)): self.elem_cells.append(c)
        return c

    def publish_value(self, st, v, depth=0):
        """join the current value of a workspace object (recursively) into the field summaries"""
        if depth > 6: return
        if isinstance(v, RefV):
            if v.cell in st.mem: self.publish_value(st, st.mem[v.cell], depth + 1)
            return
        if isinstance(v, RecV):
            a = self.F.adts.get(v.name)
            if a and a["kind"] == "Struct":
                vname = a["variants"][0]["name"]
                for f, x in v.fields.items(): self.join_summary(st, v.name, vname, f, x)
            for x in v.fields.values(): self.publish_value(st, x, depth + 1)
        elif isinstance(v, EnumV):
            a = self.F.adts.get(v.name)
            for vn, (rec, fx) in v.variants.items():
                if rec is None: continue
                if a:
                    for f, x in rec.fields.items(): self.join_summary(st, v.name, vn, f, x)
                    self.summ[(v.name, vn, "<exists>")] = IntV(1, 1)
                for x in rec.fields.values(): self.publish_value(st, x, depth + 1)
        elif isinstance(v, SeqV):
            if v.elem is not None: self.publish_value(st, v.elem, depth + 1)
        elif isinstance(v, MapV):
            if not isinstance(v.elem, BotV): self.publish_value(st, v.elem, depth + 1)

    # -- contracts for collections ----------------------------------------------------
    def contract(self, name, st, fr, t, args):
        n = re.sub(r"::<[^:]*?>", "", name)
        def deref(v):
            while isinstance(v, RefV): v = self.read_cell(st, v.cell)
            return v
        def setref(r, v):
            if isinstance(r, RefV): st.mem[r.cell] = v
        a0 = deref(args[0]) if args else None
        dest_ty = self.place_ty(fr, t["dest"])
        unit = RecV("tuple", {})
        opt = lambda v, may_none=True, may_some=True: EnumV("std::option::Option", dict(([("None", (None, ()))] if may_none else []) + ([("Some", (RecV("Some", {"0": v}), ()))] if may_some and not has_bot(v) else [])))
        m = re.search(r"(HashMap|BTreeMap|BTreeSet|HashSet|VecDeque|Vec|Bytes|Option|Result|Entry|VacantEntry|Duration)(<[^>]*>)?::([a-z_0-9]+)$", n.replace("std::collections::hash_map::", "").replace("std::collections::btree_map::", ""))
        base, meth = (m.group(1), m.group(3)) if m else (None, None)
        if base in ("HashMap", "BTreeMap", "BTreeSet", "HashSet"):
            if meth == "new": return [(st, MapV(BOT))]
            if isinstance(a0, MapV):
                e = a0.elem
                if meth in ("get", "get_mut"):
                    if isinstance(e, BotV): return [(st, opt(TOP, True, False))]
                    return [(st, opt(RefV(self.tmpcell(st, inst(close(st, e))))))]
                if meth in ("contains_key", "contains", "is_empty"): return [(st, IntV(0, 1))]
                if meth == "len": return [(st, mk_int(0, MAXLEN, "maplen"))]
                if meth == "insert":
                    newv = args[2] if len(args) > 2 else RecV("tuple", {})
                    setref(args[0], MapV(join_val(st, st, e, newv)))
                    ret = opt(inst(close(st, e)) if not isinstance(e, BotV) else TOP, True, not isinstance(e, BotV))
                    return [(st, ret if base in ("HashMap", "BTreeMap") else IntV(0, 1))]
                if meth in ("remove", "pop_first", "pop_last", "first_key_value"):
                    if base in ("BTreeSet", "HashSet"): return [(st, IntV(0, 1))]
                    if isinstance(e, BotV): return [(st, opt(TOP, True, False))]
                    ev = inst(close(st, e))
                    if meth == "remove": return [(st, opt(ev))]
                    return [(st, opt(RecV("tuple", {"0": self.default({"k": "int", "s": False, "w": 64}, "key"), "1": ev})))]
                if meth == "entry":
                    return [(st, RecV("entry", {"map": args[0], "key": args[1]}))]
                if meth in ("values_mut", "values", "iter", "iter_mut", "range", "into_iter"):
                    return [(st, RecV("mapiter", {"elem": e, "kv": IntV(0, 0) if meth in ("values", "values_mut") else IntV(1, 1)}))]
                if meth == "retain": return [(st, unit)]
                if meth == "clear": setref(args[0], MapV(BOT)); return [(st, unit)]
        if meth == "or_insert_with" and isinstance(a0, RecV) and a0.name == "entry":
            mp = deref(a0.fields["map"])
            # call the closure (workspace body) to obtain the inserted value
            clo = args[1]
            newv = TOP
            if isinstance(clo, RecV) and clo.name.startswith("closure:"):
                cf = self.F.fns.get(clo.name[len("closure:"):])
                if cf is not None:
                    self.depth += 1
                    rs = self.run(cf, [clo], st.copy(), fr["stack"])
                    self.depth -= 1
                    if rs:
                        newv = rs[0][1]
                        for s2, v2 in rs[1:]: newv = join_val(st, s2, newv, v2)
            e = mp.elem if isinstance(mp, MapV) else BOT
            je = join_val(st, st, e, newv)
            setref(a0.fields["map"], MapV(je))
            return [(st, RefV(self.tmpcell(st, inst(close(st, je)))))]
        if base == "Entry" or (isinstance(a0, RecV) and a0.name == "entry"):
            pass
        if base == "VacantEntry" and meth == "insert":
            return [(st, RefV(self.tmpcell(st, args[1])))]
        # --- Vec / VecDeque / Bytes
        if base in ("Vec", "VecDeque", "Bytes") or n.endswith("vec::from_elem") or n.endswith("::to_vec"):
            # allocation sized by a value: the element count must be bounded by a program constant (ALLOC_MAX elements); a count taken from the
            # wire without a bound is a `capacity overflow` panic or an allocation failure that aborts the process (reported only when input-dependent)
            if meth == "with_capacity" and args and isinstance(args[0], IntV):
                self.oblige(st, fr, "alloc", [Lin(ALLOC_MAX) - lin_of(st, args[0])], t, f"with_capacity({args[0]!r}): element count bounded by {ALLOC_MAX}")
            if n.endswith("vec::from_elem") and len(args) > 1 and isinstance(args[1], IntV):
                self.oblige(st, fr, "alloc", [Lin(ALLOC_MAX) - lin_of(st, args[1])], t, f"vec![_; {args[1]!r}]: element count bounded by {ALLOC_MAX}")
            if meth in ("new", "with_capacity"): return [(st, SeqV(const_int(0), None))]
            if n.endswith("vec::from_elem"): return [(st, SeqV(args[1] if isinstance(args[1], IntV) else mk_int(0, MAXLEN), args[0]))]
            if isinstance(a0, SeqV):
                L = lin_of(st, a0.len); lo, hi = int_of(st, a0.len)
                if meth in ("push", "push_back", "push_front"):
                    setref(args[0], SeqV(IntV(lo + 1, hi + 1, L.addc(1)), join_val(st, st, a0.elem, args[1]) if a0.elem is not None else args[1])); return [(st, unit)]
                if meth in ("pop", "pop_front", "pop_back"):
                    el = a0.elem if a0.elem is not None else BOT
                    setref(args[0], SeqV(IntV(max(lo - 1, 0), max(hi - 1, 0)), a0.elem))  # len-1 on Some edge only; keep interval
                    return [(st, opt(el, lo == 0 or True, hi > 0))]
                if meth == "insert":
                    if isinstance(args[1], IntV): self.oblige(st, fr, "vec-insert", [L - lin_of(st, args[1])], t, f"Vec::insert index {args[1]!r} <= len {a0.len!r}")
                    setref(args[0], SeqV(IntV(lo + 1, hi + 1, L.addc(1)), join_val(st, st, a0.elem, args[2]) if a0.elem is not None else args[2])); return [(st, unit)]
                if meth in ("remove", "swap_remove"):
                    if isinstance(args[1], IntV): self.oblige(st, fr, "vec-remove", [L - lin_of(st, args[1]) - Lin(1)], t, f"Vec::remove index {args[1]!r} < len {a0.len!r}")
                    setref(args[0], SeqV(IntV(max(lo - 1, 0), max(hi - 1, 0), L.addc(-1)), a0.elem)); return [(st, a0.elem if a0.elem is not None else TOP)]
                if meth in ("last", "first", "last_mut", "first_mut", "get", "get_mut"):
                    some_only = meth in ("last", "first", "last_mut", "first_mut") and st.entails(L.addc(-1))
                    el = a0.elem if a0.elem is not None else BOT
                    return [(st, opt(RefV(self.tmpcell(st, el)) if not isinstance(el, BotV) else BOT, not some_only, True))]
                if meth == "clear": setref(args[0], SeqV(const_int(0), a0.elem)); return [(st, unit)]
                if meth == "resize":
                    if isinstance(args[1], IntV): self.oblige(st, fr, "alloc", [Lin(ALLOC_MAX) - lin_of(st, args[1])], t, f"resize({args[1]!r}): element count bounded by {ALLOC_MAX}")
                    setref(args[0], SeqV(args[1], a0.elem)); return [(st, unit)]
                if meth in ("reserve", "reserve_exact"):
                    if len(args) > 1 and isinstance(args[1], IntV): self.oblige(st, fr, "alloc", [Lin(ALLOC_MAX) - lin_of(st, args[1])], t, f"reserve({args[1]!r}): element count bounded by {ALLOC_MAX}")
                    return [(st, unit)]
                if meth == "append":
                    b = deref(args[1])
                    if isinstance(b, SeqV):
                        setref(args[0], SeqV(IntV(lo, hi + int_of(st, b.len)[1], L + lin_of(st, b.len)), join_val(st, st, a0.elem, b.elem) if a0.elem is not None and b.elem is not None else (a0.elem or b.elem)))
                        setref(args[1], SeqV(const_int(0), b.elem))
                    return [(st, unit)]
                if meth == "slice" and base == "Bytes":
                    r = args[1]
                    if isinstance(r, RecV) and "start" in r.fields and "end" in r.fields:
                        s, e = lin_of(st, r.fields["start"]), lin_of(st, r.fields["end"])
                        self.oblige(st, fr, "bytes-slice", [e - s, L - e], t, f"Bytes::slice {r.fields['start']!r}..{r.fields['end']!r} within len {a0.len!r}")
                        return [(st, SeqV(IntV(0, MAXLEN, e - s), a0.elem))]
                if meth in ("clone", "to_vec"): return [(st, SeqV(a0.len, a0.elem))]
        if n.endswith("mem::replace") and len(args) == 2:
            old = a0
            setref(args[0], args[1])
            if old is not None: return [(st, old)]
        if n.endswith("mem::take"):
            v = a0
            if isinstance(v, SeqV): setref(args[0], SeqV(const_int(0), v.elem)); return [(st, v)]
            if isinstance(v, IntV): setref(args[0], const_int(0)); return [(st, v)]
        # --- total integer helpers (refactorings replace guarded `a - b` by these)
        if re.search(r"(core::num|impl (u|i)(\d+|size)>)::(checked_sub|checked_add)$", n) and len(args) == 2 and isinstance(args[0], IntV) and isinstance(args[1], IntV):
            a, b = lin_of(st, args[0]), lin_of(st, args[1])
            (alo, ahi), (blo, bhi) = int_of(st, args[0]), int_of(st, args[1])
            outs = []
            if n.endswith("checked_sub"):
                s_some = st.copy(); s_some.assume(a - b)          # Some(v): a >= b, v = a - b
                outs.append((s_some, EnumV("std::option::Option", {"Some": (RecV("Some", {"0": IntV(max(0, alo - bhi), max(0, ahi - blo), a - b)}), ())})))
                if not st.entails(a - b): 
                    s_none = st.copy(); s_none.assume(b - a - Lin(1))
                    outs.append((s_none, EnumV("std::option::Option", {"None": (None, ())})))
            else:
                hi_t = U64
                s_some = st.copy(); s_some.assume(Lin(hi_t) - a - b)
                outs.append((s_some, EnumV("std::option::Option", {"Some": (RecV("Some", {"0": IntV(alo + blo, min(hi_t, ahi + bhi), a + b)}), ())})))
                if ahi + bhi > hi_t: outs.append((st.copy(), EnumV("std::option::Option", {"None": (None, ())})))
            return outs
        if re.search(r"::(saturating_sub)$", n) and len(args) == 2 and isinstance(args[0], IntV) and isinstance(args[1], IntV):
            (alo, ahi), (blo, bhi) = int_of(st, args[0]), int_of(st, args[1])
            return [(st, mk_int(max(0, alo - bhi), max(0, ahi - blo), "saturating_sub"))]
        if re.search(r"::(saturating_add)$", n) and len(args) == 2 and isinstance(args[0], IntV) and isinstance(args[1], IntV):
            (alo, ahi), (blo, bhi) = int_of(st, args[0]), int_of(st, args[1])
            return [(st, mk_int(min(U64, alo + blo), min(U64, ahi + bhi), "saturating_add"))]
        if re.search(r"(Ord>::min|::min)$", n) and len(args) == 2 and isinstance(deref(args[0]), IntV) and isinstance(deref(args[1]), IntV):
            x, y = deref(args[0]), deref(args[1])
            (alo, ahi), (blo, bhi) = int_of(st, x), int_of(st, y)
            return [(st, mk_int(min(alo, blo), min(ahi, bhi), "min"))]
        if re.search(r"(Ord>::max|::max)$", n) and len(args) == 2 and isinstance(deref(args[0]), IntV) and isinstance(deref(args[1]), IntV):
            x, y = deref(args[0]), deref(args[1])
            (alo, ahi), (blo, bhi) = int_of(st, x), int_of(st, y)
            return [(st, mk_int(max(alo, blo), max(ahi, bhi), "max"))]
        if re.search(r"::(leading_zeros|trailing_zeros|count_ones|count_zeros)$", n): return [(st, mk_int(0, 64, "bitcount"))]
        if re.search(r"RangeInclusive(<.*>)?::new$", n) and len(args) == 2: return [(st, RecV("std::ops::RangeInclusive", {"start": args[0], "end": args[1]}))]
        if re.search(r"Range(Inclusive)?<.*>::contains$|RangeInclusive::contains$|Range::contains$|<Idx>::contains$", n) and len(args) == 2:
            rg, x = deref(args[0]), deref(args[1])
            if isinstance(rg, RecV) and isinstance(x, IntV) and "start" in rg.fields and "end" in rg.fields and isinstance(rg.fields["start"], IntV) and isinstance(rg.fields["end"], IntV):
                lo_, hi_, xv = lin_of(st, rg.fields["start"]), lin_of(st, rg.fields["end"]), lin_of(st, x)
                incl = "Inclusive" in n or "Inclusive" in str(rg.name)
                upper = (hi_ - xv) if incl else (hi_ - xv - Lin(1))
                return [(st, self.boolv(st, [xv - lo_, upper], []))]
        if n.endswith("div_ceil") and isinstance(args[0], IntV) and isinstance(args[1], IntV):
            alo, ahi = int_of(st, args[0]); blo, bhi = int_of(st, args[1])
            self.oblige(st, fr, "div_ceil", [lin_of(st, args[1]) - Lin(1)], t, f"div_ceil divisor {args[1]!r} != 0")
            if blo == bhi and blo > 0: return [(st, mk_int(-(-alo // blo), -(-ahi // blo), "div_ceil"))]
        # --- Option helpers
        if base == "Option" or (isinstance(deref(args[0]) if args else None, EnumV) and deref(args[0]).name == "std::option::Option" and meth in ("is_some", "is_none", "unwrap_or", "take", "as_ref", "as_mut")):
            v = deref(args[0])
            if isinstance(v, EnumV):
                if meth in ("is_some", "is_none"):
                    some, none = "Some" in v.variants, "None" in v.variants
                    val = IntV(1 if (some and not none) else 0, 1 if some else 0) if meth == "is_some" else IntV(1 if (none and not some) else 0, 1 if none else 0)
                    val.discr_bool = (args[0], meth)
                    return [(st, val)]
                if meth == "unwrap_or":
                    outs = [args[1]] if "None" in v.variants else []
                    if "Some" in v.variants: outs.append(v.variants["Some"][0].fields["0"])
                    r = outs[0]
                    for o in outs[1:]: r = join_val(st, st, r, o)
                    return [(st, r)]
                if meth == "take":
                    setref(args[0], EnumV(v.name, {"None": (None, ())})); return [(st, v)]
                if meth in ("as_ref", "as_mut"): return [(st, v)]
        # --- Duration: opaque non-negative nanos
        if "Duration" in n:
            d0 = deref(args[0]) if args else None
            g = lambda v: lin_of(st, deref(v).fields["nanos"]) if isinstance(deref(v), RecV) and "nanos" in deref(v).fields else None
            if re.search(r"as std::ops::Sub>::sub$", n) and g(args[0]) is not None and g(args[1]) is not None:
                self.oblige(st, fr, "duration-sub", [g(args[0]) - g(args[1])], t, "Duration subtraction lhs >= rhs")
                return [(st, RecV("std::time::Duration", {"nanos": IntV(0, 1 << 96, g(args[0]) - g(args[1]))}))]
            if re.search(r"as std::ops::(Add|AddAssign)>::(add|add_assign)$", n) and g(args[0]) is not None and g(args[1]) is not None:
                r = RecV("std::time::Duration", {"nanos": IntV(0, 1 << 97, g(args[0]) + g(args[1]))})
                if n.endswith("add_assign"): setref(args[0], r); return [(st, unit)]
                return [(st, r)]
            if re.search(r"PartialOrd>::(lt|le|gt|ge)$", n) and g(args[0]) is not None and g(args[1]) is not None:
                op = {"lt": "Lt", "le": "Le", "gt": "Gt", "ge": "Ge"}[n.rsplit("::", 1)[1]]
                return [(st, self.binop(st, fr, op, deref(args[0]).fields["nanos"], deref(args[1]).fields["nanos"]))]
            if re.search(r"Duration::(from_secs|from_millis|from_micros|from_nanos|new)$", n): return [(st, RecV("std::time::Duration", {"nanos": mk_int(0, 1 << 96, "dur")}))]
            if re.search(r"Duration::(as_secs|as_millis|as_micros|as_nanos|subsec_nanos)$", n): return [(st, self.default(dest_ty, "dur"))]
        # --- map iteration
        if (n.endswith("as std::iter::Iterator>::next") or n.endswith("Iterator>::next") or re.search(r"impl std::iter::Iterator for [^>]*>+::next$", n)) and isinstance(a0, RecV) and a0.name == "mapiter":
            e = a0.fields["elem"]
            if isinstance(e, BotV): return [(st, opt(TOP, True, False))]
            ev = RefV(self.tmpcell(st, inst(close(st, e))))
            val = RecV("tuple", {"0": RefV(self.tmpcell(st, mk_int(0, U64, "key"))), "1": ev}) if int_of(st, a0.fields["kv"])[0] == 1 else ev
            return [(st, opt(val))]
        if n.endswith("as std::iter::IntoIterator>::into_iter") and isinstance(a0, (MapV, RecV)):
            if isinstance(a0, MapV): return [(st, RecV("mapiter", {"elem": a0.elem, "kv": IntV(1, 1)}))]
            return [(st, a0)]
        if n.endswith("as std::iter::IntoIterator>::into_iter") and isinstance(a0, SeqV): return [(st, RecV("seqiter", {"seq": a0}))]
        # compare through references: PartialEq/PartialOrd on ints
        mm = re.search(r"as std::cmp::Partial(Eq|Ord)(<[^>]*>)?>::(eq|ne|lt|le|gt|ge)$", n)
        if mm and len(args) == 2 and isinstance(deref(args[0]), IntV) and isinstance(deref(args[1]), IntV):
            return [(st, self.binop(st, fr, {"eq": "Eq", "ne": "Ne", "lt": "Lt", "le": "Le", "gt": "Gt", "ge": "Ge"}[mm.group(3)], deref(args[0]), deref(args[1])))]
        if re.search(r"Range(<[^>]*>)?::contains$", n) and isinstance(a0, RecV):
            return [(st, IntV(0, 1))]
        return Engine.contract(self, name, st, fr, t, args)

    # switch on is_some()/is_none() results refines the option
    def do_switch(self, st, fr, t):
        return Engine.do_switch(self, st, fr, t)


def harvest_thresholds(F):
    """widening thresholds: type maxima, a few small values, and the structural limits the program compares against (constants >= 60, +/- 1)"""
    vals = {0, 1, -1, 2, 8, 16, 32, 255, 65535, (1 << 32) - 1, (1 << 62) - 1, (1 << 63) - 1, (1 << 64) - 1}
    CMP = {"Eq", "Ne", "Lt", "Le", "Gt", "Ge"}
    def walk(o):
        if isinstance(o, dict):
            if o.get("k") == "bin" and o.get("op") in CMP:
                for side in ("a", "b"):
                    x = o.get(side, {})
                    if x.get("k") == "const" and isinstance(x.get("val"), int) and x["val"] >= 60: vals.update({x["val"] - 1, x["val"], x["val"] + 1})
            for v in o.values(): walk(v)
        elif isinstance(o, list):
            for v in o: walk(v)
    for f in F.fns.values(): walk(f.blocks)
    for c in F.consts.values():
        if isinstance(c.get("val"), int) and c["val"] >= 60: vals.update({c["val"] - 1, c["val"], c["val"] + 1})
    A.THRESH[:] = sorted(v for v in vals if -(1 << 64) <= v <= (1 << 64))

def fixpoint(entries, facts=None, max_rounds=12, verbose=False):
    F = facts or Facts()
    harvest_thresholds(F)
    eng = Engine2(F, verbose=verbose)
    fns = [F.fn(e) for e in entries]
    for rnd in range(max_rounds):
        eng.round = rnd; eng.summ_changed = False; eng.obl = []; eng.unknown_callees.clear()
        ran = 0
        for fn in fns:
            st = State(); args = []; skip = False
            for i in range(1, fn.argc + 1):
                l = fn.locals[i]
                if l.get("name") == "self":
                    v = eng.default(l["ty"], "self")
                else:
                    # API inputs are arbitrary values of their type (hostile bytes, caller-chosen configuration)
                    eng.free_input = True
                    v = eng.default(l["ty"], l.get("name") or f"arg{i}")
                    eng.free_input = False
                eng.flush_cells(st)
                if has_bot(v): skip = True; break
                args.append(v)
            if skip: continue
            ran += 1
            eng.elem_cells = []
            outs = eng.run(fn, args, st)
            for st2, retv in (outs if not eng.publish_on_store else []):
                for a_ in args: eng.publish_value(st2, a_)
                eng.publish_value(st2, retv)
                for c in eng.elem_cells:
                    if c in st2.mem: eng.publish_value(st2, st2.mem[c])
        if verbose: print(f"round {rnd}: ran {ran}/{len(fns)} entries, summaries {len(eng.summ)}, changed {eng.summ_changed}")
        if not eng.summ_changed: break
    return eng


if __name__ == "__main__":
    import time
    t0 = time.time()
    entries = ["RenetClient::new", "RenetClient::new_from_server", "RenetClient::process_packet", "RenetClient::update", "RenetClient::get_packets_to_send",
               "RenetClient::send_message", "RenetClient::receive_message", "RenetClient::disconnect", "RenetClient::set_connected", "RenetClient::set_connecting",
               "RenetClient::can_send_message", "RenetClient::channel_available_memory", "channel::DefaultChannel::config",
               "<remote_connection::ConnectionConfig as std::default::Default>::default"]
    eng = fixpoint(entries, verbose=True)
    report(eng, f"renet client API fixpoint ({time.time() - t0:.1f}s)")
    for k in sorted(eng.summ, key=str):
        if k[2] != "<exists>" and ("SliceConstructor" in k[0] or "pending_acks" in k[2] or "memory_usage" in k[2] or k[0].endswith("::Slice")):
            print("   summary", short(k[0]), k[1], k[2], "=", eng.summ[k])
