# ./check Cnn [--tier quick|thorough] [--replay PATH]: extract facts for the current /repo tree (cached by content hash), run the
# property's rule instances, match known findings, write evidence/<Cnn>.json, print VIOLATION / KNOWN-FINDING lines.
import sys, os, json, time, hashlib, subprocess, importlib, glob, shutil

ROOT = os.path.dirname(os.path.dirname(os.path.abspath(__file__)))
REPO = os.environ.get("VERIF_REPO", "/repo")
CRATES = ["renet", "renetcode", "renet_netcode"]
DRIVER = os.path.join(ROOT, "driver", "target", "release", "verif-mir-driver")

def sha(paths):
    h = hashlib.sha256()
    for p in sorted(paths):
        h.update(p.encode()); h.update(b"\0")
        with open(p, "rb") as f: h.update(f.read())
    return h.hexdigest()

def source_files():
    out = [os.path.join(REPO, "Cargo.toml"), os.path.join(REPO, "Cargo.lock")]
    for c in CRATES:
        for d, dirs, files in os.walk(os.path.join(REPO, c)):
            dirs[:] = [x for x in dirs if x not in ("target", ".git")]
            out += [os.path.join(d, f) for f in files]
    return [p for p in out if os.path.isfile(p)]

def analysis_files():
    return glob.glob(os.path.join(ROOT, "sa", "*.py")) + glob.glob(os.path.join(ROOT, "rules", "*.py")) + glob.glob(os.path.join(ROOT, "tables", "*"))

def ensure_facts():
    key = sha(source_files() + [DRIVER])[:24]
    d = os.path.join(ROOT, ".cache", "facts", key)
    if all(os.path.exists(os.path.join(d, c + ".json")) for c in CRATES): return d, key, False
    os.makedirs(d, exist_ok=True)
    target = os.path.join(ROOT, ".cache", "target")
    for c in CRATES:
        for fp in glob.glob(os.path.join(target, "debug", ".fingerprint", c.replace("-", "_") + "-*")) + glob.glob(os.path.join(target, "debug", ".fingerprint", c + "-*")): shutil.rmtree(fp, ignore_errors=True)
    sysroot = subprocess.check_output(["rustc", "+nightly", "--print", "sysroot"], text=True).strip()
    nonce = f"{os.getpid()}-{int(time.time())}"
    env = dict(os.environ, LD_LIBRARY_PATH=os.path.join(sysroot, "lib"), RUSTFLAGS="-Zmir-opt-level=0 -Awarnings", RUSTC_WORKSPACE_WRAPPER=DRIVER,
               CARGO_TARGET_DIR=target, VERIF_FACTS_DIR=d, VERIF_NONCE=nonce, CARGO_NET_OFFLINE="true")
    p = subprocess.run(["cargo", "+nightly", "check", "--offline", "--lib"] + sum([["-p", c] for c in CRATES], []), cwd=REPO, env=env, capture_output=True, text=True)
    ok = p.returncode == 0 and all(os.path.exists(os.path.join(d, c + ".json")) for c in CRATES)
    if ok:
        for c in CRATES:
            if json.load(open(os.path.join(d, c + ".json")))["nonce"] != nonce: ok = False
    if not ok:
        shutil.rmtree(d, ignore_errors=True)
        sys.stderr.write(p.stderr[-3000:]); print("check: /repo does not build or facts were not produced (no verdict)"); sys.exit(2)
    return d, key, True

def load_known(cid):
    known, fixed = {}, []
    p = os.path.join(ROOT, "known_findings.jsonl")
    if os.path.exists(p):
        for l in open(p):
            l = l.strip()
            if not l or l.startswith("#"): continue
            if l.startswith("fixed:"): fixed.append(l); continue
            j = json.loads(l)
            if j["property"] == cid: known[j["key"]] = j
    return known, fixed

def main():
    args = sys.argv[1:]
    cid = args[0]
    tier = os.environ.get("VERIF_TIER", "quick")
    if "--tier" in args: tier = args[args.index("--tier") + 1]
    seed = int(os.environ.get("VERIF_SEED", "0") or 0)
    t0 = time.time()
    sys.path.insert(0, ROOT)
    facts_dir, key, fresh = ensure_facts()
    os.environ["FACTS"] = facts_dir
    os.environ["VERIF_ANALYSIS_KEY"] = sha(analysis_files())[:16]
    from sa.facts import Facts
    from sa.rules import Tree
    F = Facts(facts_dir); t = Tree(F)
    mod = importlib.import_module(f"rules.{cid}")
    results = [r.finish() for r in mod.rules(t)]
    known, fixed = load_known(cid)
    viol, hits = [], []
    for r in results:
        for v in r.violations:
            (hits if v.key in known else viol).append(v)
    os.makedirs(os.path.join(ROOT, "evidence", "replay"), exist_ok=True)
    for v in hits: print(f"KNOWN-FINDING: property={cid} {known[v.key]['what']}")
    for i, v in enumerate(viol):
        rp = os.path.join(ROOT, "evidence", "replay", f"{cid}-{i}.json")
        json.dump(dict(property=cid, rule=v.rule, key=v.key, location=v.site.loc() if v.site else None, message=v.msg, facts=facts_dir), open(rp, "w"), indent=1)
        print(f"  {v.rule} {v.site.loc() if v.site else ''}: {v.msg}")
        print(f"VIOLATION property={cid} replay={rp}")
    sites = sum(r.sites for r in results)
    obl = {k: sum(getattr(r, "counts", {}).get(k, 0) for r in results) for k in ("obligations", "discharged", "vetted")}
    ev = dict(property_id=cid, tier=tier, seed=seed, level="other",
              coverage=dict(explanation=f"static analysis of the MIR of renet, renetcode, renet_netcode (lib targets, dev profile) of the current /repo tree (facts {key}, "
                                        f"{len(F.fns)} function bodies): {len(results)} rule instances over {sites} anchor sites; every instance quantifies over all CFG paths of the functions it anchors in. "
                                        + " | ".join(f"{r.id}: {r.descr} [{r.sites} sites, floor {r.floor}, {'ok' if not r.violations else str(len(r.violations)) + ' violation(s)'}]" for r in results),
                            evaluations=sites, distinct_nontrivial=len(results), rule="one evaluation = one anchor site (store, call, aggregate, branch, obligation) checked by a rule instance; distinct_nontrivial = rule instances with at least their floor of sites",
                            samples=[s_ for r in results for s_ in r.samples][:24], exhaustive=True, functions_analysed=len(F.fns), rule_instances=[r.id for r in results],
                            known_findings_hit=[v.key for v in hits], **({k: v for k, v in obl.items() if v} if obl["obligations"] else {})),
              assumptions=["64-bit target; dev-profile MIR at mir-opt-level 0 is the program", "dependency crates behave as in tables/contracts (octets, bytes, std, chacha20poly1305)",
                           "a passing check means the listed necessary conditions hold on every path, not that the behavioural property holds (see DESIGN.md, 'Not decided')"],
              wall_s=round(time.time() - t0, 2), violations=len(viol))
    json.dump(ev, open(os.path.join(ROOT, "evidence", f"{cid}.json"), "w"), indent=1)
    print(f"{cid}: {len(results)} rule instances, {sites} sites, {len(hits)} known finding(s), {len(viol)} violation(s), facts {'extracted' if fresh else 'cached'} {key}, {time.time()-t0:.1f}s")
    sys.exit(1 if viol else 0)

if __name__ == "__main__":
    main()
