# ./check Cnn [--tier quick|thorough] [--replay PATH]
#   extract MIR facts for the current /repo working tree (cached by content hash, extraction serialised by a file lock),
#   run the property's rule instances, match known findings, write evidence/<Cnn>.json, print VIOLATION / KNOWN-FINDING lines.
#   exit 0: every rule instance held (or only listed known findings were hit); exit 1: at least one VIOLATION line;
#   exit 2: /repo does not build (no verdict, outside the "still compiles" contract).
import sys, os, json, time, hashlib, subprocess, importlib, glob, shutil, fcntl, traceback, contextlib

ROOT = os.path.dirname(os.path.dirname(os.path.abspath(__file__)))
REPO = os.environ.get("VERIF_REPO", "/repo")
CRATES = ["renet", "renetcode", "renet_netcode"]
DRIVER = os.path.join(ROOT, "driver", "target", "release", "verif-mir-driver")
CACHE = os.environ.get("VERIF_CACHE", os.path.join(ROOT, ".cache"))
EVID = os.environ.get("VERIF_EVIDENCE_DIR", os.path.join(ROOT, "evidence"))  # scratch runs (seeded variants) must not overwrite the committed evidence


def sha(paths):
    h = hashlib.sha256()
    for p in sorted(paths):
        h.update(os.path.relpath(p, "/").encode()); h.update(b"\0")
        with open(p, "rb") as f: h.update(f.read())
    return h.hexdigest()


def source_files(repo=None):
    repo = repo or REPO
    out = [os.path.join(repo, "Cargo.toml"), os.path.join(repo, "Cargo.lock")]
    for c in CRATES:
        for d, dirs, files in os.walk(os.path.join(repo, c)):
            dirs[:] = [x for x in dirs if x not in ("target", ".git")]
            out += [os.path.join(d, f) for f in files]
    return [p for p in out if os.path.isfile(p)]


def analysis_files():
    return glob.glob(os.path.join(ROOT, "sa", "*.py")) + glob.glob(os.path.join(ROOT, "rules", "*.py")) + glob.glob(os.path.join(ROOT, "tables", "*"))


@contextlib.contextmanager
def locked(name):
    os.makedirs(CACHE, exist_ok=True)
    with open(os.path.join(CACHE, name + ".lock"), "w") as lf:
        fcntl.flock(lf, fcntl.LOCK_EX)
        try: yield
        finally: fcntl.flock(lf, fcntl.LOCK_UN)


def build_driver():
    """setup normally does this; a check run on a fresh restore without setup still works"""
    if os.path.exists(DRIVER): return
    with locked("driver"):
        if os.path.exists(DRIVER): return
        env = dict(os.environ, CARGO_NET_OFFLINE="true")
        p = subprocess.run(["cargo", "build", "--offline", "--release"], cwd=os.path.join(ROOT, "driver"), env=env, capture_output=True, text=True)
        if p.returncode != 0 or not os.path.exists(DRIVER):
            sys.stderr.write(p.stderr[-3000:]); print("check: the fact extractor does not build (no verdict)"); sys.exit(2)


def extract(repo, out_dir, target):
    """run the driver over the three library crates of `repo`; returns (ok, stderr)"""
    os.makedirs(out_dir, exist_ok=True)
    for c in CRATES:
        for fp in glob.glob(os.path.join(target, "debug", ".fingerprint", c + "-*")): shutil.rmtree(fp, ignore_errors=True)
    sysroot = subprocess.check_output(["rustc", "+nightly", "--print", "sysroot"], text=True).strip()
    nonce = f"{os.getpid()}-{time.time_ns()}"
    env = dict(os.environ, LD_LIBRARY_PATH=os.path.join(sysroot, "lib"), RUSTFLAGS="-Zmir-opt-level=0 -Awarnings", RUSTC_WORKSPACE_WRAPPER=DRIVER,
               CARGO_TARGET_DIR=target, VERIF_FACTS_DIR=out_dir, VERIF_NONCE=nonce, CARGO_NET_OFFLINE="true")
    env.pop("RUSTC_WRAPPER", None)
    p = subprocess.run(["cargo", "+nightly", "check", "--offline", "--lib"] + sum([["-p", c] for c in CRATES], []), cwd=repo, env=env, capture_output=True, text=True)
    ok = p.returncode == 0 and all(os.path.exists(os.path.join(out_dir, c + ".json")) for c in CRATES)
    if ok:
        for c in CRATES:
            with open(os.path.join(out_dir, c + ".json")) as f:
                head = f.read(400)
            if nonce not in head: ok = False
    return ok, p.stderr


def ensure_facts():
    build_driver()
    key = sha(source_files() + [DRIVER])[:24]
    d = os.path.join(CACHE, "facts", key)
    done = lambda: all(os.path.exists(os.path.join(d, c + ".json")) for c in CRATES)
    if done(): return d, key, False
    with locked("extract"):
        if done(): return d, key, False
        tmp = d + f".tmp{os.getpid()}"
        shutil.rmtree(tmp, ignore_errors=True)
        ok, err = extract(REPO, tmp, os.path.join(CACHE, "target"))
        if not ok:
            shutil.rmtree(tmp, ignore_errors=True)
            sys.stderr.write(err[-4000:]); print("check: /repo does not build or facts were not produced (no verdict)"); sys.exit(2)
        shutil.rmtree(d, ignore_errors=True)
        os.rename(tmp, d)
        # keep the cache small: drop all but the 6 most recent fact directories
        # (never a directory that was used in the last half hour: the thorough tier replays variants in parallel, each with its own facts
        #  directory, and a long fixpoint must still find its directory when it is done)
        olds = sorted(glob.glob(os.path.join(CACHE, "facts", "*")), key=os.path.getmtime)[:-6]
        for o in olds:
            try:
                if time.time() - os.path.getmtime(o) > 1800: shutil.rmtree(o, ignore_errors=True)
            except OSError: pass
    return d, key, True


def load_known(cid):
    known, fixed = {}, []
    p = os.path.join(ROOT, "known_findings.jsonl")
    if os.path.exists(p):
        for l in open(p):
            l = l.strip()
            if not l or l.startswith("#"): continue
            if l.startswith("fixed:"):
                if f"property={cid} " in l: fixed.append(l)
                continue
            j = json.loads(l)
            if j["property"] == cid: known[j["key"]] = j
    return known, fixed


def run_rules(cid, facts_dir, tier):
    from sa.facts import Facts
    from sa.rules import Tree, RuleResult
    F = Facts(facts_dir); t = Tree(F)
    t.tier = tier
    mod = importlib.import_module(f"rules.{cid}")
    try:
        results = [r.finish() for r in mod.rules(t)]
    except SystemExit: raise
    except Exception as e:  # fail closed: a rule that cannot find the shape it is anchored in reports, it does not pass
        tb = traceback.format_exc()
        sys.stderr.write(tb)
        r = RuleResult(f"{cid}.analysis", "the property's rule file could be evaluated on this tree", floor=0)
        last = [l for l in tb.strip().splitlines() if l.strip().startswith("File ")][-1].strip() if "File " in tb else ""
        r.bad("analysis-error", None, f"anchor-missing: a rule of {cid} could not be evaluated ({type(e).__name__}: {str(e)[:160]}; {last[:160]}) - the code it is anchored in changed shape")
        results = [r.finish()]
    return F, results


def main():
    args = sys.argv[1:]
    cid = args[0]
    tier = os.environ.get("VERIF_TIER") or "quick"
    if "--tier" in args: tier = args[args.index("--tier") + 1]
    if tier not in ("quick", "thorough"): tier = "quick"
    replay = args[args.index("--replay") + 1] if "--replay" in args else None
    try: seed = int(os.environ.get("VERIF_SEED", "0") or 0)
    except ValueError: seed = 0
    t0 = time.time()
    sys.path.insert(0, ROOT)
    if os.environ.get("VERIF_FACTS_DIR_OVERRIDE"):   # development aid (tools/seedmatrix.py): analyse pre-extracted facts of a scratch variant
        facts_dir, key, fresh = os.environ["VERIF_FACTS_DIR_OVERRIDE"], "override:" + os.path.basename(os.environ["VERIF_FACTS_DIR_OVERRIDE"]), False
    else:
        facts_dir, key, fresh = ensure_facts()
    os.environ["FACTS"] = facts_dir
    os.environ["VERIF_TIER_EFFECTIVE"] = tier
    F, results = run_rules(cid, facts_dir, tier)
    extra = {}
    if tier == "thorough":
        from sa import thorough
        more, extra = thorough.run(cid, F, facts_dir, key)
        results += [r.finish() for r in more]
    known, fixed = load_known(cid)
    viol, hits = [], []
    for r in results:
        for v in r.violations:
            (hits if v.key in known else viol).append(v)
    if replay:
        want = json.load(open(replay))
        viol = [v for v in viol if v.key == want.get("key")]
        print(f"replay of {want.get('rule')} [{want.get('key')}]: {'still violated' if viol else 'no longer violated on the current tree'}")
    os.makedirs(os.path.join(EVID, "replay"), exist_ok=True)
    for v in hits: print(f"KNOWN-FINDING: property={cid} {known[v.key]['what']}")
    for r in results:
        st = "ok " if not r.violations else "BAD"
        print(f"  [{st}] {r.id:10s} sites={r.sites:<4d} floor={r.floor:<4d} {r.descr}")
    for i, v in enumerate(viol):
        rp = os.path.join(ROOT, "evidence", "replay", f"{cid}-{i}.json")
        json.dump(dict(property=cid, rule=v.rule, key=v.key, location=v.site.loc() if v.site else None, message=v.msg, facts=facts_dir, facts_key=key), open(rp, "w"), indent=1)
        print(f"  -> {v.rule} {v.site.loc() if v.site else ''}: {v.msg}  [key {v.key}]")
        print(f"VIOLATION property={cid} replay={rp}")
    sites = sum(r.sites for r in results)
    obl = {k: sum(getattr(r, "counts", {}).get(k, 0) for r in results) for k in ("obligations", "discharged", "vetted")}
    cov = dict(explanation=f"static analysis of the MIR of renet, renetcode, renet_netcode (lib targets, dev profile, mir-opt-level 0) of the current /repo working tree "
                           f"(facts {key}, {len(F.fns)} function bodies): {len(results)} rule instances over {sites} anchor sites; every instance quantifies over all CFG paths "
                           f"of the functions it anchors in; nothing is executed. "
                           + " | ".join(f"{r.id}: {r.descr} [{r.sites} sites, floor {r.floor}, {'ok' if not r.violations else str(len(r.violations)) + ' violation(s)'}]" for r in results),
               evaluations=sites, distinct_nontrivial=sum(1 for r in results if r.sites >= max(1, r.floor)),
               rule="one evaluation = one anchor site (store, call, aggregate, branch, obligation) checked by a rule instance; distinct_nontrivial = rule instances that matched at least one site and at least their floor",
               samples=[s_ for r in results for s_ in r.samples[:3]][:40], exhaustive=True, functions_analysed=len(F.fns), rule_instances=[dict(id=r.id, sites=r.sites, floor=r.floor, violations=len(r.violations)) for r in results],
               known_findings_hit=[v.key for v in hits], fixed_findings_documented=len(fixed), **extra)
    if obl["obligations"]: cov.update(obligations_in_scope=obl["obligations"], discharged_by_engine=obl["discharged"], vetted=obl["vetted"])
    ev = dict(property_id=cid, tier=tier, seed=seed, level="other", coverage=cov,
              assumptions=["64-bit target; dev-profile MIR at mir-opt-level 0 is the program (cfg(test) code and the crates renet_steam, bevy_renet, renet_visualizer, demos are not analysed)",
                           "dependency crates behave as in the contract tables of sa/absint_heap.py and sa/rules.py (octets 0.3, bytes 1, std, chacha20poly1305 0.10)",
                           "a passing check means the listed necessary conditions hold on every path, not that the whole behavioural property holds (DESIGN.md section 5, 'Not decided')"],
              wall_s=round(time.time() - t0, 2), violations=len(viol))
    if not replay:
        tmp = os.path.join(EVID, f".{cid}.json.{os.getpid()}")
        json.dump(ev, open(tmp, "w"), indent=1)
        os.replace(tmp, os.path.join(EVID, f"{cid}.json"))
    print(f"{cid}: tier {tier}, {len(results)} rule instances, {sites} sites, {len(hits)} known finding(s), {len(viol)} violation(s), facts {'extracted' if fresh else 'cached'} {key}, {time.time()-t0:.1f}s")
    sys.exit(1 if viol else 0)


if __name__ == "__main__":
    main()
