import os
# Rule-kind helpers over the fact base: site discovery, guards, dominance, provenance.
import re, collections
from .facts import Facts, Fn, fmt, short, stable, is_log_or_derive

GROW = {"insert", "push", "push_back", "push_front", "entry", "or_insert_with", "or_insert", "or_default", "extend", "append"}
SHRINK = {"remove", "pop", "pop_front", "pop_back", "pop_first", "pop_last", "clear", "retain", "drain", "take", "swap_remove", "truncate", "remove_entry"}
CMP_CALL = {"eq": "Eq", "ne": "Ne", "lt": "Lt", "le": "Le", "gt": "Gt", "ge": "Ge"}
MIRROR = {"Lt": "Gt", "Le": "Ge", "Gt": "Lt", "Ge": "Le", "Eq": "Eq", "Ne": "Ne"}
NEGATE = {"Lt": "Ge", "Le": "Gt", "Gt": "Le", "Ge": "Lt", "Eq": "Ne", "Ne": "Eq"}


class Site:
    def __init__(self, fn, bb, idx, node):
        self.fn, self.bb, self.idx, self.node = fn, bb, idx, node
    @property
    def line(self): return self.node["span"]["l"][0]
    @property
    def file(self): return self.node["span"]["f"]
    def loc(self): return f"{self.file}:{self.line}"
    def __repr__(self): return f"<{short(self.fn.path)} bb{self.bb}[{self.idx}] @{self.line}>"


class Violation:
    def __init__(self, rule, key, site, msg):
        self.rule, self.key, self.site, self.msg = rule, key, site, msg
    def __repr__(self): return f"{self.rule} {self.site.loc() if self.site else ''} {self.msg} [{self.key}]"


class RuleResult:
    def __init__(self, rid, descr, floor=0):
        self.id, self.descr, self.floor = rid, descr, floor
        self.sites, self.violations, self.samples = 0, [], []
    def site(self, s, note=""):
        self.sites += 1
        if len(self.samples) < 4: self.samples.append(f"{short(s.fn.path)} {s.loc()} {note}"[:240])
    def bad(self, key, site, msg): self.violations.append(Violation(self.id, f"{self.id}|{key}", site, msg))
    def finish(self):
        # `floor` = the number of sites confirmed by hand on the pinned tree (reported in the evidence). The tripwire is "at least one site":
        # behaviour-preserving refactorings legitimately merge sites (five inserts into one, two checks into one helper), so a count below the
        # confirmed number is not a violation; a rule that finds nothing at all has lost its anchor and fails closed.
        eff = min(self.floor, 1) if not os.environ.get("VERIF_STRICT_FLOORS") else self.floor
        if self.sites < eff:
            self.violations.append(Violation(self.id, f"{self.id}|anchor-missing", None, f"anchor-missing: {self.sites} site(s) found, floor {self.floor} ({self.descr})"))
        return self


def strip(o):
    """strip refs / derefs / integer casts / copies for value identity comparison"""
    while isinstance(o, tuple) and o and o[0] in ("ref", "deref", "cast"):
        o = o[1] if o[0] in ("ref", "deref") else o[2]
    return o


def norm(o):
    if not isinstance(o, tuple): return o
    o = strip(o)
    if not isinstance(o, tuple): return o
    return tuple(norm(x) if isinstance(x, tuple) else x for x in o)


def same(a, b): return norm(a) == norm(b)


def const_eval(o):
    """fold constant integer expressions (origins); returns int or None"""
    o = strip(o)
    if not isinstance(o, tuple): return None
    if o[0] == "const": return o[1] if isinstance(o[1], int) else None
    if o[0] == "field" and o[2] == "0": return const_eval(o[1])  # (a OpWithOverflow b).0
    if o[0] == "bin":
        a, b = const_eval(o[2]), const_eval(o[3])
        if a is None or b is None: return None
        op = o[1].replace("WithOverflow", "").replace("Unchecked", "")
        try:
            return {"Add": a + b, "Sub": a - b, "Mul": a * b, "Shl": a << b, "Shr": a >> b, "BitOr": a | b, "BitAnd": a & b, "BitXor": a ^ b,
                    "Div": a // b if b else None, "Rem": a % b if b else None}.get(op)
        except Exception:
            return None
    return None


def contains(o, pred):
    if pred(o): return True
    if isinstance(o, tuple): return any(contains(x, pred) for x in o if isinstance(x, tuple))
    return False


def callee_name(t): return t.get("resolved") or t.get("callee") or "indirect"


def method_of(name):
    n = re.sub(r"::<[^:]*?>", "", name)
    return n.rsplit("::", 1)[-1]


class Tree:
    def __init__(self, facts: Facts):
        self.F = facts
        self._callers = None

    # ---- lookup ----------------------------------------------------------
    def fn(self, suffix): return self.F.fn(suffix)
    def fns(self, pat=None):
        for f in self.F.fns.values():
            if pat is None or re.search(pat, f.path): yield f

    def sites(self, fn=None):
        for f in ([fn] if fn else self.F.fns.values()):
            for bb, k, s in f.sites():
                yield Site(f, bb, k, s)

    def stores(self, adt, field, fn=None):
        """stores to field `field` of ADT `adt`: direct (`x.field = v`) or through a reference taken to exactly that field (`let p = &mut x.field; *p = v`,
        which is also what an inlined helper `fn h(p: &mut T)` looks like)"""
        for s in self.sites(fn):
            n = s.node
            if n["k"] == "assign" and n["place"]["proj"]:
                last = n["place"]["proj"][-1]
                if last["k"] == "field" and last.get("name") == field and (last.get("adt") or "").endswith(adt):
                    yield s
                elif last["k"] == "deref" and len(n["place"]["proj"]) == 1:
                    tgt = self._ref_target(s.fn, n["place"]["local"])
                    if tgt is not None and tgt["proj"] and tgt["proj"][-1]["k"] == "field" and tgt["proj"][-1].get("name") == field and (tgt["proj"][-1].get("adt") or "").endswith(adt):
                        yield s

    def _ref_target(self, fn, local, depth=0):
        """place a reference local points to, if it has a single definition chain `l = &[mut] place` / copies of such"""
        for _ in range(8):
            ds = fn.defs1(local)
            if len(ds) != 1 or ds[0][2]["k"] != "assign": return None
            rv = ds[0][2]["rv"]
            if rv["k"] in ("ref", "rawptr"):
                pl = rv["place"]
                # reborrow `&mut *q`: keep chasing
                if len(pl["proj"]) == 1 and pl["proj"][0]["k"] == "deref": local = pl["local"]; continue
                return pl
            if rv["k"] in ("use", "cast") and rv["op"]["k"] in ("copy", "move") and not rv["op"]["place"]["proj"]: local = rv["op"]["place"]["local"]; continue
            # one component of a tuple / struct of references built just before: `let (a, b) = (&mut self.x, &mut self.y);`
            if rv["k"] == "use" and rv["op"]["k"] in ("copy", "move") and len(rv["op"]["place"]["proj"]) == 1 and rv["op"]["place"]["proj"][0]["k"] == "field":
                al_ = rv["op"]["place"]["local"]
                for _c in range(6):      # the aggregate may have been moved (into an inlined helper's `self`) before the component is read
                    ds2 = fn.defs1(al_)
                    if len(ds2) == 1 and ds2[0][2]["k"] == "assign" and ds2[0][2]["rv"]["k"] == "use" and ds2[0][2]["rv"]["op"]["k"] in ("copy", "move") and not ds2[0][2]["rv"]["op"]["place"]["proj"]:
                        al_ = ds2[0][2]["rv"]["op"]["place"]["local"]; continue
                    break
                if len(ds2) == 1 and ds2[0][2]["k"] == "assign" and ds2[0][2]["rv"]["k"] == "aggr":
                    flds = ds2[0][2]["rv"]["fields"]; i_ = rv["op"]["place"]["proj"][0].get("i")
                    if isinstance(i_, int) and i_ < len(flds) and flds[i_]["k"] in ("copy", "move") and not flds[i_]["place"]["proj"]:
                        local = flds[i_]["place"]["local"]; continue
            return None
        return None

    def stores_like(self, pat, fn=None):
        """stores (assignments through a projection) whose target place, rendered as an origin expression, matches `pat`
        (finds stores through pattern-bound references such as `*num_acked_slices += 1` as well as direct field stores)"""
        for s in self.sites(fn):
            n = s.node
            if n["k"] == "assign" and n["place"]["proj"] and re.search(pat, fmt(self.place(s))):
                yield s

    def aggrs(self, adt, variant=None, fn=None):
        for s in self.sites(fn):
            n = s.node
            if n["k"] == "assign" and n["rv"]["k"] == "aggr" and (n["rv"].get("path") or "").endswith(adt) and (variant is None or n["rv"].get("vname") == variant):
                yield s

    def calls(self, pat, fn=None):
        for s in self.sites(fn):
            n = s.node
            if n["k"] == "call" and re.search(pat, callee_name(n)):
                yield s

    def callers(self, callee_suffix):
        out = []
        for s in self.calls(re.escape(callee_suffix) + r"$"):
            out.append(s)
        return out

    # ---- origins ---------------------------------------------------------
    def arg(self, s, i): return s.fn.origin_of_operand(s.node["args"][i])
    def args(self, s): return [s.fn.origin_of_operand(a) for a in s.node["args"]]
    def stored(self, s): return s.fn._origin_of_def(s.node, 0)
    def place(self, s): return s.fn.origin_of_place(s.node["place"])
    def field_of_aggr(self, s, name):
        o = self.stored(s)
        return o[3][o[4].index(name)]

    def is_field(self, o, adt_field):
        """origin (after stripping) is a load of self-like field `name` (any base)"""
        o = strip(o)
        return isinstance(o, tuple) and o[0] == "field" and o[2] == adt_field

    def mentions_field(self, o, field): return contains(o, lambda x: isinstance(x, tuple) and x and x[0] == "field" and x[2] == field)
    def mentions_param(self, o, idx=None): return contains(o, lambda x: isinstance(x, tuple) and x and x[0] == "param" and (idx is None or x[1] == idx))
    def mentions_call(self, o, pat): return contains(o, lambda x: isinstance(x, tuple) and x and x[0] == "call" and re.search(pat, x[1]))

    # ---- closures: substitute captured variables by their origin in the creating function -----------
    def closure_creator(self, closure_fn):
        if not hasattr(self, "_creators"):
            self._creators = {}
            for s in self.sites():
                n = s.node
                if n["k"] == "assign" and n["rv"]["k"] == "aggr" and n["rv"].get("ak") == "closure":
                    self._creators[n["rv"]["path"]] = s
        return self._creators.get(closure_fn.path)

    def resolve_closure(self, o, closure_fn):
        cs = self.closure_creator(closure_fn)
        if cs is None: return o
        ups = self.stored(cs)[3]
        def sub(x):
            if not isinstance(x, tuple) or not x: return x
            y = x
            if x[0] == "field":
                base = strip(x[1])
                if isinstance(base, tuple) and base[0] == "param" and base[1] == 1 and str(x[2]).isdigit() and int(x[2]) < len(ups):
                    return ("closure-upvar", strip(ups[int(x[2])]))
            return tuple(sub(z) if isinstance(z, tuple) else z for z in x)
        r = sub(o)
        # unwrap marker
        def un(x):
            if not isinstance(x, tuple) or not x: return x
            if x[0] == "closure-upvar": return un(x[1])
            return tuple(un(z) if isinstance(z, tuple) else z for z in x)
        return un(r)

    # ---- container effects ---------------------------------------------------
    def effects(self, field, kinds, fn=None, adt=None):
        """calls whose receiver (arg 0) is rooted at field `field`, with a method in `kinds`"""
        for s in self.sites(fn):
            n = s.node
            if n["k"] != "call" or not n["args"]: continue
            m = method_of(callee_name(n))
            if m not in kinds: continue
            recv = self.arg(s, 0)
            if self.rooted_at_field(recv, field): yield s

    def rooted_at_field(self, o, field):
        """receiver expression is the field itself (through refs/derefs/Deref::deref/entry chains)"""
        o = strip(o)
        while isinstance(o, tuple):
            if o[0] == "field" and o[2] == field: return True
            if o[0] == "call" and (method_of(o[1]) in ("deref", "deref_mut", "entry", "as_mut", "as_ref", "iter_mut", "iter", "values_mut", "first_mut", "last_mut", "get_mut", "unwrap", "expect", "branch") or "Deref" in o[1]) and o[2]:
                o = strip(o[2][0]); continue
            if o[0] == "as": o = strip(o[1]); continue                      # enum downcast: (entry(..) as Vacant)
            if o[0] == "field" and str(o[2]) in ("0", "1") and isinstance(strip(o[1]), tuple) and strip(o[1])[0] in ("as", "call"): o = strip(o[1]); continue
            if o[0] == "phi":                                               # the same container reached over several paths
                alts = [strip(x) for x in o[2]]
                return bool(alts) and all(self.rooted_at_field(x, field) for x in alts)
            return False
        return False

    # ---- guards -------------------------------------------------------------------
    def branches(self, fn):
        """normalised conditional branches of fn: dict(bb, cond, t_edge, f_edge) with cond = ('cmp', op, lhs, rhs) | ('call', name, args) | ('discr', origin, {val: target}, otherwise) | ('bool', origin)"""
        if hasattr(fn, "_branches"): return fn._branches
        out = []
        for b in fn.blocks:
            t = b["term"]
            if t["k"] != "switch" or b["i"] not in fn.reach: continue
            o = fn.origin_of_operand(t["on"])
            vals = [v for v, _ in t["targets"]]
            neg = False
            oo = o
            while isinstance(oo, tuple) and oo[0] == "un" and oo[1] == "Not":
                neg = not neg; oo = oo[2]
            if isinstance(oo, tuple) and oo[0] == "discr":
                out.append(dict(bb=b["i"], kind="discr", on=oo[1], targets={v: tgt for v, tgt in t["targets"]}, otherwise=t["otherwise"]))
                continue
            if vals == [0]:
                f_edge, t_edge = (b["i"], t["targets"][0][1]), (b["i"], t["otherwise"])
                if neg: f_edge, t_edge = t_edge, f_edge
                cond = self.norm_cond(oo)
                out.append(dict(bb=b["i"], kind="bool", cond=cond, t_edge=t_edge, f_edge=f_edge, raw=oo))
                # a boolean decided in several places and tested once (`let dup = match mode { A => x.contains(k), B => y.contains(k) }; if dup {..}`):
                # on the paths that come through one alternative the test *is* the test of that alternative
                def _is_test(a_):
                    while isinstance(a_, tuple) and a_ and a_[0] == "un" and a_[1] == "Not": a_ = a_[2]
                    return isinstance(a_, tuple) and bool(a_) and a_[0] == "call"
                # (only when *every* alternative is itself a test: `a && b` lowers to phi(b, false) - there the false edge does not establish !b)
                if isinstance(oo, tuple) and oo[0] == "phi" and all(_is_test(a_) for a_ in oo[2]) and not os.environ.get("VERIF_DEV_NO_MERGEDCOND"):
                    for alt in oo[2]:
                        an, aneg = alt, neg
                        while isinstance(an, tuple) and an and an[0] == "un" and an[1] == "Not": aneg = not aneg; an = an[2]
                        if not (isinstance(an, tuple) and an and an[0] in ("call", "bin")): continue
                        fe, te = (b["i"], t["targets"][0][1]), (b["i"], t["otherwise"])
                        if aneg: fe, te = te, fe
                        out.append(dict(bb=b["i"], kind="bool", cond=self.norm_cond(an), t_edge=te, f_edge=fe, raw=an, merged=True))
            else:
                out.append(dict(bb=b["i"], kind="int", on=oo, targets={v: tgt for v, tgt in t["targets"]}, otherwise=t["otherwise"]))
        fn._branches = out
        return out

    def norm_cond(self, o):
        if isinstance(o, tuple) and o[0] == "bin" and o[1] in MIRROR: return ("cmp", o[1], o[2], o[3])
        if isinstance(o, tuple) and o[0] == "call":
            m = method_of(o[1])
            if m in CMP_CALL and ("PartialEq" in o[1] or "PartialOrd" in o[1] or "cmp::" in o[1]) and len(o[2]) == 2:
                return ("cmp", CMP_CALL[m], o[2][0], o[2][1])
            return ("call", o[1], o[2])
        return ("bool", o)

    def edge_dominates(self, fn, edge, bb): return fn.edge_dominates(edge[0], edge[1], bb)

    def find_cmp(self, fn, lhs_pred, rhs_pred, ops):
        """branches comparing lhs op rhs (or mirrored); yields (branch, op as seen with lhs on the left, true_edge, false_edge)"""
        for br in self.branches(fn):
            if br["kind"] != "bool" or br["cond"][0] != "cmp": continue
            _, op, a0, b0 = br["cond"]
            for a, b in rebalanced(a0, b0):
                if lhs_pred(a) and rhs_pred(b): yield br, op, br["t_edge"], br["f_edge"]; break
                elif lhs_pred(b) and rhs_pred(a): yield br, MIRROR[op], br["t_edge"], br["f_edge"]; break

    def find_callcond(self, fn, name_pat, arg_pred=None):
        for br in self.branches(fn):
            if br["kind"] == "bool" and br["cond"][0] == "call" and re.search(name_pat, br["cond"][1]) and (arg_pred is None or arg_pred(br["cond"][2])):
                yield br

    # what does an edge lead to?
    def edge_returns_err(self, fn, edge, variant_pat):
        """every path from the edge target to return passes a block that assigns _0 = Err(<variant>) (directly or via from_residual of such)"""
        marks = set()
        for b in fn.blocks:
            for s in b["stmts"]:
                if s["k"] == "assign" and s["place"]["local"] == 0 and not s["place"]["proj"]:
                    o = fn._origin_of_def(s, 0)
                    if isinstance(o, tuple) and o[0] == "aggr" and o[2] == "Err" and re.search(variant_pat, fmt(o)): marks.add(b["i"])
        # the same Err built in a temporary that then becomes the result (`return Err(..)` inside an inlined helper, handed on by `?`): every
        # path from the construction to the return defines _0 (by from_residual / a move) without building another result in between
        ret_defs = {(bb, k) for bb, k, s_ in fn.defs().get(0, [])}
        for b in fn.blocks:
            if b["i"] not in fn.reach: continue
            for k, s in enumerate(b["stmts"]):
                if s["k"] == "assign" and s["place"]["local"] != 0 and not s["place"]["proj"] and s["rv"]["k"] == "aggr" and s["rv"].get("vname") == "Err" and (s["rv"].get("path") or "").endswith("Result"):
                    o = fn._origin_of_def(s, 0)
                    if re.search(variant_pat, fmt(o)) and ret_defs and must_pass(fn, (b["i"], k), ret_defs)[0]: marks.add(b["i"])
        if not marks: return False
        seen, st = set(), [edge[1]]
        while st:
            x = st.pop()
            if x in seen or x in marks: continue
            seen.add(x)
            if x in fn.returns: return False
            st.extend(fn.succ[x])
        return True

    def edge_effect_free(self, fn, edge, until_return=True):
        """no store through a reference / no call taking &mut self state on the region from edge target to return"""
        seen, st = set(), [edge[1]]
        while st:
            x = st.pop()
            if x in seen: continue
            seen.add(x)
            b = fn.blocks[x]
            for s in b["stmts"]:
                if s["k"] == "assign" and any(p["k"] == "deref" for p in s["place"]["proj"]) and not is_log_or_derive(s["span"]): return False
            st.extend(fn.succ[x])
        return True

    def region_from(self, fn, edge): return fn.reachable_from([edge[1]])

    # ---- Ok / Err edges of a call ------------------------------------------------------
    def result_edges(self, fn, call_site):
        """(ok_edge, err_edge) of a call returning Result/Option, through `?` or match; None when not found. Adaptors that keep the Ok/Some-ness
        of the value (`.map_err(..)`, `.ok()`, `.ok_or(..)`, `.as_ref()`, `.map(..)`, `.inspect_err(..)`) are looked through."""
        me = fn.call_origin(call_site.node)
        KEEP = ("map_err", "ok", "ok_or", "ok_or_else", "as_ref", "as_mut", "map", "inspect_err", "inspect", "as_deref", "as_deref_mut", "copied", "cloned")
        def peel(o):
            o = strip(o)
            for _ in range(6):
                if isinstance(o, tuple) and o[0] == "call" and method_of(o[1]) in KEEP and ("Result" in o[1] or "Option" in o[1] or "<T" in o[1]) and o[2]: o = strip(o[2][0])
                else: break
            return o
        for br in self.branches(fn):
            if br["kind"] != "discr": continue
            on = strip(br["on"])
            if isinstance(on, tuple) and on[0] == "call" and on[1].endswith("Try>::branch") and norm(peel(on[2][0])) == norm(me):
                return (br["bb"], br["targets"].get(0, br["otherwise"])), (br["bb"], br["targets"].get(1, br["otherwise"]))
            if norm(peel(on)) == norm(me) and norm(on) != norm(me):
                # matched after an adaptor: variant numbering of the adapted type (Option: None 0 / Some 1; Result: Ok 0 / Err 1)
                is_opt = isinstance(on, tuple) and on[0] == "call" and method_of(on[1]) in ("ok", "as_ref", "as_mut", "copied", "cloned", "map", "as_deref") and "Option" in on[1] or (isinstance(on, tuple) and on[0] == "call" and method_of(on[1]) == "ok")
                okv, errv = (1, 0) if is_opt else (0, 1)
                return (br["bb"], br["targets"].get(okv, br["otherwise"])), (br["bb"], br["targets"].get(errv, br["otherwise"]))
            # direct match on the result
            if norm(on) == norm(me):
                names = self.variant_map(fn, call_site.node["dest"])
                ok = [tgt for v, tgt in br["targets"].items() if names.get(v) in ("Ok", "Some")]
                err = [tgt for v, tgt in br["targets"].items() if names.get(v) in ("Err", "None")]
                if ok or err:
                    okb = ok[0] if ok else br["otherwise"]; errb = err[0] if err else br["otherwise"]
                    return (br["bb"], okb), (br["bb"], errb)
            # through Try::branch
            if isinstance(on, tuple) and on[0] == "call" and on[1].endswith("Try>::branch") and norm(on[2][0]) == norm(me):
                return (br["bb"], br["targets"].get(0, br["otherwise"])), (br["bb"], br["targets"].get(1, br["otherwise"]))
        # `if call(..).is_err() { .. }` / `.is_ok()` / `.is_some()` / `.is_none()`: the boolean's edges are the result's edges
        for br in self.branches(fn):
            if br["kind"] != "bool" or br["cond"][0] != "call": continue
            m_ = method_of(br["cond"][1])
            if m_ not in ("is_err", "is_ok", "is_some", "is_none") or not br["cond"][2]: continue
            if norm(peel(br["cond"][2][0])) != norm(me): continue
            good, bad_ = (br["t_edge"], br["f_edge"]) if m_ in ("is_ok", "is_some") else (br["f_edge"], br["t_edge"])
            return good, bad_
        return None

    def variant_map(self, fn, place):
        t = fn.locals[place["local"]]["ty"]
        p = t.get("path", "")
        if p == "std::result::Result": return {0: "Ok", 1: "Err"}
        if p == "std::option::Option": return {0: "None", 1: "Some"}
        a = self.F.adts.get(p)
        return {v["discr"]: v["name"] for v in a["variants"]} if a else {}

    def variants_of(self, adt):
        a = [v for k, v in self.F.adts.items() if k.endswith(adt)]
        return {v["discr"]: v["name"] for v in a[0]["variants"]} if a else {}

    # ---- who ---------------------------------------------------------------------------
    def writers(self, adt, field):
        out = collections.defaultdict(list)
        for s in self.stores(adt, field): out[s.fn.path].append(s)
        return out


# ---- path helpers (statement-position aware) -----------------------------------------------------------------------------
def must_pass(fn, start, targets, stops=None, avoid_edges=()):
    """True iff every normal path from program point `start` = (bb, idx) [exclusive] to a function return (or to one of the `stops`
    points) passes through one of the `targets` points [(bb, idx)]. Panic exits do not count as paths. Returns (ok, witness_block)."""
    tb = {}
    for b, i in targets: tb.setdefault(b, []).append(i)
    sb = {}
    for b, i in (stops or []): sb.setdefault(b, []).append(i)
    b0, i0 = start
    def scan(b, lo):
        """scanning block b from statement index lo (inclusive): 'hit' if a target comes first, 'stop' if a stop point comes first, else 'through'"""
        cands = [(i, "hit") for i in tb.get(b, []) if i >= lo] + [(i, "stop") for i in sb.get(b, []) if i >= lo]
        if not cands: return "through"
        return min(cands)[1]
    r = scan(b0, i0 + 1)
    if r == "hit": return True, None
    if r == "stop": return False, b0
    if b0 in fn.returns: return False, b0
    seen, st = set(), [(b0, s) for s in fn.succ[b0] if (b0, s) not in avoid_edges]
    while st:
        p, x = st.pop()
        if x in seen: continue
        seen.add(x)
        r = scan(x, 0)
        if r == "hit": continue
        if r == "stop": return False, x
        if x in fn.returns: return False, x
        st.extend((x, s) for s in fn.succ[x] if (x, s) not in avoid_edges)
    return True, None


def must_fact(fn, gen_points=(), gen_edges=(), kill_points=()):
    """forward must-dataflow of one boolean fact over the CFG of fn: the fact is established at the program points `gen_points` [(bb, idx)] and on
    the CFG edges `gen_edges` [(a, b)], destroyed at `kill_points`; at a join it holds only if it holds on every incoming edge. Returns a
    function holds(bb, idx) = the fact holds just before statement idx of block bb. (Dominance by one establishing site is the special case
    of a single generator; this also covers `match x { Some(e) => e, None => insert(..) }` followed by a use after the arms merge.)"""
    gp, kp = {}, {}
    for b, i_ in gen_points: gp.setdefault(b, []).append(i_)
    for b, i_ in kill_points: kp.setdefault(b, []).append(i_)
    ge = set(gen_edges)
    def transfer(b, v, upto=None):
        ev = sorted([(i_, 1) for i_ in gp.get(b, [])] + [(i_, 0) for i_ in kp.get(b, [])])
        for i_, g_ in ev:
            if upto is not None and i_ >= upto: break
            v = bool(g_)
        return v
    reach = sorted(fn.reach)
    IN = {b: True for b in reach}; IN[0] = False
    changed = True
    while changed:
        changed = False
        for b in reach:
            if b == 0: continue
            ps = [p_ for p_ in fn.pred[b] if p_ in fn.reach]
            v = all(((p_, b) in ge) or transfer(p_, IN[p_]) for p_ in ps) if ps else False
            if v != IN[b]: IN[b] = v; changed = True
    return lambda bb, idx=0: transfer(bb, IN.get(bb, False), upto=idx)


def natural_loops(fn):
    """list of (head, body) for the natural loops of fn (back edge p->h with h dominating p); loops sharing a head are merged"""
    if hasattr(fn, "_loops"): return fn._loops
    loops = {}
    for h in fn.reach:
        for p in fn.pred[h]:
            if p in fn.reach and fn.dominates(h, p):
                body = loops.setdefault(h, {h})
                st = [p]
                while st:
                    x = st.pop()
                    if x not in body:
                        body.add(x); st.extend(q for q in fn.pred[x] if q in fn.reach)
    fn._loops = sorted(loops.items())
    return fn._loops


def innermost_loop(fn, bb):
    best = None
    for h, body in natural_loops(fn):
        if bb in body and (best is None or len(body) < len(best[1])): best = (h, body)
    return best


def pos(site): return (site.bb, site.idx)


def rebalanced(a, b):
    """equivalent spellings of an (in)equality `a ? b` obtained by moving a constant addend to the other side:
    `x + c ? y`  <=>  `x ? y - c`,   `x - c ? y`  <=>  `x ? y + c`   (integers, no wrap-around: Rust's overflow checks guard both forms).
    Yields (a', b') pairs including the original."""
    yield a, b
    def split(o):
        o_ = o
        while isinstance(o_, tuple) and o_ and o_[0] in ("cast",) and len(o_) == 3: o_ = o_[2]
        if isinstance(o_, tuple) and o_[0] == "field" and str(o_[2]) == "0" and isinstance(o_[1], tuple) and o_[1][0] == "bin": o_ = o_[1]
        if isinstance(o_, tuple) and o_[0] == "bin":
            k = o_[1].replace("WithOverflow", "").replace("Unchecked", "")
            if k in ("Add", "Sub"):
                l_, r_ = o_[2], o_[3]
                if isinstance(r_, tuple) and r_[0] == "const" and isinstance(r_[1], int): return k, l_, r_
                if k == "Add" and isinstance(l_, tuple) and l_[0] == "const" and isinstance(l_[1], int): return k, r_, l_
        return None
    def mk(kind, x, c): return ("field", ("bin", kind + "WithOverflow", x, c), "0", "tuple")
    sa_, sb_ = split(a), split(b)
    if sa_: yield sa_[1], mk("Sub" if sa_[0] == "Add" else "Add", b, sa_[2])
    if sb_: yield mk("Sub" if sb_[0] == "Add" else "Add", a, sb_[2]), sb_[1]


def _rel_edges_direct(t, fn, lhs_pred, rhs_pred, rel):
    """CFG edges of fn on which `lhs <rel> rhs` holds exactly (rel in Lt, Le, Gt, Ge, Eq, Ne), whatever way the test is written:
    either operand order, negated conditions, `!(a < b)` for `a >= b`, a comparison stored in a bool first. Yields (edge, branch)."""
    for br in t.branches(fn):
        if br["kind"] != "bool" or br["cond"][0] != "cmp": continue
        _, op, a0, b0 = br["cond"]
        done_ = False
        for a, b in rebalanced(a0, b0):
            for (x, y, o) in ((a, b, op), (b, a, MIRROR[op])):
                if lhs_pred(x) and rhs_pred(y):
                    if o == rel: yield br["t_edge"], br
                    if NEGATE[o] == rel: yield br["f_edge"], br
                    done_ = True; break
            if done_: break
    # `cond.then(|| x)` / `cond.then_some(x)` tested with `if let Some(..)`: the Some edge means cond held (possibly merged with constant `None`s)
    for br in t.branches(fn):
        if br["kind"] != "discr": continue
        on = strip(br["on"])
        alts = [strip(x) for x in on[2]] if isinstance(on, tuple) and on[0] == "phi" else [on]
        alts = [x for x in alts if not (isinstance(x, tuple) and x[0] == "aggr" and x[2] == "None")]
        if not alts or not all(isinstance(x, tuple) and x[0] == "call" and method_of(x[1]) in ("then", "then_some") and "bool" in x[1] and x[2] for x in alts): continue
        some_e = (br["bb"], br["targets"].get(1, br["otherwise"]))
        good = True
        for x in alts:
            c = t.norm_cond(strip(x[2][0]))
            neg = False
            cc = strip(x[2][0])
            while isinstance(cc, tuple) and cc[0] == "un" and cc[1] == "Not": neg = not neg; cc = cc[2]
            c = t.norm_cond(cc)
            if c[0] != "cmp": good = False; break
            _, op, a, b = c
            if neg: op = NEGATE[op]
            hit = False
            for (p_, q_, o) in ((a, b, op), (b, a, MIRROR[op])):
                if lhs_pred(p_) and rhs_pred(q_) and o == rel: hit = True
            if not hit: good = False; break
        if good: yield some_e, br
    # `match a.cmp(&b) { Less => .., Equal => .., Greater => .. }`: the discriminant of Ordering is -1 (255) / 0 / 1
    for br in t.branches(fn):
        if br["kind"] != "discr": continue
        on = strip(br["on"])
        if not (isinstance(on, tuple) and on[0] == "call" and method_of(on[1]) in ("cmp",) and ("Ord" in on[1] or "cmp::" in on[1]) and len(on[2]) == 2): continue
        a, b = strip(on[2][0]), strip(on[2][1])
        NAMES = {255: "Lt", -1: "Lt", 0: "Eq", 1: "Gt"}
        by_tgt = {}
        for v, tgt in br["targets"].items(): by_tgt.setdefault(tgt, set()).add(NAMES.get(v, "?"))
        rest = {"Lt", "Eq", "Gt"} - {NAMES.get(v, "?") for v in br["targets"]}
        if rest: by_tgt.setdefault(br["otherwise"], set()).update(rest)
        UNION = {frozenset({"Lt"}): "Lt", frozenset({"Eq"}): "Eq", frozenset({"Gt"}): "Gt", frozenset({"Lt", "Eq"}): "Le", frozenset({"Eq", "Gt"}): "Ge", frozenset({"Lt", "Gt"}): "Ne"}
        for tgt, rs in by_tgt.items():
            o = UNION.get(frozenset(rs))
            if o is None: continue
            for (x, y, oo) in ((a, b, o), (b, a, MIRROR[o])):
                if lhs_pred(x) and rhs_pred(y) and oo == rel: yield (br["bb"], tgt), br; break
    # `match a.checked_sub(b) { Some(v) => .., None => .. }`: None edge means a < b, Some edge a >= b
    for br in t.branches(fn):
        if br["kind"] != "discr": continue
        on = strip(br["on"])
        if isinstance(on, tuple) and on[0] == "call" and method_of(on[1]) == "checked_sub" and len(on[2]) == 2:
            a, b = on[2]
            for (x, y, lt, ge) in ((a, b, "Lt", "Ge"), (b, a, "Gt", "Le")):
                if lhs_pred(x) and rhs_pred(y):
                    none_e = (br["bb"], br["targets"].get(0, br["otherwise"])); some_e = (br["bb"], br["targets"].get(1, br["otherwise"]))
                    if rel == lt: yield none_e, br
                    if rel == ge: yield some_e, br
                    break




def rel_edges(t, fn, lhs_pred, rhs_pred, rel, also=()):
    """as _rel_edges_direct, plus conditions materialised into a bool local: `let ok = a == x && b == y; if !ok { return }`. The true edge of a
    test on such a local implies the relation if every way the local can be true does (the alternative is the comparison itself, or it is
    assigned in a block that is already behind an edge with the relation); symmetrically for the false edge and `||`."""
    direct = list(_rel_edges_direct(t, fn, lhs_pred, rhs_pred, rel))
    for e, br in direct: yield e, br
    dedges = [e for e, _ in direct] + list(also)   # `also`: edges the caller accepts as equally good (e.g. "never sent before")
    def alt_holds(alt, bb, want_true):
        a = alt; neg = False
        while isinstance(a, tuple) and a[0] == "un" and a[1] == "Not": neg = not neg; a = a[2]
        c = t.norm_cond(a)
        if c[0] == "cmp":
            _, op, x, y = c
            if neg: op = NEGATE[op]
            if not want_true: op = NEGATE[op]
            for (p_, q_, o) in ((x, y, op), (y, x, MIRROR[op])):
                if lhs_pred(p_) and rhs_pred(q_) and o == rel: return True
        return any(t.edge_dominates(fn, e, bb) for e in dedges)
    for br in t.branches(fn):
        if br["kind"] != "bool": continue
        raw = br["raw"]
        if not (isinstance(raw, tuple) and raw[0] == "phi"): continue
        defs = fn.defs().get(raw[1], [])
        if len(defs) < 2: continue
        alts = [(fn._origin_of_def(d, 0), bb_d) for bb_d, _, d in defs]
        for want_true, edge in ((True, br["t_edge"]), (False, br["f_edge"])):
            poss = [(a, b_) for a, b_ in alts if not (isinstance(a, tuple) and a[0] == "const" and bool(a[1]) != want_true)]
            if poss and all(alt_holds(a, b_, want_true) for a, b_ in poss) and edge not in dedges: yield edge, br

def map_key_edges(t, fn, field, key_pred):
    """edges of fn that decide whether a key is present in the map/set `field`:
    returns (absent_edges, present_edges). Recognised forms: contains_key / contains (bool), get / get_mut / remove result matched on Some/None,
    `entry(k)` matched on Vacant/Occupied, `insert(k, ..)` of a set returning bool is not a test."""
    absent, present = [], []
    for br in t.branches(fn):
        if br["kind"] == "bool" and br["cond"][0] == "call" and method_of(br["cond"][1]) in ("contains_key", "contains") and len(br["cond"][2]) >= 2:
            if t.rooted_at_field(br["cond"][2][0], field) and key_pred(br["cond"][2][1]):
                present.append(br["t_edge"]); absent.append(br["f_edge"])
        if br["kind"] == "discr":
            on = strip(br["on"])
            if isinstance(on, tuple) and on[0] == "call" and on[2] and t.rooted_at_field(on[2][0], field) and len(on[2]) >= 2 and key_pred(on[2][1]):
                m = method_of(on[1])
                if m in ("get", "get_mut", "remove", "get_key_value"):
                    for v, tgt in br["targets"].items(): (present if v == 1 else absent).append((br["bb"], tgt))
                    if 1 not in br["targets"]: present.append((br["bb"], br["otherwise"]))
                    if 0 not in br["targets"]: absent.append((br["bb"], br["otherwise"]))
                elif m == "entry":
                    # std: hash_map::Entry { Occupied = 0, Vacant = 1 } but btree_map::Entry { Vacant = 0, Occupied = 1 }
                    names = {0: "Vacant", 1: "Occupied"} if re.search(r"BTreeMap|btree", on[1]) else {0: "Occupied", 1: "Vacant"}
                    vac = next(v for v, n_ in names.items() if n_ == "Vacant"); occ = 1 - vac
                    for v, tgt in br["targets"].items(): (absent if names.get(v) == "Vacant" else present).append((br["bb"], tgt))
                    if vac not in br["targets"]: absent.append((br["bb"], br["otherwise"]))
                    if occ not in br["targets"]: present.append((br["bb"], br["otherwise"]))
    return absent, present


def owner_fn(t, fn):
    """the function a closure body belongs to (the function that creates the closure, after helper inlining); fn itself for ordinary functions"""
    seen = 0
    while "{closure" in fn.path and seen < 6:
        cs = t.closure_creator(fn)
        if cs is None: break
        fn = cs.fn; seen += 1
    return fn


def fn_and_closures(t, f):
    """f and the closure bodies created inside it (transitively)"""
    out = [f]
    for g in t.fns():
        if "{closure" in g.path and g.path.startswith(f.path + "::") : out.append(g)
        elif "{closure" in g.path and owner_fn(t, g) is f and g not in out: out.append(g)
    return out


def resolved(t, o, g):
    """origin o seen from the function that created closure g (captured variables replaced by what was captured)"""
    return t.resolve_closure(o, g) if "{closure" in g.path else o
