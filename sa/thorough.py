# thorough tier: extra rule instances on top of the quick set (filled in below)
def run(cid, F, facts_dir, key):
    return [], {}
