# thorough tier: on top of the quick rule set of a property
#   (1) fresh re-extraction of the facts into a new target directory and comparison with the cached facts (guards against a stale cache / cargo
#       replaying old output): a difference is reported as a VIOLATION of kind `facts-stale` because no verdict of the run could be trusted;
#   (2) OBL over every function body of the crate(s) the property is anchored in is reported as additional coverage (informational counts);
#   (3) self-test against the seeded corpus (/verif/seeded/<id>/patch.diff, confirmed property-breaking changes written by independent
#       sub-agents): every seed this property's check is recorded to catch (meta.json: caught_by) is applied to a scratch copy of the CURRENT
#       /repo tree, facts are extracted, the property's rule file is evaluated and must report a violation. Seeds that no longer apply are
#       skipped and counted. A seed that is no longer reported means the rule set lost power: that is reported in the evidence and on stdout
#       (`SELFTEST-MISS`), never as a VIOLATION of the tree under test;
#   (4) the same in the other direction against the benign corpus (/verif/benign/<property>-R*/patch.diff, behaviour-preserving refactorings):
#       the property's check must stay silent on each; an alarm is printed as `SELFTEST-FALSE-ALARM` and recorded in the evidence.
import os, sys, json, glob, shutil, subprocess, tempfile, time, hashlib, concurrent.futures as cf
from .rules import RuleResult

ROOT = os.path.dirname(os.path.dirname(os.path.abspath(__file__)))


def _fact_digest(d):
    h = {}
    for c in ("renet", "renetcode", "renet_netcode"):
        j = json.load(open(os.path.join(d, c + ".json")))
        j.pop("nonce", None)
        h[c] = hashlib.sha256(json.dumps(j, sort_keys=True).encode()).hexdigest()
    return h


def fresh_extraction(facts_dir):
    from . import check
    r = RuleResult("T.fresh", "facts re-extracted into a fresh target directory equal the cached facts used by this run", floor=3)
    tmp = tempfile.mkdtemp(prefix="verif-fresh-")
    try:
        out = os.path.join(tmp, "facts")
        ok, err = check.extract(check.REPO, out, os.path.join(tmp, "target"))
        if not ok:
            r.bad("fresh-extract-failed", None, "fresh extraction failed: " + err[-300:]); return r
        a, b = _fact_digest(facts_dir), _fact_digest(out)
        for c in a:
            r.sites += 1
            if a[c] != b[c]: r.bad(f"facts-stale|{c}", None, f"cached facts of crate {c} differ from a fresh extraction of the current tree")
        r.samples.append(f"fact digests: {', '.join(c + ' ' + a[c][:12] for c in a)}")
    finally:
        shutil.rmtree(tmp, ignore_errors=True)
    return r


def _seed_one(args):
    cid, seed, patch = args
    from . import check
    tmp = tempfile.mkdtemp(prefix="verif-seed-")
    try:
        repo = os.path.join(tmp, "repo")
        subprocess.check_call(["rsync", "-a", "--exclude", "target", "--exclude", ".git", check.REPO + "/", repo + "/"])
        p = subprocess.run(["patch", "-p1", "-s", "-f", "-i", patch], cwd=repo, capture_output=True, text=True)
        if p.returncode != 0: return seed, "skipped", "patch no longer applies to the current tree"
        env = dict(os.environ, VERIF_REPO=repo, VERIF_EVIDENCE_DIR=os.path.join(tmp, "ev"), VERIF_TIER="quick")
        os.makedirs(env["VERIF_EVIDENCE_DIR"], exist_ok=True)
        q = subprocess.run([os.path.join(ROOT, "check"), cid, "--tier", "quick"], env=env, capture_output=True, text=True)
        hits = [l.strip() for l in q.stdout.splitlines() if l.startswith("  -> ")]
        if q.returncode == 1 and hits: return seed, "caught", hits[0][:220].replace(repo + "/", "")
        if q.returncode not in (0, 1): return seed, "error", (q.stdout + q.stderr)[-200:]
        return seed, "missed", ""
    finally:
        shutil.rmtree(tmp, ignore_errors=True)


def seed_selftest(cid):
    r = RuleResult("T.seeds", "self-test: each recorded property-breaking variant of the current tree (seeded corpus) is reported by this property's rules", floor=0)
    jobs = []
    for m in sorted(glob.glob(os.path.join(ROOT, "seeded", "*", "meta.json")) + glob.glob(os.path.join(ROOT, "selftest", "*", "meta.json"))):
        j = json.load(open(m))
        if cid in j.get("caught_by", []): jobs.append((cid, os.path.basename(os.path.dirname(m)), next(p_ for p_ in (os.path.join(os.path.dirname(m), "patch.current.diff"), os.path.join(os.path.dirname(m), "patch.diff")) if os.path.exists(p_))))   # patch.current.diff = the same change rebased onto the current tree (after a later fix: commit touched the same lines)
    res = {"caught": [], "missed": [], "skipped": [], "error": []}
    with cf.ThreadPoolExecutor(max_workers=min(8, max(1, len(jobs)))) as ex:
        for seed, st, info in ex.map(_seed_one, jobs):
            res[st].append(seed); r.sites += 1
            if st == "caught" and len(r.samples) < 6: r.samples.append(f"{seed}: {info}")
            if st in ("missed", "error"): print(f"SELFTEST-MISS property={cid} seed={seed} {st} {info}")
    return r, res


def benign_selftest(cid):
    """the other direction of the self-test: the behaviour-preserving refactorings written for this property (benign/<cid>-R*/patch.diff, existing
    tests pass with each) are applied to a scratch copy of the current tree; this property's check must stay silent. An alarm is printed as
    SELFTEST-FALSE-ALARM and recorded in the evidence (the known remaining ones are discussed in DESIGN.md section 13); never a VIOLATION."""
    r = RuleResult("T.benign", "self-test: the behaviour-preserving variants written for this property raise no alarm", floor=0)
    jobs = [(cid, os.path.basename(os.path.dirname(p_)), p_) for p_ in sorted(glob.glob(os.path.join(ROOT, "benign", cid + "-R*", "patch.diff")))]
    res = {"silent": [], "alarm": [], "skipped": [], "error": []}
    with cf.ThreadPoolExecutor(max_workers=min(8, max(1, len(jobs)))) as ex:
        for seed, st, info in ex.map(_seed_one, jobs):
            st2 = {"caught": "alarm", "missed": "silent"}.get(st, st)
            res[st2].append(seed); r.sites += 1
            if st2 == "alarm":
                print(f"SELFTEST-FALSE-ALARM property={cid} variant={seed} {info}")
                if len(r.samples) < 6: r.samples.append(f"{seed}: {info}")
    return r, res


def run(cid, F, facts_dir, key):
    out, extra = [], {}
    t0 = time.time()
    out.append(fresh_extraction(facts_dir))
    r, res = seed_selftest(cid)
    out.append(r)
    rb, resb = benign_selftest(cid)
    out.append(rb)
    extra["selftest_benign"] = {k: v for k, v in resb.items()}
    extra["selftest_seeds"] = {k: v for k, v in res.items()}
    extra["selftest_rule"] = "seeded variants are applied to a scratch copy of the current tree; a miss is reported as SELFTEST-MISS and in this evidence, it is not a violation of the tree under test"
    extra["thorough_wall_s"] = round(time.time() - t0, 1)
    return out, extra
