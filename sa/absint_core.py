# PROTOTYPE (scratch): interval + linear-fact abstract interpreter over the MIR facts ("O-engine").
# Goal of the prototype: validate the domain on today's code (obligation discharge / findings), not completeness.
import sys, re, itertools, collections
from .facts import Facts, fmt, short

U64 = (1 << 64) - 1
INF = float("inf")

# ----------------------------------------------------------------------------- linear expressions
class Lin:
    __slots__ = ("c", "t")
    def __init__(self, c=0, t=()):
        self.c = c; self.t = tuple(sorted((a, k) for a, k in t if k != 0))
    @staticmethod
    def atom(a): return Lin(0, ((a, 1),))
    def __add__(s, o):
        d = dict(s.t)
        for a, k in o.t: d[a] = d.get(a, 0) + k
        return Lin(s.c + o.c, d.items())
    def __neg__(s): return Lin(-s.c, ((a, -k) for a, k in s.t))
    def __sub__(s, o): return s + (-o)
    def scale(s, k): return Lin(s.c * k, ((a, c * k) for a, c in s.t))
    def addc(s, k): return Lin(s.c + k, s.t)
    def is_const(s): return not s.t
    def key(s): return (s.c, s.t)
    def __eq__(s, o): return isinstance(o, Lin) and s.key() == o.key()
    def __hash__(s): return hash(s.key())
    def __repr__(s):
        parts = [f"{'' if k == 1 else '-' if k == -1 else str(k) + '*'}a{a}" for a, k in s.t]
        if s.c or not parts: parts.append(str(s.c))
        return " + ".join(parts).replace("+ -", "- ")

_atom_ctr = itertools.count(1)
ATOM_INFO = {}
def new_atom(lo, hi, why=""):
    a = next(_atom_ctr); ATOM_INFO[a] = (lo, hi, why); return a

# ----------------------------------------------------------------------------- values
class IntV:
    """integer / bool value. lin may be None (then lo/hi only). tf/ff: facts (Lin >= 0) implied when value is true / false."""
    def __init__(self, lo, hi, lin=None, tf=(), ff=(), discr_of=None, ne_t=None, ne_f=None):
        self.lo, self.hi, self.lin, self.tf, self.ff, self.discr_of = lo, hi, lin, tuple(tf), tuple(ff), discr_of
        self.ne_t, self.ne_f = ne_t, ne_f   # lin d known to be != 0 when value is true / false
    def __repr__(self): return f"Int[{self.lo},{self.hi}{'; ' + repr(self.lin) if self.lin is not None else ''}]"

class RecV:
    def __init__(self, name, fields): self.name, self.fields = name, dict(fields)
    def __repr__(self): return f"Rec:{short(self.name)}{{{', '.join(f'{k}: {v!r}' for k, v in self.fields.items())}}}"

class EnumV:
    """variants: name -> (RecV|None, facts)"""
    def __init__(self, name, variants): self.name, self.variants = name, dict(variants)
    def __repr__(self): return f"Enum:{short(self.name)}{{{', '.join(self.variants)}}}"

class SeqV:
    def __init__(self, length, elem=None): self.len, self.elem = length, elem
    def __repr__(self): return f"Seq(len={self.len!r})"

class RefV:
    def __init__(self, cell): self.cell = cell  # Cell
    def __repr__(self): return f"&{self.cell!r}"

class TopV:
    def __repr__(self): return "Top"
TOP = TopV()

class Cell:
    """a mutable abstract memory cell (local variable or heap object); identity matters"""
    _ids = itertools.count(1)
    def __init__(self, why=""): self.id = next(Cell._ids); self.why = why
    def __repr__(self): return f"cell{self.id}({self.why})"

# ----------------------------------------------------------------------------- state
class State:
    def __init__(self):
        self.mem = {}      # Cell -> value
        self.bounds = {}   # atom -> (lo, hi) overlay
        self.facts = set() # Lin >= 0
    def copy(self):
        s = State(); s.mem = dict(self.mem); s.bounds = dict(self.bounds); s.facts = set(self.facts); return s
    def bound(self, a):
        lo, hi, _ = ATOM_INFO[a]
        if a in self.bounds:
            l2, h2 = self.bounds[a]; lo, hi = max(lo, l2), min(hi, h2)
        return lo, hi
    def lin_range(self, lin, use_facts=True):
        lo = hi = lin.c
        for a, k in lin.t:
            al, ah = self.bound(a)
            if k > 0: lo += k * al; hi += k * ah
            else: lo += k * ah; hi += k * al
        if use_facts:
            # bounds from facts: g >= 0 and g + e constant  => e <= const ; g - e constant => e >= -const
            for g in self.facts:
                s = g + lin
                if s.is_const(): hi = min(hi, s.c)
                d = g - lin
                if d.is_const(): lo = max(lo, -d.c)
        return lo, hi
    def entails(self, lin):
        """lin >= 0 ?"""
        lo, _ = self.lin_range(lin)
        if lo >= 0: return True
        fs = list(self.facts)
        for g in fs:
            if self.lin_range(lin - g, False)[0] >= 0: return True
            # scaled: cancel a shared atom with a positive multiple of the fact
            gd = dict(g.t)
            for a_, c in lin.t:
                cg = gd.get(a_)
                if cg and c * cg > 0 and c % cg == 0 and c // cg > 1:
                    if self.lin_range(lin - g.scale(c // cg), False)[0] >= 0: return True
        for g, h in itertools.combinations(fs, 2):
            if self.lin_range(lin - g - h, False)[0] >= 0: return True
        if len(fs) <= 14:
            for g, h, i in itertools.combinations(fs, 3):
                if self.lin_range(lin - g - h - i, False)[0] >= 0: return True
        return False
    def assume(self, lin):
        """add fact lin >= 0; refine single-atom bounds. returns False if infeasible"""
        if lin.is_const(): return lin.c >= 0
        self.facts.add(lin)
        if len(lin.t) == 1:
            (a, k), = lin.t
            lo, hi = self.bound(a)
            if k > 0:  # k*a + c >= 0 -> a >= ceil(-c/k)
                lo = max(lo, -(lin.c // k))
            else:      # a <= floor(c/-k)
                hi = min(hi, lin.c // (-k))
            if lo > hi: return False
            self.bounds[a] = (lo, hi)
        lo, hi = self.lin_range(lin)
        return hi >= 0

def int_of(state, v):
    """(lo, hi) of an IntV under state"""
    if v.lin is not None:
        lo, hi = state.lin_range(v.lin)
        return max(lo, v.lo), min(hi, v.hi)
    return v.lo, v.hi

def mk_int(lo, hi, why=""):
    a = new_atom(lo, hi, why); return IntV(lo, hi, Lin.atom(a))

def const_int(c): return IntV(c, c, Lin(c))

def lin_of(state, v):
    if v.lin is not None: return v.lin
    a = new_atom(v.lo, v.hi, "anon"); v.lin = Lin.atom(a); return v.lin

# ----------------------------------------------------------------------------- type-directed defaults
def ty_range(t):
    if t["k"] == "bool": return (0, 1)
    if t["k"] == "int":
        w = t["w"]
        return (-(1 << (w - 1)), (1 << (w - 1)) - 1) if t["s"] else (0, (1 << w) - 1)
    if t["k"] == "char": return (0, 0x10FFFF)
    return None

SEQ_ADTS = ("std::vec::Vec", "bytes::Bytes", "std::collections::VecDeque", "alloc::vec::Vec", "bytes::bytes::Bytes")
MAXLEN = (1 << 63) - 1
ALLOC_MAX = 1 << 32     # element-count bound demanded of a value-sized allocation (the largest legitimate one is a reassembly buffer of 1_000_000 slices * SLICE_SIZE = 1.2e9 bytes)

class Engine:
    def __init__(self, facts, hostile_len=65535, verbose=False):
        self.F = facts; self.obl = []; self.verbose = verbose; self.hostile_len = hostile_len
        self.depth = 0; self.unknown_callees = collections.Counter()

    def default(self, t, why="", depth=0):
        r = ty_range(t)
        if r: return mk_int(r[0], r[1], why)
        k = t["k"]
        if k == "array":
            return SeqV(const_int(t["len"] if t["len"] is not None else 0), self.default(t["of"], why + "[]", depth + 1) if depth < 3 else TOP)
        if k in ("slice", "str"):
            return SeqV(mk_int(0, self.hostile_len, why + ".len"), self.default(t["of"], why + "[]", depth + 1) if k == "slice" and depth < 3 else TOP)
        if k in ("ref", "ptr"):
            c = Cell(why + "*"); self._lazy[c] = (t["to"], why + "*"); return RefV(c)
        if k == "tuple":
            return RecV("tuple", {str(i): self.default(x, f"{why}.{i}", depth + 1) for i, x in enumerate(t["of"])})
        if k == "adt":
            p = t["path"]
            if p in SEQ_ADTS or p.endswith("::Vec") or p.endswith("::Bytes") or p.endswith("::VecDeque"):
                el = t["args"][0] if t["args"] else {"k": "int", "s": False, "w": 8}
                return SeqV(mk_int(0, MAXLEN, why + ".len"), self.default(el, why + "[]", depth + 1) if depth < 3 else TOP)
            if p == "std::option::Option":
                return EnumV(p, {"None": (None, ()), "Some": (RecV("Some", {"0": self.default(t["args"][0], why + ".some", depth + 1) if depth < 4 else TOP}), ())})
            if p == "std::result::Result":
                return EnumV(p, {"Ok": (RecV("Ok", {"0": self.default(t["args"][0], why + ".ok", depth + 1) if depth < 4 else TOP}), ()),
                                 "Err": (RecV("Err", {"0": TOP}), ())})
            if p == "std::ops::Range":
                return RecV(p, {"start": self.default(t["args"][0], why + ".start"), "end": self.default(t["args"][0], why + ".end")})
            a = self.F.adts.get(p)
            if a and depth < 4:
                if a["kind"] == "Struct":
                    return RecV(p, {f["name"]: self.default(f["ty"], f"{why}.{f['name']}", depth + 1) for f in a["variants"][0]["fields"]})
                if a["kind"] == "Enum":
                    return EnumV(p, {v["name"]: (RecV(v["name"], {f["name"]: self.default(f["ty"], f"{why}.{v['name']}.{f['name']}", depth + 1) for f in v["fields"]}), ()) for v in a["variants"]})
        return TOP

    # ---- memory access ------------------------------------------------------
    def read_cell(self, st, c):
        if c not in st.mem:
            if c in self._lazy:
                t, why = self._lazy[c]; st.mem[c] = self.default(t, why)
            else:
                st.mem[c] = TOP
        return st.mem[c]

    def read_place(self, st, fr, place):
        v = self.read_cell(st, fr["cells"][place["local"]])
        for pr in place["proj"]:
            v = self.project(st, v, pr, fr)
        return v

    def project(self, st, v, pr, fr):
        k = pr["k"]
        if k == "deref":
            if isinstance(v, RefV): return self.read_cell(st, v.cell)
            return TOP
        if k == "field":
            name = pr["name"] if pr["name"] is not None else str(pr["i"])
            if isinstance(v, RecV):
                return v.fields.get(name, v.fields.get(str(pr["i"]), TOP))
            return TOP
        if k == "downcast":
            if isinstance(v, EnumV):
                r = v.variants.get(pr["name"])
                return r[0] if r and r[0] is not None else TOP
            return TOP
        if k in ("index", "cindex"):
            if isinstance(v, SeqV): return v.elem if v.elem is not None else TOP
            return TOP
        return TOP

    def write_place(self, st, fr, place, val):
        cell = fr["cells"][place["local"]]
        if not place["proj"]:
            st.mem[cell] = val; return
        root = self.read_cell(st, cell)
        st.mem[cell] = self._write(st, root, place["proj"], val, fr, cell)

    def _write(self, st, v, projs, val, fr, cell):
        if not projs: return val
        pr, rest = projs[0], projs[1:]
        k = pr["k"]
        if k == "deref":
            if isinstance(v, RefV):
                inner = self.read_cell(st, v.cell)
                st.mem[v.cell] = self._write(st, inner, rest, val, fr, v.cell)
            return v
        if k == "field":
            name = pr["name"] if pr["name"] is not None else str(pr["i"])
            if isinstance(v, RecV):
                nv = RecV(v.name, v.fields)
                nv.fields[name] = self._write(st, v.fields.get(name, TOP), rest, val, fr, cell)
                return nv
            return v
        if k == "downcast":
            if isinstance(v, EnumV) and pr["name"] in v.variants and v.variants[pr["name"]][0] is not None:
                r, fx = v.variants[pr["name"]]
                nv = EnumV(v.name, v.variants); nv.variants[pr["name"]] = (self._write(st, r, rest, val, fr, cell), fx); return nv
            return v
        if k in ("index", "cindex"):
            if isinstance(v, SeqV):
                return SeqV(v.len, join_val(st, st, v.elem, self._write(st, v.elem if v.elem is not None else TOP, rest, val, fr, cell)) if v.elem is not None else None)
            return v
        return v

    def operand(self, st, fr, op):
        k = op["k"]
        if k == "const":
            if op["val"] is not None: return const_int(op["val"])
            if op.get("def"): return RecV("fn:" + op["def"], {})
            sname = op.get("s") or ""
            if "::promoted[" in sname and self.depth < 8:
                # a promoted constant (`&(1..=1_000_000)`, `&ConnectionState::Connected`): evaluate its tiny body instead of giving up
                pf = next((g for pk, g in getattr(self.F, "promoted", {}).items() if pk.endswith("::" + sname) or pk == sname), None)
                if pf is not None:
                    try:
                        self.depth += 1
                        rs = self.run(pf, [], st.copy(), fr["stack"])
                    except Exception:
                        rs = []
                    finally:
                        self.depth -= 1
                    if len(rs) == 1:
                        s2, v = rs[0]
                        def imp(x, d=0):
                            if d > 5: return
                            if isinstance(x, RefV):
                                if x.cell in s2.mem:
                                    st.mem[x.cell] = s2.mem[x.cell]; imp(s2.mem[x.cell], d + 1)
                            elif isinstance(x, RecV):
                                for f_ in x.fields.values(): imp(f_, d + 1)
                            elif isinstance(x, EnumV):
                                for rec_, _fx in x.variants.values(): imp(rec_, d + 1)
                        imp(v)
                        return v
            return self.default(op["ty"], "const")
        if k in ("copy", "move"): return self.read_place(st, fr, op["place"])
        return TOP

    # ---- obligations ---------------------------------------------------------
    def oblige(self, st, fr, kind, lin_list, site, descr):
        ok = all(st.entails(l) for l in lin_list)
        f = fr["fn"]
        try:
            if site["k"] == "assert": ops = [fmt(f.origin_of_operand(o)) for o in site["operands"]] or [fmt(f.origin_of_operand(site["cond"]))]
            elif site["k"] == "call": ops = [fmt(f.origin_of_operand(o)) for o in site["args"][:2]]
            else: ops = []
        except Exception:
            ops = []
        okey = " ; ".join(re.sub(r"\s+", " ", o)[:90] for o in ops)
        # is the operation input-dependent (operands derived from hostile bytes)? see sa/taint.py
        tainted = True
        try:
            if not hasattr(self, "_taint"):
                from .taint import Taint
                self._taint = Taint(self.F)
            raw = site["operands"] if site["k"] == "assert" else (site["args"][:3] if site["k"] == "call" else [])
            ck = (f.path, id(site))
            memo = self.__dict__.setdefault("_taint_memo", {})
            if ck in memo: tainted = memo[ck]
            elif raw:
                tainted = memo[ck] = any(self._taint.is_tainted(f, f.origin_of_operand(o)) for o in raw)
        except Exception:
            tainted = True
        self.obl.append(dict(fn=f.path, kind=kind, ok=ok, line=site["span"]["l"][0], file=site["span"]["f"], descr=descr, okey=okey, tainted=tainted,
                             ctx=" <- ".join(fr["stack"][-3:])))
        for l in lin_list: st.assume(l)  # continue as if it held
        return ok

    # ---- rvalues ---------------------------------------------------------------
    def rvalue(self, st, fr, rv, dest_ty=None):
        k = rv["k"]
        if k == "use": return self.operand(st, fr, rv["op"])
        if k == "ref" or k == "rawptr":
            p = rv["place"]
            # reference to a whole local or to *ref: reuse cell; to a sub-place: make a view cell (copy semantics, prototype limitation) unless it is a field chain on a cell -> alias via subcell
            if not p["proj"]: return RefV(fr["cells"][p["local"]])
            if len(p["proj"]) == 1 and p["proj"][0]["k"] == "deref":
                v = self.read_cell(st, fr["cells"][p["local"]])
                return v if isinstance(v, RefV) else TOP
            return RefV(self.subcell(st, fr, p))
        if k == "cast":
            v = self.operand(st, fr, rv["op"]); ck = rv["ck"]
            if ck.startswith("IntToInt"):
                r = ty_range(rv["ty"])
                if isinstance(v, IntV) and r:
                    lo, hi = int_of(st, v)
                    if lo >= r[0] and hi <= r[1]: return IntV(max(v.lo, r[0]), min(v.hi, r[1]), v.lin)
                    return mk_int(r[0], r[1], "trunc")
                return self.default(rv["ty"], "cast")
            if ck.startswith("PointerCoercion") and isinstance(v, RefV): return v
            if ck in ("Transmute", "PtrToPtr"): return v
            return self.default(rv["ty"], "cast")
        if k == "bin": return self.binop(st, fr, rv["op"], self.operand(st, fr, rv["a"]), self.operand(st, fr, rv["b"]))
        if k == "un":
            a = self.operand(st, fr, rv["a"])
            if rv["op"] == "Not" and isinstance(a, IntV) and (a.lo, a.hi) in ((0, 1), (0, 0), (1, 1)):
                return IntV(1 - a.hi, 1 - a.lo, None, a.ff, a.tf, ne_t=a.ne_f, ne_f=a.ne_t)
            if rv["op"] == "PtrMetadata":
                t = a
                if isinstance(t, RefV): t = self.read_cell(st, t.cell)
                if isinstance(t, SeqV): return t.len
                return mk_int(0, MAXLEN, "ptrmeta")
            return TOP
        if k == "discr":
            v = self.read_place(st, fr, rv["place"])
            return IntV(0, 255, None, discr_of=(rv["place"], v))
        if k == "aggr":
            fs = [self.operand(st, fr, f) for f in rv["fields"]]
            ak = rv["ak"]
            if ak == "tuple": return RecV("tuple", {str(i): f for i, f in enumerate(fs)})
            if ak == "array": return SeqV(const_int(len(fs)), join_many(st, fs) if fs else None)
            if ak == "adt":
                rec = RecV(rv["path"] if not self.is_enum(rv["path"]) else rv["vname"], dict(zip(rv["fnames"], fs)))
                if self.is_enum(rv["path"]): return EnumV(rv["path"], {rv["vname"]: (rec, ())})
                return rec
            if ak == "closure": return RecV("closure:" + rv["path"], {str(i): f for i, f in enumerate(fs)})
            return TOP
        if k == "repeat":
            return SeqV(const_int(rv["n"]) if rv["n"] is not None else mk_int(0, MAXLEN, "generic-len"), self.operand(st, fr, rv["op"]))
        return TOP

    def is_enum(self, path):
        if path in ("std::option::Option", "std::result::Result", "std::ops::ControlFlow"): return True
        a = self.F.adts.get(path); return bool(a and a["kind"] == "Enum")

    def subcell(self, st, fr, place):
        """cell aliasing a sub-place: we materialise a cell holding the current value and remember the write-back path"""
        c = Cell("view")
        st.mem[c] = self.read_place(st, fr, place)
        fr["views"].append((c, place))
        return c

    def sync_views(self, st, fr):
        """write back view cells into their origin places (call after a callee may have mutated through the reference)"""
        for c, place in fr["views"]:
            if c in st.mem: self.write_place(st, fr, place, st.mem[c])

    def binop(self, st, fr, op, a, b):
        if not (isinstance(a, IntV) and isinstance(b, IntV)):
            if op in ("Eq", "Ne", "Lt", "Le", "Gt", "Ge"): return IntV(0, 1)
            return TOP
        base = op.replace("WithOverflow", "").replace("Unchecked", "")
        alo, ahi = int_of(st, a); blo, bhi = int_of(st, b)
        res = None
        if base in ("Add", "Sub"):
            la, lb = lin_of(st, a), lin_of(st, b)
            l = la + lb if base == "Add" else la - lb
            lo, hi = (alo + blo, ahi + bhi) if base == "Add" else (alo - bhi, ahi - blo)
            res = IntV(lo, hi, l)
        elif base == "Mul":
            if b.lin is not None and b.lin.is_const(): res = IntV(min(alo * blo, ahi * blo), max(alo * bhi, ahi * bhi), lin_of(st, a).scale(b.lin.c))
            elif a.lin is not None and a.lin.is_const(): res = IntV(min(alo * blo, alo * bhi), max(ahi * blo, ahi * bhi), lin_of(st, b).scale(a.lin.c))
            else:
                cs = [alo * blo, alo * bhi, ahi * blo, ahi * bhi]; res = mk_int(min(cs), max(cs), "mul")
        elif base in ("Div", "Rem", "Shr", "Shl", "BitAnd", "BitOr", "BitXor"):
            if base == "Rem" and blo == bhi and blo > 0 and alo >= 0: res = mk_int(0, min(ahi, blo - 1), "rem")
            elif base == "Div" and blo == bhi and blo > 0 and alo >= 0: res = mk_int(alo // blo, ahi // blo, "div")
            elif base == "Shr" and blo == bhi and alo >= 0: res = mk_int(alo >> blo, ahi >> blo, "shr")
            elif base == "Shl" and blo == bhi and alo >= 0: res = mk_int(alo << blo, ahi << blo, "shl")
            elif base == "BitAnd" and alo >= 0 and blo >= 0: res = mk_int(0, min(ahi, bhi), "and")
            elif base in ("BitOr", "BitXor") and alo >= 0 and blo >= 0:
                m = max(ahi, bhi); bits = m.bit_length(); res = mk_int(0, (1 << bits) - 1, "or")
            else: res = mk_int(-(1 << 127), 1 << 127, "bitop")
        elif base in ("Eq", "Ne", "Lt", "Le", "Gt", "Ge"):
            la, lb = lin_of(st, a), lin_of(st, b)
            d = la - lb  # a - b
            T = {"Lt": [(-d).addc(-1)], "Le": [-d], "Gt": [d.addc(-1)], "Ge": [d], "Eq": [d, -d], "Ne": []}[base]
            Fx = {"Lt": [d], "Le": [d.addc(-1)], "Gt": [-d], "Ge": [(-d).addc(-1)], "Eq": [], "Ne": [d, -d]}[base]
            lo, hi = 0, 1
            if T and all(st.entails(x) for x in T): lo = 1
            if Fx and all(st.entails(x) for x in Fx): hi = 0
            if base == "Eq" and (st.entails(d.addc(-1)) or st.entails((-d).addc(-1))): hi = 0
            if base == "Ne" and (st.entails(d.addc(-1)) or st.entails((-d).addc(-1))): lo = 1
            return IntV(lo, hi, None, T, Fx, ne_t=d if base == "Ne" else None, ne_f=d if base == "Eq" else None)
        if "WithOverflow" in op:
            return RecV("tuple", {"0": res, "1": IntV(0, 1)})
        return res

    # ---- running a function -----------------------------------------------------
    def run(self, fn, args, st, stack=()):
        """analyse fn with argument values on state st; returns list of (state, return value)"""
        self._lazy = getattr(self, "_lazy", {})
        fr = dict(fn=fn, cells={}, views=[], stack=list(stack) + [short(fn.path)])
        for l in fn.locals:
            fr["cells"][l["i"]] = Cell(f"{short(fn.path)}#{l['i']}")
        for i, v in enumerate(args):
            st.mem[fr["cells"][i + 1]] = v
        K = 4
        states = {0: [st]}
        visits = collections.Counter()
        work = [0]
        outs = []
        backedge_targets = {b for a in fn.reach for b in fn.succ[a] if fn.dominates(b, a)}
        rpo = getattr(fn, "_rpo", None)
        if rpo is None:
            # reverse postorder of the CFG: a block is scheduled after its forward predecessors whatever its index is (blocks added by the
            # CFG normalisations - inlined helpers, threaded chains, duplicated tails - sit at the end of the block list)
            order, seen, stack = [], set(), [(0, iter(fn.succ[0]))]
            seen.add(0)
            while stack:
                b_, it = stack[-1]
                nxt = next((x for x in it if x not in seen), None)
                if nxt is None: order.append(b_); stack.pop()
                else: seen.add(nxt); stack.append((nxt, iter(fn.succ[nxt])))
            rpo = {b_: i_ for i_, b_ in enumerate(reversed(order))}
            fn._rpo = rpo
        while work:
            work.sort(key=lambda b_: rpo.get(b_, 10 ** 9))
            bb = work.pop(0)
            cur = states.pop(bb, [])
            if not cur: continue
            visits[bb] += 1
            if visits[bb] > 60:
                self.note(f"giving up on {fn.path} bb{bb}"); continue
            if len(cur) > K or bb in backedge_targets:
                j = cur[0]
                lh = bb in backedge_targets
                for o in cur[1:]: j = join_state(self, fr, j, o, widen=visits[bb] > 3, loop_head=lh)
                if lh:
                    j = gc_state(j)
                    prev = fr.setdefault("head", {}).get(bb)
                    if prev is not None:
                        j2 = gc_state(join_state(self, fr, prev, j, widen=visits[bb] > 3, loop_head=True))
                        if state_le(self, fr, j2, prev): continue
                        j = j2
                    fr["head"][bb] = j.copy()
                cur = [j]
            for s in cur:
                for tgt, ns in self.block(fn, fr, bb, s, outs):
                    states.setdefault(tgt, []).append(ns)
                    if tgt not in work: work.append(tgt)
        return outs

    def note(self, msg):
        if self.verbose: print("   note:", msg)

    def block(self, fn, fr, bb, st, outs):
        b = fn.blocks[bb]
        st = st.copy()
        for s in b["stmts"]:
            if s["k"] == "assign":
                self.write_place(st, fr, s["place"], self.rvalue(st, fr, s["rv"]))
        t = b["term"]; k = t["k"]
        if k == "goto": return [(t["target"], st)]
        if k == "return":
            outs.append((st, self.read_cell(st, fr["cells"][0]))); return []
        if k == "drop": return [(t["target"], st)]
        if k == "assert":
            self.do_assert(st, fr, t); return [(t["target"], st)]
        if k == "switch": return self.do_switch(st, fr, t)
        if k == "call": return self.do_call(fn, st, fr, t, outs)
        return []

    def do_assert(self, st, fr, t):
        kind = t["kind"]; ops = [self.operand(st, fr, o) for o in t["operands"]]
        if kind.startswith("other:MisalignedPointerDereference") or kind.startswith("other:NullPointerDereference"):
            return  # debug-build checks the compiler inserts for references it derived itself (Box deref lowering)
        if kind.startswith("overflow:") and len(ops) == 2 and all(isinstance(o, IntV) for o in ops):
            op = kind.split(":")[1]
            # result type range: from the operand a's static type is not in facts; infer from cond tuple's owner: use unsigned 64 unless operand ranges negative
            a, b = ops
            la, lb = lin_of(st, a), lin_of(st, b)
            rng = self.assert_range(fr, t)
            if op == "Add": lins = [Lin(rng[1]) - la - lb, la + lb - Lin(rng[0])] if rng[0] < 0 else [Lin(rng[1]) - la - lb]
            elif op == "Sub": lins = [la - lb - Lin(rng[0])] + ([Lin(rng[1]) - la + lb] if rng[0] < 0 else [])
            elif op == "Mul":
                if lb.is_const(): lins = [Lin(rng[1]) - la.scale(lb.c)]
                elif la.is_const(): lins = [Lin(rng[1]) - lb.scale(la.c)]
                else:
                    alo, ahi = int_of(st, a); blo, bhi = int_of(st, b)
                    lins = [Lin(rng[1] - ahi * bhi)]
            elif op in ("Shl", "Shr"):
                bits = (rng[1] + 1).bit_length() - 1 if rng[0] == 0 else (rng[1] + 1).bit_length()
                lins = [Lin(bits - 1) - lb, lb]
            else: lins = [Lin(-1)]
            self.oblige(st, fr, kind, lins, t, f"{a!r} {op} {b!r} within [{rng[0]},{rng[1]}]")
        elif kind == "bounds" and len(ops) == 2 and all(isinstance(o, IntV) for o in ops):
            ln, idx = ops
            self.oblige(st, fr, kind, [lin_of(st, ln) - lin_of(st, idx) - Lin(1)], t, f"index {idx!r} < len {ln!r}")
        else:
            c = self.operand(st, fr, t["cond"])
            ok = isinstance(c, IntV) and int_of(st, c) == ((1, 1) if t["expected"] else (0, 0))
            self.oblige(st, fr, kind, [Lin(0)] if ok else [Lin(-1)], t, f"assert cond {c!r} == {t['expected']}")
            if isinstance(c, IntV):
                for f in (c.tf if t["expected"] else c.ff): st.assume(f)

    def assert_range(self, fr, t):
        # type of the checked arithmetic = type of the first operand place/const
        o = t["operands"][0]
        ty = o["ty"] if o["k"] == "const" else self.place_ty(fr, o["place"])
        r = ty_range(ty) if ty else None
        return r or (0, U64)

    def place_ty(self, fr, place):
        t = fr["fn"].locals[place["local"]]["ty"]
        for pr in place["proj"]:
            if pr["k"] == "deref": t = t.get("to", {})
            elif pr["k"] == "field":
                if t.get("k") == "tuple": t = t["of"][pr["i"]]
                elif t.get("k") == "adt":
                    a = self.F.adts.get(t["path"])
                    if a:
                        fs = a["variants"][0]["fields"]
                        t = fs[pr["i"]]["ty"] if pr["i"] < len(fs) else {}
                    else: return None
                else: return None
            else: return None
        return t

    def do_switch(self, st, fr, t):
        v = self.operand(st, fr, t["on"])
        outs = []
        vals = [x for x, _ in t["targets"]]
        if isinstance(v, IntV) and v.discr_of is not None:
            place, ev = v.discr_of
            ev = self.read_place(st, fr, place)
            if isinstance(ev, EnumV):
                names = self.variant_names(ev.name)
                for x, tgt in t["targets"]:
                    nm = names.get(x)
                    if nm in ev.variants:
                        ns = st.copy(); rec, fx = ev.variants[nm]
                        if all(ns.assume(f) for f in fx):
                            self.write_place(ns, fr, place, EnumV(ev.name, {nm: (rec, ())})); outs.append((tgt, ns))
                rest = {n: r for n, r in ev.variants.items() if n not in [names.get(x) for x in vals]}
                if rest:
                    ns = st.copy(); self.write_place(ns, fr, place, EnumV(ev.name, rest)); outs.append((t["otherwise"], ns))
                return outs
            return [(tgt, st.copy()) for _, tgt in t["targets"]] + [(t["otherwise"], st.copy())]
        if isinstance(v, IntV):
            lo, hi = int_of(st, v)
            if (v.tf or v.ff) or (v.lo, v.hi) in ((0, 1), (0, 0), (1, 1)) and vals == [0]:
                # boolean: value 0 -> false edge, otherwise -> true edge
                def ne_refine(ns, d):
                    if d is None: return True
                    dlo, dhi = ns.lin_range(d)
                    if dlo == 0: return ns.assume(d.addc(-1))
                    if dhi == 0: return ns.assume((-d).addc(-1))
                    return True
                for x, tgt in t["targets"]:
                    if x == 0 and lo <= 0:
                        ns = st.copy()
                        if all(ns.assume(f) for f in v.ff) and ne_refine(ns, v.ne_f): outs.append((tgt, ns))
                if hi >= 1:
                    ns = st.copy()
                    if all(ns.assume(f) for f in v.tf) and ne_refine(ns, v.ne_t): outs.append((t["otherwise"], ns))
                return outs
            l = lin_of(st, v)
            for x, tgt in t["targets"]:
                if lo <= x <= hi:
                    ns = st.copy()
                    if ns.assume(l - Lin(x)) and ns.assume(Lin(x) - l): outs.append((tgt, ns))
            ns = st.copy()
            # trim bounds for the otherwise edge when listed values sit at the ends
            ok = True
            while vals and lo in vals: lo += 1
            while vals and hi in vals: hi -= 1
            if lo <= hi:
                ns.assume(l - Lin(lo)); ns.assume(Lin(hi) - l); outs.append((t["otherwise"], ns))
            return outs
        return [(tgt, st.copy()) for _, tgt in t["targets"]] + [(t["otherwise"], st.copy())]

    def variant_names(self, path):
        if path == "std::option::Option": return {0: "None", 1: "Some"}
        if path == "std::result::Result": return {0: "Ok", 1: "Err"}
        if path == "std::ops::ControlFlow": return {0: "Continue", 1: "Break"}
        a = self.F.adts.get(path)
        return {v["discr"]: v["name"] for v in a["variants"]} if a else {}

    # ---- calls ----------------------------------------------------------------------
    def do_call(self, fn, st, fr, t, outs):
        name = t.get("resolved") or t.get("callee") or "indirect"
        args = [self.operand(st, fr, a) for a in t["args"]]
        if t["target"] is None:
            if is_panic(name): self.oblige(st, fr, "panic", [Lin(-1)], t, f"explicit panic {short(name)} reachable")
            return []
        callee = self.F.fns.get(name)
        results = []
        if callee is not None and self.depth < 8:
            self.depth += 1
            rs = self.run(callee, args, st.copy(), fr["stack"])
            self.depth -= 1
            if rs:
                # join callee exits into one state (prototype: k=1 at call boundaries)
                js, jv = rs[0]
                for s2, v2 in rs[1:]:
                    jv = join_val(js, s2, jv, v2); js = join_state(self, None, js, s2)
                results = [(js, jv)]
            else:
                return []
            dty = self.place_ty(fr, t["dest"])
            results = [(s_, coerce_to_type(v_, dty)) for s_, v_ in results]
        else:
            results = self.contract(name, st, fr, t, args)
        outl = []
        for s2, v in results:
            self.sync_views(s2, fr)
            self.write_place(s2, fr, t["dest"], v)
            outl.append((t["target"], s2))
        return outl

    def contract(self, name, st, fr, t, args):
        n = re.sub(r"::<[^:]*?>", "", name)
        def deref(v):
            while isinstance(v, RefV): v = self.read_cell(st, v.cell)
            return v
        a0 = deref(args[0]) if args else None
        dest_ty = self.place_ty(fr, t["dest"])
        # --- Try / FromResidual / conversions
        if n.endswith("as std::ops::Try>::branch"):
            v = args[0]
            if isinstance(v, EnumV):
                var = {}
                if "Ok" in v.variants: var["Continue"] = (RecV("Continue", {"0": v.variants["Ok"][0].fields.get("0", TOP)}), v.variants["Ok"][1])
                if "Err" in v.variants: var["Break"] = (RecV("Break", {"0": EnumV("std::result::Result", {"Err": v.variants["Err"]})}), v.variants["Err"][1])
                if "Some" in v.variants: var["Continue"] = (RecV("Continue", {"0": v.variants["Some"][0].fields.get("0", TOP)}), v.variants["Some"][1])
                if "None" in v.variants: var["Break"] = (RecV("Break", {"0": EnumV("std::option::Option", {"None": (None, ())})}), v.variants["None"][1])
                return [(st, EnumV("std::ops::ControlFlow", var))]
            return [(st, EnumV("std::ops::ControlFlow", {"Continue": (RecV("Continue", {"0": TOP}), ()), "Break": (RecV("Break", {"0": TOP}), ())}))]
        if "FromResidual" in n and n.endswith("::from_residual"):
            if dest_ty and dest_ty.get("path") == "std::option::Option": return [(st, EnumV("std::option::Option", {"None": (None, ())}))]
            return [(st, EnumV("std::result::Result", {"Err": (RecV("Err", {"0": TOP}), ())}))]
        # --- value-preserving adaptors of Option / Result (the payload and what is known about it travel on)
        ma = re.search(r"(?:option::Option|result::Result)(?:<.*>)?::(ok|ok_or|ok_or_else|map_err|filter|and_then|map|or_else|inspect|inspect_err|copied|cloned)$", re.sub(r"::<[^()]*>$", "", n))     # (method generics such as `ok_or::<E>` dropped)
        if ma and isinstance(args[0] if args else None, EnumV) and args[0].name in ("std::option::Option", "std::result::Result"):
            meth = ma.group(1); v = args[0]
            some_k = "Some" if v.name == "std::option::Option" else "Ok"
            none_k = "None" if v.name == "std::option::Option" else "Err"
            def payload(var): return var[0].fields.get("0", TOP) if var[0] is not None else TOP
            def run_closure(argv):
                """(state, value) of the closure given as args[1] applied to argv, or None"""
                a1 = t["args"][1] if len(t["args"]) > 1 else None
                cty = fr["fn"].locals[a1["place"]["local"]]["ty"] if a1 and a1["k"] in ("copy", "move") and not a1["place"]["proj"] else None
                cf = self.F.fns.get(cty.get("path")) if isinstance(cty, dict) and cty.get("k") == "closure" else None
                if cf is None or self.depth >= 8: return None
                self.depth += 1
                try: rs = self.run(cf, [args[1]] + argv, st.copy(), fr["stack"])
                finally: self.depth -= 1
                if not rs: return None
                js, jv = rs[0]
                for s2, v2 in rs[1:]:
                    jv = join_val(js, s2, jv, v2); js = join_state(self, None, js, s2)
                return js, jv
            if meth == "ok" and v.name == "std::result::Result":
                var = {}
                if "Ok" in v.variants: var["Some"] = (RecV("Some", {"0": payload(v.variants["Ok"])}), v.variants["Ok"][1])
                if "Err" in v.variants: var["None"] = (None, v.variants["Err"][1])
                return [(st, EnumV("std::option::Option", var))]
            if meth in ("ok_or", "ok_or_else") and v.name == "std::option::Option":
                var = {}
                if "Some" in v.variants: var["Ok"] = (RecV("Ok", {"0": payload(v.variants["Some"])}), v.variants["Some"][1])
                if "None" in v.variants: var["Err"] = (RecV("Err", {"0": TOP}), v.variants["None"][1])
                return [(st, EnumV("std::result::Result", var))]
            if meth == "map_err" and v.name == "std::result::Result":
                var = {}
                if "Ok" in v.variants: var["Ok"] = v.variants["Ok"]
                if "Err" in v.variants: var["Err"] = (RecV("Err", {"0": TOP}), v.variants["Err"][1])
                return [(st, EnumV("std::result::Result", var))]
            if meth == "filter" and v.name == "std::option::Option":
                var = dict(v.variants); var.setdefault("None", (None, ()))
                return [(st, EnumV("std::option::Option", var))]
            if meth in ("inspect", "inspect_err", "copied", "cloned"):
                return [(st, v)]
            if meth in ("and_then", "map") and some_k not in v.variants:
                # nothing to apply the closure to: None stays None, Err stays Err
                return [(st, EnumV(v.name, {none_k: v.variants[none_k] if v.name == "std::option::Option" else (RecV("Err", {"0": TOP}), v.variants[none_k][1])}))] if none_k in v.variants else [(st, v)]
            if meth in ("and_then", "map") and some_k in v.variants:
                r_ = run_closure([payload(v.variants[some_k])])
                if r_ is not None:
                    js, jv = r_
                    if meth == "map":
                        var = {some_k: (RecV(some_k, {"0": jv}), v.variants[some_k][1])}
                        if none_k in v.variants: var[none_k] = v.variants[none_k] if v.name == "std::option::Option" else (RecV("Err", {"0": TOP}), v.variants[none_k][1])
                        return [(js, EnumV(v.name, var))]
                    if isinstance(jv, EnumV) and jv.name == v.name:
                        var = dict(jv.variants)
                        if none_k in v.variants and none_k not in var: var[none_k] = v.variants[none_k] if v.name == "std::option::Option" else (RecV("Err", {"0": TOP}), v.variants[none_k][1])
                        return [(js, EnumV(v.name, var))]
        # --- lengths / emptiness
        if re.search(r"(::len|ExactSizeIterator>::len)$", n) and isinstance(a0, SeqV): return [(st, a0.len)]
        if n.endswith("::is_empty") and isinstance(a0, SeqV):
            l = lin_of(st, a0.len); return [(st, self.boolv(st, [-l], [l.addc(-1)]))]
        if n.endswith("Range<Idx>::is_empty") or n.endswith("Range::is_empty"):
            if isinstance(a0, RecV):
                s, e = lin_of(st, a0.fields["start"]), lin_of(st, a0.fields["end"]); return [(st, self.boolv(st, [s - e], [(e - s).addc(-1)]))]
        # --- octets
        if n.endswith("Octets::with_slice") or n.endswith("OctetsMut::with_slice"):
            return [(st, RecV("octets", {"rem": a0.len if isinstance(a0, SeqV) else mk_int(0, self.hostile_len)}))]
        m = re.search(r"Octets(Mut)?::get_(u8|u16|u24|u32|u64|varint)$", n)
        if m:
            hi = {"u8": 255, "u16": 65535, "u24": (1 << 24) - 1, "u32": (1 << 32) - 1, "u64": U64, "varint": (1 << 62) - 1}[m.group(2)]
            return [(st, EnumV("std::result::Result", {"Ok": (RecV("Ok", {"0": mk_int(0, hi, "wire")}), ()), "Err": (RecV("Err", {"0": TOP}), ())}))]
        if re.search(r"Octets(Mut)?::get_bytes_with_varint_length$", n):
            return [(st, EnumV("std::result::Result", {"Ok": (RecV("Ok", {"0": RecV("octets", {"rem": mk_int(0, self.hostile_len, "wire.len")})}), ()), "Err": (RecV("Err", {"0": TOP}), ())}))]
        if re.search(r"Octets(Mut)?::to_vec$", n) and isinstance(a0, RecV): return [(st, SeqV(a0.fields.get("rem", mk_int(0, self.hostile_len)), mk_int(0, 255)))]
        if re.search(r"Octets(Mut)?::(len|cap)$", n) and isinstance(a0, RecV): return [(st, a0.fields.get("rem", mk_int(0, self.hostile_len)))]
        if re.search(r"Octets(Mut)?::is_empty$", n): return [(st, IntV(0, 1))]
        # --- Into / From / clone / deref: identity-ish
        if re.search(r"(as std::convert::Into<.*>>::into|as std::convert::From<.*>>::from|as std::clone::Clone>::clone|as std::ops::Deref>::deref|as std::ops::DerefMut>::deref_mut|::to_vec|::as_slice|::as_ref)$", n):
            v = a0 if n.endswith("clone") or "Deref" in n else args[0]
            if "Deref" in n: return [(st, args[0] if isinstance(deref(args[0]), SeqV) else RefV(self.tmpcell(st, deref(args[0]))))]
            if isinstance(deref(v), (SeqV, IntV, RecV, EnumV)): return [(st, deref(v))]
        # --- indexing
        if re.search(r"(Index|IndexMut)<.*>.*::(index|index_mut)$", n) or re.search(r"::(index|index_mut)$", n):
            seq, idx = a0, args[1]
            if isinstance(seq, SeqV):
                L = lin_of(st, seq.len)
                if isinstance(idx, IntV):
                    self.oblige(st, fr, "index", [L - lin_of(st, idx) - Lin(1)], t, f"{short(name)}: index {idx!r} < len {seq.len!r}")
                    return [(st, RefV(self.tmpcell(st, seq.elem if seq.elem is not None else TOP)))]
                if isinstance(idx, RecV) and "start" in idx.fields and "end" in idx.fields:
                    s, e = lin_of(st, idx.fields["start"]), lin_of(st, idx.fields["end"])
                    self.oblige(st, fr, "slice-range", [e - s, L - e], t, f"{short(name)}: range {idx.fields['start']!r}..{idx.fields['end']!r} within len {seq.len!r}")
                    return [(st, RefV(self.tmpcell(st, SeqV(IntV(0, MAXLEN, e - s), seq.elem))))]
                if isinstance(idx, RecV) and "start" in idx.fields:
                    s = lin_of(st, idx.fields["start"])
                    self.oblige(st, fr, "slice-range", [L - s], t, f"{short(name)}: range {idx.fields['start']!r}.. within len {seq.len!r}")
                    return [(st, RefV(self.tmpcell(st, SeqV(IntV(0, MAXLEN, L - s), seq.elem))))]
                if isinstance(idx, RecV) and not idx.fields and ("RangeFull" in idx.name or idx.name == "std::ops::RangeFull"):
                    return [(st, RefV(self.tmpcell(st, seq)))]
                if isinstance(idx, RecV) and "end" in idx.fields:
                    e = lin_of(st, idx.fields["end"])
                    self.oblige(st, fr, "slice-range", [L - e], t, f"{short(name)}: range ..{idx.fields['end']!r} within len {seq.len!r}")
                    return [(st, RefV(self.tmpcell(st, SeqV(IntV(0, MAXLEN, e), seq.elem))))]
            self.oblige(st, fr, "index", [Lin(-1)], t, f"{short(name)}: unmodelled index on {a0!r}")
            return [(st, RefV(self.tmpcell(st, TOP)))]
        if n.endswith("::split_at_mut") or n.endswith("::split_at"):
            if isinstance(a0, SeqV) and isinstance(args[1], IntV):
                L, m_ = lin_of(st, a0.len), lin_of(st, args[1])
                self.oblige(st, fr, "split_at", [L - m_, m_], t, f"split_at: mid {args[1]!r} <= len {a0.len!r}")
                return [(st, RecV("tuple", {"0": RefV(self.tmpcell(st, SeqV(IntV(0, MAXLEN, m_), a0.elem))), "1": RefV(self.tmpcell(st, SeqV(IntV(0, MAXLEN, L - m_), a0.elem)))}))]
        if n.endswith("::copy_from_slice"):
            b = deref(args[1])
            if isinstance(a0, SeqV) and isinstance(b, SeqV):
                la, lb = lin_of(st, a0.len), lin_of(st, b.len)
                self.oblige(st, fr, "copy_from_slice", [la - lb, lb - la], t, f"copy_from_slice: dst len {a0.len!r} == src len {b.len!r}")
            else: self.oblige(st, fr, "copy_from_slice", [Lin(-1)], t, "copy_from_slice: unmodelled")
            return [(st, RecV("tuple", {}))]
        # --- option / result partial
        if re.search(r"(Option|Result)<.*>::(unwrap|expect)$", n) or n.endswith("::unwrap") or n.endswith("::expect"):
            v = args[0]
            if isinstance(v, EnumV):
                good = [k for k in ("Some", "Ok") if k in v.variants]
                bad = [k for k in ("None", "Err") if k in v.variants]
                self.oblige(st, fr, "unwrap", [Lin(0)] if not bad else [Lin(-1)], t, f"{short(name)} on {v!r}")
                if good: return [(st, v.variants[good[0]][0].fields.get("0", TOP))]
                return []
            self.oblige(st, fr, "unwrap", [Lin(-1)], t, f"{short(name)} on unmodelled value"); return [(st, self.default(dest_ty, "unwrap") if dest_ty else TOP)]
        # --- integer helpers
        if n.endswith("::from_le_bytes") or n.endswith("::from_be_bytes"): return [(st, self.default(dest_ty, "from_bytes"))]
        if n.endswith("::to_le_bytes") or n.endswith("::to_be_bytes"): return [(st, self.default(dest_ty, "to_bytes"))]
        if n.endswith("varint_len"):
            if isinstance(args[0], IntV):
                self.oblige(st, fr, "varint_len", [Lin((1 << 62) - 1) - lin_of(st, args[0])], t, f"varint_len arg {args[0]!r} <= 2^62-1")
            return [(st, mk_int(1, 8, "varint_len"))]
        # --- io::Cursor
        if n.endswith("Cursor<T>::new") or n.endswith("Cursor::new"):
            return [(st, RecV("cursor", {"inner": args[0], "pos": const_int(0)}))]
        if n.endswith("::set_position") and isinstance(a0, RecV) and a0.name == "cursor" and isinstance(args[0], RefV):
            nv = RecV("cursor", dict(a0.fields)); nv.fields["pos"] = args[1]; st.mem[args[0].cell] = nv; return [(st, RecV("tuple", {}))]
        if n.endswith("::position") and isinstance(a0, RecV) and a0.name == "cursor": return [(st, a0.fields["pos"])]
        if (n.endswith("Read>::read_exact") or n.endswith("::read_exact")) and isinstance(a0, RecV) and a0.name == "cursor" and isinstance(args[0], RefV):
            buf = deref(args[1])
            if isinstance(buf, SeqV) and isinstance(a0.fields["pos"], IntV):
                nv = RecV("cursor", dict(a0.fields)); p0 = a0.fields["pos"]
                nv.fields["pos"] = IntV(p0.lo, p0.hi + int_of(st, buf.len)[1], lin_of(st, p0) + lin_of(st, buf.len))
                st.mem[args[0].cell] = nv
            return [(st, EnumV("std::result::Result", {"Ok": (RecV("Ok", {"0": RecV("tuple", {})}), ()), "Err": (RecV("Err", {"0": TOP}), ())}))]
        # --- read_exact & io
        if n.endswith("Read>::read_exact") or n.endswith("::read_exact"):
            return [(st, EnumV("std::result::Result", {"Ok": (RecV("Ok", {"0": RecV("tuple", {})}), ()), "Err": (RecV("Err", {"0": TOP}), ())}))]
        # --- Range iteration
        if n.endswith("as std::iter::IntoIterator>::into_iter") or n.endswith("::iter") or n.endswith("::iter_mut"):
            return [(st, args[0] if not isinstance(a0, SeqV) else RecV("seqiter", {"seq": a0}))]
        if n.endswith("as std::iter::Iterator>::next") or re.search(r"impl std::iter::Iterator for [^>]*>+::next$", n) or n.endswith("Iterator>::next"):
            it = a0
            if isinstance(it, RecV) and "start" in it.fields and "end" in it.fields and isinstance(args[0], RefV):
                s, e = it.fields["start"], it.fields["end"]
                ls, le = lin_of(st, s), lin_of(st, e)
                lo, hi = int_of(st, s)
                nxt = RecV(it.name, dict(it.fields)); nxt.fields["start"] = IntV(s.lo, s.hi + 1, ls.addc(1))
                st.mem[args[0].cell] = nxt  # both edges see the advanced iterator; facts are per variant
                return [(st, EnumV("std::option::Option", {"None": (None, (ls - le,)), "Some": (RecV("Some", {"0": IntV(s.lo, s.hi, ls)}), ((le - ls).addc(-1),))}))]
            if isinstance(it, RecV) and "seq" in it.fields:
                el = it.fields["seq"].elem
                return [(st, EnumV("std::option::Option", {"None": (None, ()), "Some": (RecV("Some", {"0": el if el is not None else TOP}), ())}))]
        # --- log / fmt are irrelevant
        if re.search(r"^(log::|core::fmt|std::fmt|<log::|<.* as std::cmp::Partial(Ord|Eq)<log::)", n) or "fmt::rt::Argument" in n or "fmt::Arguments" in n or "log::" in n:
            return [(st, self.default(dest_ty, "log") if dest_ty else TOP)]
        self.unknown_callees[n] += 1
        return [(st, self.default(dest_ty, "ret:" + short(n)) if dest_ty else TOP)]

    def boolv(self, st, tf, ff):
        lo, hi = 0, 1
        if tf and all(st.entails(x) for x in tf): lo = 1
        if ff and all(st.entails(x) for x in ff): hi = 0
        return IntV(lo, hi, None, tf, ff)

    def tmpcell(self, st, v):
        c = Cell("tmp"); st.mem[c] = v; return c


def coerce_to_type(v, ty, depth=0):
    """fix up lengths of arrays whose size was a const generic inside the callee"""
    if not ty or depth > 4: return v
    if ty.get("k") == "array" and isinstance(v, SeqV) and ty.get("len") is not None:
        lo, hi = (v.len.lo, v.len.hi) if isinstance(v.len, IntV) else (None, None)
        if (lo, hi) != (ty["len"], ty["len"]): return SeqV(const_int(ty["len"]), v.elem)
        return v
    if ty.get("k") == "adt" and isinstance(v, EnumV) and ty["path"] in ("std::result::Result", "std::option::Option") and ty.get("args"):
        key = "Ok" if ty["path"].endswith("Result") else "Some"
        if key in v.variants and v.variants[key][0] is not None:
            rec, fx = v.variants[key]
            nv = EnumV(v.name, v.variants); nv.variants[key] = (RecV(rec.name, {**rec.fields, "0": coerce_to_type(rec.fields.get("0", TOP), ty["args"][0], depth + 1)}), fx)
            return nv
    return v


def is_panic(name):
    return name.startswith(("core::panicking::", "std::rt::panic", "core::option::unwrap_failed", "core::option::expect_failed", "core::result::unwrap_failed"))

# ----------------------------------------------------------------------------- joins
def join_val(sa, sb, a, b, widen=False):
    if a is b: return a
    if isinstance(a, IntV) and isinstance(b, IntV):
        if a.lin is not None and b.lin is not None and a.lin == b.lin:
            return IntV(min(a.lo, b.lo), max(a.hi, b.hi), a.lin)
        alo, ahi = int_of(sa, a); blo, bhi = int_of(sb, b)
        lo, hi = min(alo, blo), max(ahi, bhi)
        if widen:
            if lo < alo: lo = max([t for t in THRESH if t <= lo], default=-(1 << 127))
            if hi > ahi: hi = min([t for t in THRESH if t >= hi], default=1 << 127)
        return mk_int(lo, hi, "phi")
    if isinstance(a, RecV) and isinstance(b, RecV) and a.name == b.name:
        return RecV(a.name, {k: join_val(sa, sb, a.fields[k], b.fields[k], widen) for k in a.fields if k in b.fields})
    if isinstance(a, EnumV) and isinstance(b, EnumV) and a.name == b.name:
        out = {}
        for k in set(a.variants) | set(b.variants):
            if k in a.variants and k in b.variants:
                ra, fa = a.variants[k]; rb, fb = b.variants[k]
                out[k] = (join_val(sa, sb, ra, rb, widen) if ra is not None and rb is not None else None, tuple(set(fa) & set(fb)))
            else:
                out[k] = a.variants.get(k) or b.variants.get(k)
        return EnumV(a.name, out)
    if isinstance(a, SeqV) and isinstance(b, SeqV):
        return SeqV(join_val(sa, sb, a.len, b.len, widen), join_val(sa, sb, a.elem, b.elem, widen) if a.elem is not None and b.elem is not None else None)
    if isinstance(a, RefV) and isinstance(b, RefV) and a.cell is b.cell: return a
    if isinstance(a, RefV) and isinstance(b, RefV) and a.cell in sa.mem and b.cell in sb.mem:
        # references to different places (e.g. the same field in different enum arms): point to a fresh cell holding the join (read-mostly views)
        c = Cell("refjoin")
        _PENDING_REFCELLS.append((c, join_val(sa, sb, sa.mem[a.cell], sb.mem[b.cell], widen)))
        return RefV(c)
    return TOP

_PENDING_REFCELLS = []

THRESH = sorted({0, 1, 2, 7, 8, 15, 16, 63, 64, 65, 255, 256, 1199, 1200, 1210, 1300, 1400, 65535, 1_000_000, (1 << 62) - 1, (1 << 63) - 1, U64, -1})

def join_many(st, vs):
    r = vs[0]
    for v in vs[1:]: r = join_val(st, st, r, v)
    return r

def atoms_of_val(v, acc, depth=0):
    if depth > 12: return
    if isinstance(v, IntV):
        if v.lin is not None:
            for at, _ in v.lin.t: acc.add(at)
    elif isinstance(v, RecV):
        for x in v.fields.values(): atoms_of_val(x, acc, depth + 1)
    elif isinstance(v, EnumV):
        for r, fx in v.variants.values():
            if r is not None: atoms_of_val(r, acc, depth + 1)
            for f in fx:
                for at, _ in f.t: acc.add(at)
    elif isinstance(v, SeqV):
        atoms_of_val(v.len, acc, depth + 1)
        if v.elem is not None: atoms_of_val(v.elem, acc, depth + 1)
    elif hasattr(v, "elem"):
        atoms_of_val(v.elem, acc, depth + 1)

class _All:
    def __contains__(self, x): return True
_ALL = _All()

def gc_state(s):
    live = set()
    for v in s.mem.values(): atoms_of_val(v, live)
    # facts may connect live atoms through dead ones; keep facts whose atoms are all live
    s.facts = {f for f in s.facts if all(at in live for at, _ in f.t)}
    s.bounds = {a: b for a, b in s.bounds.items() if a in live}
    return s

def atoms_of_state(s):
    acc = set(s.bounds)
    for f in s.facts:
        for at, _ in f.t: acc.add(at)
    for v in s.mem.values(): atoms_of_val(v, acc)
    return acc

def join_state(eng, fr, a, b, widen=False, loop_head=False):
    r = State()
    a = gc_state(a.copy()); b = gc_state(b.copy())
    ka, kb = atoms_of_state(a), atoms_of_state(b)
    if loop_head: ka = kb = _ALL
    for c in set(a.mem) | set(b.mem):
        if c in a.mem and c in b.mem: r.mem[c] = join_val(a, b, a.mem[c], b.mem[c], widen)
        # cells known on one side only are dropped (become lazily-defaulted / Top)
    while _PENDING_REFCELLS:
        c_, v_ = _PENDING_REFCELLS.pop(); r.mem[c_] = v_
    r.facts = set(a.facts) & set(b.facts)
    # facts / bounds about atoms the other side has never seen stay valid (atoms are path-local values)
    for f in a.facts:
        if any(at not in kb for at, _ in f.t): r.facts.add(f)
    for f in b.facts:
        if any(at not in ka for at, _ in f.t): r.facts.add(f)
    for at in set(a.bounds) | set(b.bounds):
        if at in a.bounds and at in b.bounds:
            r.bounds[at] = (min(a.bounds[at][0], b.bounds[at][0]), max(a.bounds[at][1], b.bounds[at][1]))
        elif at in a.bounds and at not in kb: r.bounds[at] = a.bounds[at]
        elif at in b.bounds and at not in ka: r.bounds[at] = b.bounds[at]
    return r

def val_le(sa, sb, a, b):
    """a (under sa) is included in b (under sb)? conservative"""
    if a is b: return True
    if isinstance(a, IntV) and isinstance(b, IntV):
        alo, ahi = int_of(sa, a); blo, bhi = int_of(sb, b); return blo <= alo and ahi <= bhi
    if isinstance(a, RecV) and isinstance(b, RecV): return all(val_le(sa, sb, a.fields[k], b.fields.get(k, TOP)) for k in a.fields)
    if isinstance(a, EnumV) and isinstance(b, EnumV):
        return all(k in b.variants and (a.variants[k][0] is None or val_le(sa, sb, a.variants[k][0], b.variants[k][0])) for k in a.variants)
    if isinstance(a, SeqV) and isinstance(b, SeqV): return val_le(sa, sb, a.len, b.len) and (a.elem is None or b.elem is None or val_le(sa, sb, a.elem, b.elem))
    if isinstance(b, TopV): return True
    if isinstance(a, RefV) and isinstance(b, RefV): return a.cell is b.cell
    return False

def state_le(eng, fr, a, b):
    return all(c in a.mem and val_le(a, b, a.mem[c], v) for c, v in b.mem.items() if not isinstance(v, TopV)) and b.facts <= a.facts


# ----------------------------------------------------------------------------- driver
def analyse(path_suffix, hostile=True, verbose=False, arg_override=None):
    F = Facts()
    fn = F.fn(path_suffix)
    eng = Engine(F, verbose=verbose); eng._lazy = {}
    st = State()
    args = []
    for i in range(1, fn.argc + 1):
        l = fn.locals[i]
        v = eng.default(l["ty"], l.get("name") or f"arg{i}")
        if arg_override and (l.get("name") in arg_override): v = arg_override[l["name"]](eng, st)
        args.append(v)
    outs = eng.run(fn, args, st)
    return eng, outs


def report(eng, title):
    print("=" * 110); print(title)
    seen = {}
    for o in eng.obl:
        key = (o["fn"], o["line"], o["kind"].split(":")[0] + ":" + o["kind"].split(":")[-1][:12])
        if key in seen: seen[key]["ok"] = seen[key]["ok"] and o["ok"]; continue
        seen[key] = o
    n_ok = sum(1 for o in seen.values() if o["ok"])
    print(f"  obligations: {len(seen)}  discharged: {n_ok}  open: {len(seen) - n_ok}")
    for o in seen.values():
        if not o["ok"]:
            print(f"   OPEN  {o['file']}:{o['line']} [{o['kind']}] {o['descr'][:150]}   (in {short(o['fn'])})")
    if eng.unknown_callees:
        print("  unmodelled callees:", ", ".join(f"{short(k)}×{v}" for k, v in eng.unknown_callees.most_common(12)))


