# PROTOTYPE (scratch): CODEC rule — extract writer / reader codec sequences as small regular expressions and compare.
import sys, re, json
from .facts import *

F = None
CTX = None      # path-sensitive walk: {"disc": regex of the scrutinee's discriminant origin, "val": variant value, "env": {local: const}, "built": set()}

WRITER = [
    (r"OctetsMut.*::put_u8$", "u8", 1), (r"OctetsMut.*::put_u16$", "u16", 2), (r"OctetsMut.*::put_u32$", "u32", 4), (r"OctetsMut.*::put_u64$", "u64", 8),
    (r"OctetsMut.*::put_varint$", "varint", (1, 8)), (r"OctetsMut.*::put_bytes$", "bytes", None),
    (r"io::Write>::write_all$|Write::write_all$", "raw", None), (r"Write::write$|io::Write>::write$", "raw", None),
]
READER = [
    (r"Octets.*::get_u8$", "u8", 1), (r"Octets.*::get_u16$", "u16", 2), (r"Octets.*::get_u32$", "u32", 4), (r"Octets.*::get_u64$", "u64", 8),
    (r"Octets.*::get_varint$", "varint", (1, 8)), (r"Octets.*::get_bytes_with_varint_length$", "lenbytes", None),
    (r"serialize::read_u64", "raw", 8), (r"serialize::read_u32", "raw", 4), (r"serialize::read_i32", "raw", 4), (r"serialize::read_u16", "raw", 2), (r"serialize::read_u8", "raw", 1),
    (r"serialize::read_bytes", "raw", "dest-array"), (r"io::Read>::read_exact$|Read::read_exact$", "raw", "arg-array"),
]


def method_of_name(n):
    return re.sub(r"::<[^>]*>", "", n).rsplit("::", 1)[-1]


def classify(f, term, table):
    name = term.get("resolved") or term.get("callee") or ""
    for pat, kind, width in table:
        if re.search(pat, name):
            return kind, width
    return None


def static_array_len(f, operand):
    """size of the byte array behind an operand that is (a reference to / unsize cast of) an array"""
    def ty_len(t, depth=0):
        if not t or depth > 4: return None
        if t["k"] == "array" and t["of"].get("k") == "int" and t["of"].get("w") == 8: return t["len"]
        if t["k"] in ("ref", "ptr"): return ty_len(t["to"], depth + 1)
        return None
    if operand["k"] not in ("copy", "move"): return None
    seen = set()
    place = operand["place"]
    for _ in range(8):
        l = place["local"]
        n = ty_len(f.locals[l]["ty"]) if not place["proj"] or all(p["k"] == "deref" for p in place["proj"]) else None
        if n is not None: return n
        if place["proj"] and place["proj"][-1]["k"] == "field":
            # type of the field: look up in adts
            pr = place["proj"][-1]; a = F.adts.get(pr.get("adt") or "")
            if a:
                for v in a["variants"]:
                    for fl in v["fields"]:
                        if fl["name"] == pr["name"]:
                            n = ty_len(fl["ty"])
                            if n is not None: return n
        ds = f.defs1(l)
        if len(ds) != 1 or l in seen: return None
        seen.add(l)
        s = ds[0][2]
        if s["k"] == "call":
            nm = s.get("resolved") or ""
            m = re.search(r"impl (u|i)(\d+)>::to_(le|be)_bytes", nm)
            if m: return int(m.group(2)) // 8
            return None
        rv = s["rv"]
        if rv["k"] in ("ref", "rawptr"): place = rv["place"]; continue
        if rv["k"] in ("use", "cast") and rv["op"]["k"] in ("copy", "move"): place = rv["op"]["place"]; continue
        if rv["k"] == "repeat": return rv["n"]
        return None
    return None


def _slice_iter_len(f, it_local, depth=0):
    """static length of the slice a `slice::Iter` local iterates, when the slice is an unsize cast of a fixed array"""
    l = it_local
    for _ in range(10):
        ds = f.defs1(l)
        if len(ds) != 1: return None
        s_ = ds[0][2]
        if s_["k"] == "call":
            nm = s_.get("resolved") or s_.get("callee") or ""
            if nm.rsplit("::", 1)[-1] in ("iter", "into_iter") and s_["args"] and s_["args"][0]["k"] in ("copy", "move"):
                a = s_["args"][0]
                n = static_array_len(f, a)
                if n is not None: return n
                if a["place"]["proj"]: return None
                l = a["place"]["local"]; continue
            return None
        rv = s_["rv"]
        if rv["k"] in ("ref", "rawptr") and not [p_ for p_ in rv["place"]["proj"] if p_["k"] != "deref"]: l = rv["place"]["local"]; continue
        if rv["k"] in ("use", "cast") and rv["op"]["k"] in ("copy", "move"):
            n = static_array_len(f, rv["op"])
            if n is not None: return n
            if rv["op"]["place"]["proj"]: return None
            l = rv["op"]["place"]["local"]; continue
        return None
    return None


def good_blocks(f):
    """blocks that can reach a return without passing through an error-producing block"""
    err = set()
    for b in f.blocks:
        t = b["term"]
        if t["k"] == "call" and "from_residual" in (t.get("resolved") or t.get("callee") or ""): err.add(b["i"])
        for s in b["stmts"]:
            if s["k"] == "assign" and s["place"]["local"] == 0 and not s["place"]["proj"] and s["rv"]["k"] == "aggr" and s["rv"].get("vname") == "Err": err.add(b["i"])
    good = set()
    work = [r for r in f.returns if r not in err]
    good.update(work)
    while work:
        x = work.pop()
        for p in f.pred[x]:
            if p not in good and p not in err and p in f.reach:
                good.add(p); work.append(p)
    return good


def _ctx_step(f, bb):
    """update CTX['env'] with what block bb's statements make known (constants, copies, the scrutinee's discriminant, comparisons of known values)"""
    if CTX is None: return
    env = CTX["env"]
    def val(op):
        if op["k"] == "const":
            v = op.get("val")
            return v if isinstance(v, int) else None
        if op["k"] in ("copy", "move") and not op["place"]["proj"]: return env.get(op["place"]["local"])
        return None
    for st in f.blocks[bb]["stmts"]:
        if st["k"] != "assign": continue
        rv = st["rv"]
        if rv["k"] == "aggr" and (rv.get("path") or "").endswith("packet::Packet") and rv.get("vname"): CTX["built"].add(rv["vname"])
        if st["place"]["proj"]: continue
        l = st["place"]["local"]; env.pop(l, None)
        if rv["k"] in ("use", "cast"):
            v = val(rv["op"])
            if v is not None: env[l] = v
        elif rv["k"] == "discr" and CTX.get("disc") and re.search(CTX["disc"], fmt(f._origin_of_def(st, 0))): env[l] = CTX["val"]
        elif rv["k"] == "bin":
            a, b = val(rv["a"]), val(rv["b"])
            if a is not None and b is not None:
                op = rv["op"]
                r_ = {"Eq": a == b, "Ne": a != b, "Lt": a < b, "Le": a <= b, "Gt": a > b, "Ge": a >= b}.get(op)
                if r_ is not None: env[l] = int(r_)
        elif rv["k"] == "un" and rv.get("op") == "Not":
            a = val(rv["a"])
            if a in (0, 1): env[l] = 1 - a
    t = f.blocks[bb]["term"]
    if t["k"] == "call" and not t["dest"]["proj"]: env.pop(t["dest"]["local"], None)


def _ctx_switch(f, bb):
    """the only successor of switch block bb consistent with what is known, or None"""
    if CTX is None: return None
    t = f.blocks[bb]["term"]
    if t["k"] != "switch": return None
    on = t["on"]
    v = None
    if on["k"] in ("copy", "move") and not on["place"]["proj"]: v = CTX["env"].get(on["place"]["local"])
    if v is None and CTX.get("disc") and re.search(CTX["disc"], fmt(f.origin_of_operand(on))): v = CTX["val"]
    if v is None: return None
    return dict((x, y) for x, y in t["targets"]).get(v, t["otherwise"])


def _ctx_src(f, t, default):
    """the written value of a WRITER call when it is known on this path"""
    if CTX is None or len(t["args"]) < 2: return default
    a = t["args"][-1]
    if a["k"] in ("copy", "move") and not a["place"]["proj"] and a["place"]["local"] in CTX["env"]: return str(CTX["env"][a["place"]["local"]])
    return default


def region(f, start, stop, table, good, loops_seen=None, depth=0):
    """regular expression (list) of codec items on good paths from block `start` up to (not including) `stop`"""
    out = []
    bb = start
    loops_seen = loops_seen or set()
    guard = 0
    while bb is not None and bb != stop and guard < 400:
        guard += 1
        # loop head?
        heads = [p for p in f.pred[bb] if f.dominates(bb, p)]
        if heads and bb not in loops_seen:
            body_nodes = set()
            for h in heads:  # natural loop
                st = [h]; body_nodes.add(bb)
                while st:
                    x = st.pop()
                    if x not in body_nodes:
                        body_nodes.add(x); st.extend(f.pred[x])
            # body expression: from bb around back to bb
            inner = region_loop(f, bb, body_nodes, table, good, loops_seen | {bb}, depth + 1)
            trip = None
            for x in [bb]:
                tt = f.blocks[x]["term"]
                if tt["k"] == "call" and (tt.get("resolved") or "").endswith("::next") and tt["args"] and tt["args"][0]["k"] in ("copy", "move"):
                    ty = f.locals[tt["args"][0]["place"]["local"]]["ty"]
                    m = re.search(r"array::IntoIter<[^,<>]+, (\d+)>", json.dumps(ty))
                    if m: trip = int(m.group(1))
                    elif "slice::Iter" in json.dumps(ty):
                        # `for b in octets.iter()` over a slice that is visibly an unsized fixed array (`&ip.octets()` passed as `&[u8]`, also through an inlined helper)
                        trip = _slice_iter_len(f, tt["args"][0]["place"]["local"])
            if inner and trip is not None and len(inner) == 1 and inner[0][0] == "raw" and inner[0][1] == 1: out.append(("raw", trip, inner[0][2], inner[0][3]))
            elif inner and trip is not None: out += inner * trip
            elif inner: out.append(("loop", inner))
            # continue at the loop exit (good successor outside the body)
            exits = [s for x in body_nodes for s in f.succ[x] if s not in body_nodes and s in good]
            bb = exits[0] if exits else None
            continue
        _ctx_step(f, bb)
        t = f.blocks[bb]["term"]
        if t["k"] == "call":
            c = classify(f, t, table)
            if c:
                kind, width = c
                if width == "dest-array":
                    dt = f.locals[t["dest"]["local"]]["ty"]; width = None
                    try: width = dt["args"][0]["len"]
                    except Exception: pass
                if width == "arg-array" or (kind == "raw" and width is None):
                    width = static_array_len(f, t["args"][-1])
                src = fmt(f.origin_of_operand(t["args"][-1])) if table is WRITER and len(t["args"]) > 1 else None
                if table is WRITER: src = _ctx_src(f, t, src)
                out.append((kind, width, src, t["span"]["l"][0]))
            elif method_of_name(t.get("resolved") or t.get("callee") or "") in ("try_fold", "fold", "for_each", "try_for_each", "rfold", "try_rfold") and depth < 4:
                # an iterator consumer running a closure once per element: the closure body is a loop body
                for a_ in t["args"][1:]:
                    m_ = re.search(r"\{closure#\d+\}", fmt(f.origin_of_operand(a_)))
                    if not m_: continue
                    cands_ = [g for p_, g in F.fns.items() if p_.endswith(m_.group(0)) and "::{closure" in p_ and p_.rsplit("::{closure", 1)[0] in (f.path, f.path.rsplit("::{closure", 1)[0]) or (p_.endswith(m_.group(0)) and p_.startswith(f.path))]
                    for g in cands_[:1]:
                        sub = region(g, 0, None, table, good_blocks(g), None, depth + 1)
                        if sub: out.append(("loop", sub))
            elif (t.get("resolved") or "") in F.fns and depth < 4:
                callee = F.fns[t["resolved"]]
                sub = region(callee, 0, None, table, good_blocks(callee), None, depth + 1)
                if sub: out.append(("call", short(t["resolved"]), sub))
        succs = [s for s in f.succ[bb] if s in good]
        if not succs: break
        if len(succs) == 1:
            bb = succs[0]; continue
        chosen = _ctx_switch(f, bb)
        if chosen is not None and chosen in good:
            bb = chosen; continue
        # branch: find merge point = nearest common post-dominator among good blocks
        pd = f.postdominators()
        common = None
        cands = set.intersection(*[pd.get(s, set()) for s in succs]) if all(s in pd for s in succs) else set()
        cands.discard(f.n)
        # nearest: the candidate post-dominated by all other candidates
        best = None
        for c in cands:
            if all(o in pd.get(c, set()) for o in cands): best = c
        alts = []
        for s in succs:
            alts.append(region(f, s, best, table, good, loops_seen, depth + 1))
        if any(alts):
            uniq = []
            for a in alts:
                if a not in uniq: uniq.append(a)
            out.append(("alt", uniq) if len(uniq) > 1 else ("seq", uniq[0]))
        bb = best
    return flatten(out)


def region_loop(f, head, body, table, good, loops_seen, depth):
    # walk from head inside body until we come back to head
    out = []
    succs = [s for s in f.succ[head] if s in body and s in good]
    # head itself may be a call block (Iterator::next) — not codec
    cur = None
    # the body entry is the successor that stays in the loop after the `next()` Some-edge; do a generic walk
    return region_in(f, head, body, table, good, loops_seen, depth)


def region_in(f, head, body, table, good, loops_seen, depth):
    out = []
    bb = head; first = True; guard = 0
    while guard < 200:
        guard += 1
        if bb == head and not first: break
        first = False
        t = f.blocks[bb]["term"]
        if bb != head:
            inner_heads = [p for p in f.pred[bb] if f.dominates(bb, p)]
            if inner_heads and bb not in loops_seen:
                sub = region(f, bb, None, table, good, loops_seen, depth + 1)
                out += sub; break
        if t["k"] == "call":
            c = classify(f, t, table)
            if c:
                kind, width = c
                if width == "dest-array":
                    try: width = f.locals[t["dest"]["local"]]["ty"]["args"][0]["len"]
                    except Exception: width = None
                if width == "arg-array" or (kind == "raw" and width is None): width = static_array_len(f, t["args"][-1])
                src = fmt(f.origin_of_operand(t["args"][-1])) if table is WRITER and len(t["args"]) > 1 else None
                out.append((kind, width, src, t["span"]["l"][0]))
        succs = [s for s in f.succ[bb] if s in body and s in good]
        if not succs: break
        if len(succs) == 1: bb = succs[0]; continue
        # branch inside the loop body: alternatives until they rejoin or return to head
        pd = f.postdominators()
        cands = set.intersection(*[pd.get(s, set()) for s in succs]) & body if all(s in pd for s in succs) else set()
        best = None
        for c in cands:
            if all(o in pd.get(c, set()) for o in cands): best = c
        alts = [region(f, s, best if best is not None else head, table, good, loops_seen, depth + 1) for s in succs]
        uniq = []
        for a in alts:
            if a not in uniq: uniq.append(a)
        if any(uniq): out.append(("alt", uniq) if len(uniq) > 1 else ("seq", uniq[0]))
        if best is None: break
        bb = best
    return flatten(out)


def flatten(xs):
    out = []
    for x in xs:
        if x and x[0] == "seq": out += flatten(x[1])
        elif x and x[0] == "alt":
            alts = [flatten(a) for a in x[1]]
            alts = [a for i, a in enumerate(alts) if a not in alts[:i]]
            if len(alts) == 1: out += alts[0]
            elif any(alts): out.append(("alt", alts))
        else: out.append(x)
    return out


def show(xs, with_src=False):
    parts = []
    for x in xs:
        if x[0] == "loop": parts.append("(" + show(x[1], with_src) + ")*")
        elif x[0] == "alt": parts.append("{" + " | ".join(show(a, with_src) or "ε" for a in x[1]) + "}")
        elif x[0] == "call": parts.append(f"{x[1]}<" + show(x[2], with_src) + ">")
        else:
            w = x[1]
            w = f"[{w}]" if isinstance(w, int) else ("" if w is None else f"[{w[0]}..{w[1]}]")
            parts.append(f"{x[0]}{w}" + (f"←{x[2]}" if with_src and x[2] else ""))
    return " ".join(parts)


def arms_of(f, on_pattern):
    """find the top-level switch and return {value: first block}"""
    for b in f.blocks:
        t = b["term"]
        if t["k"] == "switch" and b["i"] in f.reach:
            o = fmt(f.origin_of_operand(t["on"]))
            if re.search(on_pattern, o) and len(t["targets"]) >= 3:
                return b["i"], {v: tgt for v, tgt in t["targets"]}, t["otherwise"]
    return None, {}, None


def pair_len_prefix(expr):
    """writer idiom `varint(len(x)) bytes(x)` == reader idiom `lenbytes`"""
    out = []
    i = 0
    while i < len(expr):
        x = expr[i]
        if x[0] == "loop": out.append(("loop", pair_len_prefix(x[1])))
        elif x[0] == "alt": out.append(("alt", [pair_len_prefix(a) for a in x[1]]))
        elif x[0] == "call": out += pair_len_prefix(x[2])
        elif x[0] == "varint" and i + 1 < len(expr) and expr[i + 1][0] == "bytes" and x[2] and "::len(" in x[2]:
            out.append(("lenbytes", None, expr[i + 1][2], x[3])); i += 1
        else: out.append(x)
        i += 1
    return out


def merge_raw(seq):
    """adjacent fixed-width raw items are one byte string"""
    out = []
    for x in seq:
        if isinstance(x, tuple) and x and x[0] == "raw" and isinstance(x[1], int) and out and isinstance(out[-1], tuple) and out[-1][0] == "raw" and isinstance(out[-1][1], int) and False:
            out[-1] = ("raw", out[-1][1] + x[1])
        else: out.append(x)
    return out


def language(expr):
    """set of flat sequences (tuples of (kind,width) / ('loop', frozenset)) denoted by a codec expression"""
    seqs = {()}
    for x in expr:
        if x[0] == "loop":
            item = ("loop", frozenset(language(x[1])))
            seqs = {s_ + (item,) for s_ in seqs}
        elif x[0] == "alt":
            alts = set()
            for a in x[1]: alts |= language(a)
            seqs = {s_ + a for s_ in seqs for a in alts}
        elif x[0] == "call":
            sub = language(x[2]); seqs = {s_ + a for s_ in seqs for a in sub}
        else:
            w = x[1]
            seqs = {s_ + ((x[0], w if not isinstance(w, list) else tuple(w)),) for s_ in seqs}
    return seqs


def item_le(a, b):
    if a[0] == "loop" and b[0] == "loop": return lang_included(a[1], b[1])
    return a == b


def lang_included(LA, LB):
    """every sequence the writer can produce is a sequence the reader accepts (loops compared by inclusion of their bodies)"""
    for sa in LA:
        if not any(len(sa) == len(sb) and all(item_le(x, y) for x, y in zip(sa, sb)) for sb in LB): return False
    return True


def merge_bytes(seq):
    """runs of single raw bytes are one byte string (a writer may emit an array octet by octet)"""
    out = []
    for x in seq:
        if x[0] == "raw" and x[1] == 1 and out and out[-1][0] == "rawrun": out[-1] = ("rawrun", out[-1][1] + 1)
        elif x[0] == "raw" and x[1] == 1: out.append(("rawrun", 1))
        else: out.append(x)
    return tuple(("raw", x[1]) if x[0] == "rawrun" else x for x in out)


def show_lang(L):
    def one(s_):
        return " ".join((f"({'|'.join(sorted(one(b) for b in x[1]))})*" if x[0] == "loop" else f"{x[0]}{'' if x[1] is None else '[' + (str(x[1]) if isinstance(x[1], int) else '..'.join(map(str, x[1]))) + ']'}") for x in s_) or "ε"
    return sorted(one(s_) for s_ in L)


def size_of(expr):
    """(min, max) wire size of a codec expression; loops contribute (0, inf)"""
    lo = hi = 0
    for x in expr:
        if x[0] == "loop":
            hi = float("inf")
        elif x[0] == "alt":
            ss = [size_of(a) for a in x[1]]; lo += min(a for a, _ in ss); hi += max(b for _, b in ss)
        elif x[0] == "call":
            a, b = size_of(x[2]); lo += a; hi += b
        else:
            w = x[1]
            if isinstance(w, int): lo += w; hi += w
            elif isinstance(w, tuple): lo += w[0]; hi += w[1]
            else: hi = float("inf")
    return lo, hi


def renet_packet_tables(facts):
    """writer: variant -> (tag, expr) ; reader: tag -> (variant, expr)"""
    global F
    F = facts
    w = F.fn("packet::Packet::to_bytes"); gw = good_blocks(w)
    sw, arms, other = arms_of(w, r"^discr\(\*P1\(self\)\)")
    names = {v["discr"]: v["name"] for v in F.adts["renet::packet::Packet"]["variants"]}
    W = {}
    global CTX
    for v, tgt in arms.items():
        CTX = {"disc": r"^discr\(\*P1\(self\)\)$", "val": v, "env": {}, "built": set()}
        try: e = pair_len_prefix(region(w, tgt, None, WRITER, gw))
        finally: CTX = None
        tag = None
        if e and e[0][0] == "u8" and e[0][2] is not None and e[0][2].isdigit(): tag = int(e[0][2]); e = e[1:]
        W[names[v]] = (tag, e)
    for v, n in names.items():
        if n not in W and other is not None:
            e = pair_len_prefix(region(w, other, None, WRITER, gw)); tag = int(e[0][2]) if e and e[0][0] == "u8" and (e[0][2] or "").isdigit() else None
            W[n] = (tag, e[1:] if tag is not None else e)
    r = F.fn("packet::Packet::from_bytes"); gr = good_blocks(r)
    sw, arms, other = arms_of(r, r"get_u8")
    R = {}
    # reads hoisted in front of the dispatch on the tag (everything between the tag read and the switch) belong to every arm
    prefix = region(r, 0, sw, READER, gr) if sw is not None else []
    prefix = prefix[1:] if prefix and prefix[0][0] == "u8" else prefix
    tag_on = r.blocks[sw]["term"]["on"] if sw is not None else None
    for v, tgt in arms.items():
        CTX = {"disc": None, "val": v, "env": {}, "built": set()}
        if tag_on is not None and tag_on["k"] in ("copy", "move") and not tag_on["place"]["proj"]: CTX["env"][tag_on["place"]["local"]] = v
        try:
            e = prefix + region(r, tgt, None, READER, gr)
            built_path = set(CTX["built"])
        finally: CTX = None
        # which variant does this arm build?
        reg = r.reachable_from([tgt])
        others = set()
        for w2, t2 in arms.items():
            if w2 != v and t2 != tgt: others |= r.reachable_from([t2])
        built = set()
        for b in r.blocks:
            if b["i"] in reg and b["i"] not in others:
                for st in b["stmts"]:
                    if st["k"] == "assign" and st["rv"]["k"] == "aggr" and (st["rv"].get("path") or "").endswith("packet::Packet"): built.add(st["rv"]["vname"])
        if built_path and (len(built) != 1): built = built_path        # merged arms (`2 | 3 => ..`): what is built on the path this tag value takes
        R[v] = (sorted(built), e)
    return W, R


def netcode_packet_tables(facts):
    global F
    F = facts
    w = F.fn("packet::Packet::<'a>::write"); gw = good_blocks(w)
    sw, arms, other = arms_of(w, r"^discr\(\*P1\(self\)\)")
    names = {v["discr"]: v["name"] for v in F.adts["renetcode::packet::Packet"]["variants"]}
    W = {}
    for v, n in names.items():
        tgt = arms.get(v, other)
        W[n] = region(w, tgt, None, WRITER, gw) if tgt is not None else []
    r = F.fn("packet::Packet::<'a>::read"); gr = good_blocks(r)
    sw, arms, other = arms_of(r, r"discr\(P1\(packet_type\)\)")
    pn = {v["discr"]: v["name"] for v in F.adts["renetcode::packet::PacketType"]["variants"]}
    R = {}
    for v, n in pn.items():
        tgt = arms.get(v, other)
        R[n] = region(r, tgt, None, READER, gr) if tgt is not None else []
    return W, R


def pair_exprs(facts, wname, rname):
    global F
    F = facts
    fw, fr_ = F.fn(wname), F.fn(rname)
    return region(fw, 0, None, WRITER, good_blocks(fw)), region(fr_, 0, None, READER, good_blocks(fr_))


def netcode_packet_sizes(facts):
    global F
    F = facts
    w = F.fn("packet::Packet::<'a>::write"); gw = good_blocks(w)
    sw, arms, other = arms_of(w, r"^discr\(\*P1\(self\)\)")
    names = {v["discr"]: v["name"] for v in F.adts["renetcode::packet::Packet"]["variants"]}
    out = {}
    seen = set()
    for v, tgt in arms.items():
        out[names[v]] = size_of(region(w, tgt, None, WRITER, gw))[0]; seen.add(v)
    for v, n in names.items():
        if v not in seen: out[n] = size_of(region(w, other, None, WRITER, gw))[0] if other is not None else 0
    return out


if __name__ == "__main__":
    F = Facts()
    print("== renet Packet::to_bytes (writer), per variant")
    w = F.fn("packet::Packet::to_bytes"); gw = good_blocks(w)
    sw, arms, other = arms_of(w, r"^discr\(\*P\(self\)\)")
    names = {v["discr"]: v["name"] for v in F.adts["renet::packet::Packet"]["variants"]}
    for v, tgt in sorted(arms.items()):
        print(f"  {names.get(v, v):16s}: {show(region(w, tgt, None, WRITER, gw), True)[:400]}")
    if other is not None and other in gw: print(f"  otherwise       : {show(region(w, other, None, WRITER, gw), True)[:400]}")
    print("== renet Packet::from_bytes (reader), per tag value")
    r = F.fn("packet::Packet::from_bytes"); gr = good_blocks(r)
    sw, arms, other = arms_of(r, r"get_u8")
    for v, tgt in sorted(arms.items()):
        print(f"  tag {v}: {show(region(r, tgt, None, READER, gr))[:300]}")
    print("== renetcode Packet::write / read")
    w = F.fn("packet::Packet::<'a>::write"); gw = good_blocks(w)
    sw, arms, other = arms_of(w, r"^discr\(\*P\(self\)\)")
    names = {v["discr"]: v["name"] for v in F.adts["renetcode::packet::Packet"]["variants"]}
    for v, tgt in sorted(arms.items()):
        print(f"  {names.get(v, v):18s}: {show(region(w, tgt, None, WRITER, gw), True)[:300]}")
    if other is not None: print(f"  otherwise         : {show(region(w, other, None, WRITER, gw), True)[:300]}")
    r = F.fn("packet::Packet::<'a>::read"); gr = good_blocks(r)
    sw, arms, other = arms_of(r, r"discr\(P\(packet_type\)\)")
    pn = {v["discr"]: v["name"] for v in F.adts["renetcode::packet::PacketType"]["variants"]}
    for v, tgt in sorted(arms.items()):
        print(f"  read {pn.get(v, v):18s}: {show(region(r, tgt, None, READER, gr))[:300]}")
    for a, b in [("token::ConnectToken::write", "token::ConnectToken::read"), ("token::PrivateConnectToken::write", "token::PrivateConnectToken::read"), ("packet::ChallengeToken::write", "packet::ChallengeToken::read")]:
        fw, fr_ = F.fn(a), F.fn(b)
        print(f"== {a}\n   W: {show(region(fw, 0, None, WRITER, good_blocks(fw)))[:400]}\n   R: {show(region(fr_, 0, None, READER, good_blocks(fr_)))[:400]}")
