#![feature(rustc_private)]
// MIR fact extractor of /verif: dumps type-checked MIR (dev profile, mir-opt-level 0) of each crate as JSON facts (schema: DESIGN.md appendix A).
extern crate rustc_abi;
extern crate rustc_driver;
extern crate rustc_hir;
extern crate rustc_interface;
extern crate rustc_middle;
extern crate rustc_span;

use rustc_driver::Compilation;
use rustc_hir::def::DefKind;
use rustc_hir::def_id::{DefId, LOCAL_CRATE};
use rustc_middle::mir::*;
use rustc_middle::ty::{self, Instance, Ty, TyCtxt, TypingEnv};
use rustc_span::Span;
use std::fmt::Write as _;

fn js(s: &str) -> String {
    let mut o = String::with_capacity(s.len() + 2);
    o.push('"');
    for c in s.chars() {
        match c {
            '"' => o.push_str("\\\""),
            '\\' => o.push_str("\\\\"),
            '\n' => o.push_str("\\n"),
            '\t' => o.push_str("\\t"),
            '\r' => o.push_str("\\r"),
            c if (c as u32) < 0x20 => {
                let _ = write!(o, "\\u{:04x}", c as u32);
            }
            c => o.push(c),
        }
    }
    o.push('"');
    o
}

fn path_of(tcx: TyCtxt<'_>, did: DefId) -> String {
    let p = tcx.def_path_str(did);
    if did.is_local() {
        format!("{}::{}", tcx.crate_name(LOCAL_CRATE), p)
    } else {
        p
    }
}

struct Cx<'tcx> {
    tcx: TyCtxt<'tcx>,
}

impl<'tcx> Cx<'tcx> {
    fn ty(&self, t: Ty<'tcx>, depth: u32) -> String {
        let tcx = self.tcx;
        if depth > 6 {
            return format!("{{\"k\":\"deep\",\"s\":{}}}", js(&t.to_string()));
        }
        let ptr_bits = tcx.data_layout.pointer_size().bits();
        match t.kind() {
            ty::Bool => "{\"k\":\"bool\"}".into(),
            ty::Char => "{\"k\":\"char\"}".into(),
            ty::Str => "{\"k\":\"str\"}".into(),
            ty::Never => "{\"k\":\"never\"}".into(),
            ty::Int(i) => format!("{{\"k\":\"int\",\"s\":true,\"w\":{}}}", i.bit_width().unwrap_or(ptr_bits)),
            ty::Uint(i) => format!("{{\"k\":\"int\",\"s\":false,\"w\":{}}}", i.bit_width().unwrap_or(ptr_bits)),
            ty::Float(f) => format!("{{\"k\":\"float\",\"w\":{}}}", f.bit_width()),
            ty::Adt(def, args) => {
                let targs: Vec<String> = args.types().map(|a| self.ty(a, depth + 1)).collect();
                format!(
                    "{{\"k\":\"adt\",\"path\":{},\"args\":[{}],\"s\":{}}}",
                    js(&path_of(tcx, def.did())),
                    targs.join(","),
                    js(&t.to_string())
                )
            }
            ty::Array(e, n) => {
                let len = n.try_to_target_usize(tcx).map(|v| v.to_string()).unwrap_or("null".into());
                format!("{{\"k\":\"array\",\"of\":{},\"len\":{}}}", self.ty(*e, depth + 1), len)
            }
            ty::Slice(e) => format!("{{\"k\":\"slice\",\"of\":{}}}", self.ty(*e, depth + 1)),
            ty::Ref(_, e, m) => format!("{{\"k\":\"ref\",\"mut\":{},\"to\":{}}}", m.is_mut(), self.ty(*e, depth + 1)),
            ty::RawPtr(e, m) => format!("{{\"k\":\"ptr\",\"mut\":{},\"to\":{}}}", m.is_mut(), self.ty(*e, depth + 1)),
            ty::Tuple(ts) => {
                let v: Vec<String> = ts.iter().map(|a| self.ty(a, depth + 1)).collect();
                format!("{{\"k\":\"tuple\",\"of\":[{}]}}", v.join(","))
            }
            ty::FnDef(d, _) => format!("{{\"k\":\"fndef\",\"path\":{}}}", js(&path_of(tcx, *d))),
            ty::Closure(d, _) => format!("{{\"k\":\"closure\",\"path\":{}}}", js(&path_of(tcx, *d))),
            ty::Param(p) => format!("{{\"k\":\"param\",\"name\":{}}}", js(p.name.as_str())),
            _ => format!("{{\"k\":\"other\",\"s\":{}}}", js(&t.to_string())),
        }
    }

    fn span(&self, sp: Span) -> String {
        let sm = self.tcx.sess.source_map();
        let lo = sm.lookup_char_pos(sp.lo());
        let hi = sm.lookup_char_pos(sp.hi());
        let file = format!("{}", lo.file.name.prefer_local_unconditionally());
        let exp = if sp.from_expansion() {
            let names: Vec<String> = sp
                .macro_backtrace()
                .map(|d| match d.kind {
                    rustc_span::ExpnKind::Macro(k, name) => format!("{:?}:{}", k, name),
                    other => format!("{:?}", other),
                })
                .collect();
            js(&names.join("<"))
        } else {
            "null".into()
        };
        format!(
            "{{\"f\":{},\"l\":[{},{},{},{}],\"exp\":{}}}",
            js(&file),
            lo.line,
            lo.col.0 + 1,
            hi.line,
            hi.col.0 + 1,
            exp
        )
    }

    fn place(&self, body: &Body<'tcx>, p: &Place<'tcx>) -> String {
        let tcx = self.tcx;
        let mut pty = PlaceTy::from_ty(body.local_decls[p.local].ty);
        let mut projs: Vec<String> = vec![];
        for elem in p.projection.iter() {
            let s = match elem {
                ProjectionElem::Deref => "{\"k\":\"deref\"}".to_string(),
                ProjectionElem::Field(idx, _) => {
                    let name = match pty.ty.kind() {
                        ty::Adt(def, _) => {
                            let v = pty.variant_index.unwrap_or(rustc_abi::FIRST_VARIANT);
                            if def.is_enum() || def.is_struct() || def.is_union() {
                                def.variant(v).fields.get(idx).map(|f| f.name.to_string())
                            } else {
                                None
                            }
                        }
                        _ => None,
                    };
                    let adt = match pty.ty.kind() {
                        ty::Adt(def, _) => js(&path_of(tcx, def.did())),
                        ty::Closure(d, _) => js(&path_of(tcx, *d)),
                        ty::Tuple(_) => "\"tuple\"".to_string(),
                        _ => "null".to_string(),
                    };
                    format!(
                        "{{\"k\":\"field\",\"i\":{},\"name\":{},\"adt\":{}}}",
                        idx.as_usize(),
                        name.map(|n: String| js(n.as_str())).unwrap_or("null".into()),
                        adt
                    )
                }
                ProjectionElem::Index(l) => format!("{{\"k\":\"index\",\"local\":{}}}", l.as_usize()),
                ProjectionElem::ConstantIndex { offset, min_length, from_end } => {
                    format!("{{\"k\":\"cindex\",\"off\":{},\"min\":{},\"from_end\":{}}}", offset, min_length, from_end)
                }
                ProjectionElem::Subslice { from, to, from_end } => {
                    format!("{{\"k\":\"subslice\",\"from\":{},\"to\":{},\"from_end\":{}}}", from, to, from_end)
                }
                ProjectionElem::Downcast(name, v) => format!(
                    "{{\"k\":\"downcast\",\"variant\":{},\"name\":{}}}",
                    v.as_usize(),
                    name.map(|n| js(n.as_str())).unwrap_or("null".into())
                ),
                other => format!("{{\"k\":\"otherproj\",\"s\":{}}}", js(&format!("{:?}", other))),
            };
            projs.push(s);
            pty = pty.projection_ty(tcx, elem);
        }
        format!("{{\"local\":{},\"proj\":[{}]}}", p.local.as_usize(), projs.join(","))
    }

    fn konst(&self, env: TypingEnv<'tcx>, c: &ConstOperand<'tcx>) -> String {
        let tcx = self.tcx;
        let t = c.const_.ty();
        let mut extra = String::new();
        match t.kind() {
            ty::FnDef(d, _) => {
                let _ = write!(extra, ",\"def\":{}", js(&path_of(tcx, *d)));
            }
            _ => {}
        }
        let val = match c.const_.try_eval_scalar_int(tcx, env) {
            Some(si) => {
                let size = si.size();
                let bits = si.to_bits(size);
                match t.kind() {
                    ty::Int(_) => si.to_int(size).to_string(),
                    _ => bits.to_string(),
                }
            }
            None => "null".into(),
        };
        format!(
            "{{\"k\":\"const\",\"ty\":{},\"val\":{}{},\"s\":{}}}",
            self.ty(t, 0),
            val,
            extra,
            js(&format!("{}", c.const_))
        )
    }

    fn operand(&self, env: TypingEnv<'tcx>, body: &Body<'tcx>, o: &Operand<'tcx>) -> String {
        match o {
            Operand::Copy(p) => format!("{{\"k\":\"copy\",\"place\":{}}}", self.place(body, p)),
            Operand::Move(p) => format!("{{\"k\":\"move\",\"place\":{}}}", self.place(body, p)),
            Operand::Constant(c) => self.konst(env, c),
            other => format!("{{\"k\":\"otherop\",\"s\":{}}}", js(&format!("{:?}", other))),
        }
    }

    fn rvalue(&self, env: TypingEnv<'tcx>, body: &Body<'tcx>, rv: &Rvalue<'tcx>) -> String {
        let tcx = self.tcx;
        match rv {
            Rvalue::Use(o, _) => format!("{{\"k\":\"use\",\"op\":{}}}", self.operand(env, body, o)),
            Rvalue::Repeat(o, n) => format!(
                "{{\"k\":\"repeat\",\"op\":{},\"n\":{}}}",
                self.operand(env, body, o),
                n.try_to_target_usize(tcx).map(|v| v.to_string()).unwrap_or("null".into())
            ),
            Rvalue::Ref(_, bk, p) => format!(
                "{{\"k\":\"ref\",\"mut\":{},\"place\":{}}}",
                matches!(bk, BorrowKind::Mut { .. }),
                self.place(body, p)
            ),
            Rvalue::RawPtr(kind, p) => format!(
                "{{\"k\":\"rawptr\",\"kind\":{},\"place\":{}}}",
                js(&format!("{:?}", kind)),
                self.place(body, p)
            ),
            Rvalue::Cast(ck, o, t) => format!(
                "{{\"k\":\"cast\",\"ck\":{},\"op\":{},\"ty\":{}}}",
                js(&format!("{:?}", ck)),
                self.operand(env, body, o),
                self.ty(*t, 0)
            ),
            Rvalue::BinaryOp(op, ab) => format!(
                "{{\"k\":\"bin\",\"op\":{},\"a\":{},\"b\":{}}}",
                js(&format!("{:?}", op)),
                self.operand(env, body, &ab.0),
                self.operand(env, body, &ab.1)
            ),
            Rvalue::UnaryOp(op, a) => format!(
                "{{\"k\":\"un\",\"op\":{},\"a\":{}}}",
                js(&format!("{:?}", op)),
                self.operand(env, body, a)
            ),
            Rvalue::Discriminant(p) => format!("{{\"k\":\"discr\",\"place\":{}}}", self.place(body, p)),
            Rvalue::CopyForDeref(p) => format!("{{\"k\":\"use\",\"op\":{{\"k\":\"copy\",\"place\":{}}}}}", self.place(body, p)),
            Rvalue::Aggregate(kind, fields) => {
                let ops: Vec<String> = fields.iter().map(|o| self.operand(env, body, o)).collect();
                let head = match &**kind {
                    AggregateKind::Array(t) => format!("\"ak\":\"array\",\"of\":{}", self.ty(*t, 0)),
                    AggregateKind::Tuple => "\"ak\":\"tuple\"".to_string(),
                    AggregateKind::Adt(did, vidx, _, _, active) => {
                        let def = tcx.adt_def(*did);
                        let v = def.variant(*vidx);
                        let fnames: Vec<String> = v.fields.iter().map(|f| js(f.name.as_str())).collect();
                        format!(
                            "\"ak\":\"adt\",\"path\":{},\"variant\":{},\"vname\":{},\"fnames\":[{}],\"active\":{}",
                            js(&path_of(tcx, *did)),
                            vidx.as_usize(),
                            js(v.name.as_str()),
                            fnames.join(","),
                            active.map(|a| a.as_usize().to_string()).unwrap_or("null".into())
                        )
                    }
                    AggregateKind::Closure(did, _) => format!("\"ak\":\"closure\",\"path\":{}", js(&path_of(tcx, *did))),
                    AggregateKind::RawPtr(..) => "\"ak\":\"rawptr\"".to_string(),
                    other => format!("\"ak\":\"other\",\"s\":{}", js(&format!("{:?}", other))),
                };
                format!("{{\"k\":\"aggr\",{},\"fields\":[{}]}}", head, ops.join(","))
            }
            other => format!("{{\"k\":\"other\",\"s\":{}}}", js(&format!("{:?}", other))),
        }
    }

    fn unwind(&self, u: &UnwindAction) -> String {
        match u {
            UnwindAction::Cleanup(bb) => bb.as_usize().to_string(),
            other => js(&format!("{:?}", other)),
        }
    }

    fn terminator(&self, env: TypingEnv<'tcx>, body: &Body<'tcx>, t: &Terminator<'tcx>) -> String {
        let tcx = self.tcx;
        let sp = self.span(t.source_info.span);
        match &t.kind {
            TerminatorKind::Goto { target } => format!("{{\"k\":\"goto\",\"target\":{},\"span\":{}}}", target.as_usize(), sp),
            TerminatorKind::SwitchInt { discr, targets } => {
                let arms: Vec<String> = targets.iter().map(|(v, bb)| format!("[{},{}]", v, bb.as_usize())).collect();
                format!(
                    "{{\"k\":\"switch\",\"on\":{},\"targets\":[{}],\"otherwise\":{},\"span\":{}}}",
                    self.operand(env, body, discr),
                    arms.join(","),
                    targets.otherwise().as_usize(),
                    sp
                )
            }
            TerminatorKind::Return => format!("{{\"k\":\"return\",\"span\":{}}}", sp),
            TerminatorKind::Unreachable => format!("{{\"k\":\"unreachable\",\"span\":{}}}", sp),
            TerminatorKind::UnwindResume => format!("{{\"k\":\"resume\",\"span\":{}}}", sp),
            TerminatorKind::UnwindTerminate(_) => format!("{{\"k\":\"abort\",\"span\":{}}}", sp),
            TerminatorKind::Drop { place, target, unwind, .. } => format!(
                "{{\"k\":\"drop\",\"place\":{},\"target\":{},\"unwind\":{},\"span\":{}}}",
                self.place(body, place),
                target.as_usize(),
                self.unwind(unwind),
                sp
            ),
            TerminatorKind::Call { func, args, destination, target, unwind, fn_span, .. } => {
                let a: Vec<String> = args.iter().map(|o| self.operand(env, body, &o.node)).collect();
                let mut callee = "null".to_string();
                let mut resolved = "null".to_string();
                let mut substs = "null".to_string();
                let mut indirect = "null".to_string();
                match func {
                    Operand::Constant(c) => {
                        if let ty::FnDef(did, gargs) = c.const_.ty().kind() {
                            callee = js(&path_of(tcx, *did));
                            substs = js(&format!("{:?}", gargs));
                            if let Ok(Some(inst)) = Instance::try_resolve(tcx, env, *did, gargs) {
                                resolved = js(&format!("{}", path_of(tcx, inst.def_id())));
                            }
                        } else {
                            indirect = self.operand(env, body, func);
                        }
                    }
                    _ => indirect = self.operand(env, body, func),
                }
                format!(
                    "{{\"k\":\"call\",\"callee\":{},\"resolved\":{},\"substs\":{},\"indirect\":{},\"args\":[{}],\"dest\":{},\"target\":{},\"unwind\":{},\"span\":{},\"fn_span\":{}}}",
                    callee,
                    resolved,
                    substs,
                    indirect,
                    a.join(","),
                    self.place(body, destination),
                    target.map(|b| b.as_usize().to_string()).unwrap_or("null".into()),
                    self.unwind(unwind),
                    sp,
                    self.span(*fn_span)
                )
            }
            TerminatorKind::Assert { cond, expected, msg, target, unwind } => {
                let (kind, ops): (String, Vec<String>) = match &**msg {
                    AssertKind::BoundsCheck { len, index } => {
                        ("bounds".into(), vec![self.operand(env, body, len), self.operand(env, body, index)])
                    }
                    AssertKind::Overflow(op, a, b) => {
                        (format!("overflow:{:?}", op), vec![self.operand(env, body, a), self.operand(env, body, b)])
                    }
                    AssertKind::OverflowNeg(a) => ("overflow:Neg".into(), vec![self.operand(env, body, a)]),
                    AssertKind::DivisionByZero(a) => ("divzero".into(), vec![self.operand(env, body, a)]),
                    AssertKind::RemainderByZero(a) => ("remzero".into(), vec![self.operand(env, body, a)]),
                    other => (format!("other:{:?}", other), vec![]),
                };
                format!(
                    "{{\"k\":\"assert\",\"kind\":{},\"operands\":[{}],\"cond\":{},\"expected\":{},\"target\":{},\"unwind\":{},\"span\":{}}}",
                    js(&kind),
                    ops.join(","),
                    self.operand(env, body, cond),
                    expected,
                    target.as_usize(),
                    self.unwind(unwind),
                    sp
                )
            }
            TerminatorKind::FalseEdge { real_target, .. } => {
                format!("{{\"k\":\"goto\",\"target\":{},\"span\":{}}}", real_target.as_usize(), sp)
            }
            TerminatorKind::FalseUnwind { real_target, .. } => {
                format!("{{\"k\":\"goto\",\"target\":{},\"span\":{}}}", real_target.as_usize(), sp)
            }
            other => format!("{{\"k\":\"otherterm\",\"s\":{},\"span\":{}}}", js(&format!("{:?}", other)), sp),
        }
    }

    fn body(&self, did: DefId) -> String {
        let tcx = self.tcx;
        let body = tcx.optimized_mir(did);
        self.body_of(did, body)
    }

    // promoted constants of `did` (e.g. `&ConnectionState::Connected`, `&Duration::from_secs(3)` temporaries): tiny bodies computing `_0`
    fn promoted(&self, did: DefId) -> Vec<(String, String)> {
        let tcx = self.tcx;
        let mut out = Vec::new();
        for (i, b) in tcx.promoted_mir(did).iter_enumerated() {
            out.push((format!("{}::promoted[{}]", path_of(tcx, did), i.as_usize()), self.body_of(did, b)));
        }
        out
    }

    fn body_of(&self, did: DefId, body: &Body<'tcx>) -> String {
        let tcx = self.tcx;
        let env = TypingEnv::post_analysis(tcx, did);
        let mut out = String::new();
        let kind = tcx.def_kind(did);
        let vis = if matches!(kind, DefKind::Fn | DefKind::AssocFn) { format!("{:?}", tcx.visibility(did)) } else { "closure".into() };
        let generic = tcx.generics_of(did).count() > 0 && tcx.generics_of(did).requires_monomorphization(tcx);
        let _ = write!(
            out,
            "{{\"span\":{},\"vis\":{},\"kind\":{},\"generic\":{},\"argc\":{},\"locals\":[",
            self.span(body.span),
            js(&vis),
            js(&format!("{:?}", kind)),
            generic,
            body.arg_count
        );
        // user variable names
        let mut names: Vec<Option<String>> = vec![None; body.local_decls.len()];
        for vdi in body.var_debug_info.iter() {
            if let VarDebugInfoContents::Place(p) = &vdi.value {
                if p.projection.is_empty() {
                    names[p.local.as_usize()] = Some(vdi.name.to_string());
                }
            }
        }
        let mut first = true;
        for (l, decl) in body.local_decls.iter_enumerated() {
            if !first {
                out.push(',');
            }
            first = false;
            let _ = write!(
                out,
                "{{\"i\":{},\"ty\":{},\"name\":{},\"mut\":{}}}",
                l.as_usize(),
                self.ty(decl.ty, 0),
                names[l.as_usize()].as_ref().map(|n| js(n)).unwrap_or("null".into()),
                decl.mutability.is_mut()
            );
        }
        out.push_str("],\"blocks\":[");
        let mut firstb = true;
        for (bb, data) in body.basic_blocks.iter_enumerated() {
            if !firstb {
                out.push(',');
            }
            firstb = false;
            let _ = write!(out, "{{\"i\":{},\"cleanup\":{},\"stmts\":[", bb.as_usize(), data.is_cleanup);
            let mut firsts = true;
            for st in data.statements.iter() {
                let s = match &st.kind {
                    StatementKind::Assign(b) => Some(format!(
                        "{{\"k\":\"assign\",\"place\":{},\"rv\":{},\"span\":{}}}",
                        self.place(body, &b.0),
                        self.rvalue(env, body, &b.1),
                        self.span(st.source_info.span)
                    )),
                    StatementKind::SetDiscriminant { place, variant_index } => Some(format!(
                        "{{\"k\":\"setdiscr\",\"place\":{},\"variant\":{},\"span\":{}}}",
                        self.place(body, place),
                        variant_index.as_usize(),
                        self.span(st.source_info.span)
                    )),
                    StatementKind::Intrinsic(i) => Some(format!(
                        "{{\"k\":\"intrinsic\",\"s\":{},\"span\":{}}}",
                        js(&format!("{:?}", i)),
                        self.span(st.source_info.span)
                    )),
                    _ => None,
                };
                if let Some(s) = s {
                    if !firsts {
                        out.push(',');
                    }
                    firsts = false;
                    out.push_str(&s);
                }
            }
            let _ = write!(out, "],\"term\":{}}}", self.terminator(env, body, data.terminator()));
        }
        out.push_str("]}");
        out
    }
}

struct Cb;
impl rustc_driver::Callbacks for Cb {
    fn after_analysis<'tcx>(&mut self, _c: &rustc_interface::interface::Compiler, tcx: TyCtxt<'tcx>) -> Compilation {
        let dir = match std::env::var("VERIF_FACTS_DIR") {
            Ok(d) => d,
            Err(_) => return Compilation::Continue,
        };
        let nonce = std::env::var("VERIF_NONCE").unwrap_or_default();
        let krate = tcx.crate_name(LOCAL_CRATE).to_string();
        let cx = Cx { tcx };
        let mut out = String::new();
        let _ = write!(out, "{{\"crate\":{},\"nonce\":{},\"ptr_bits\":{},", js(&krate), js(&nonce), tcx.data_layout.pointer_size().bits());

        // ADTs, consts, statics
        let mut adts: Vec<String> = vec![];
        let mut consts: Vec<String> = vec![];
        let mut statics: Vec<String> = vec![];
        for ldid in tcx.hir_crate_items(()).definitions() {
            let did = ldid.to_def_id();
            match tcx.def_kind(did) {
                DefKind::Struct | DefKind::Enum | DefKind::Union => {
                    let def = tcx.adt_def(did);
                    let mut vs: Vec<String> = vec![];
                    for (vidx, v) in def.variants().iter_enumerated() {
                        let discr = if def.is_enum() { def.discriminant_for_variant(tcx, vidx).val.to_string() } else { "0".into() };
                        let fs: Vec<String> = v
                            .fields
                            .iter_enumerated()
                            .map(|(fi, f)| {
                                let fty = match tcx.try_normalize_erasing_regions(TypingEnv::post_analysis(tcx, did), tcx.type_of(f.did).instantiate_identity()) {
                                    Ok(t) => t,
                                    Err(_) => tcx.type_of(f.did).instantiate_identity().skip_norm_wip(),
                                };
                                format!("{{\"i\":{},\"name\":{},\"ty\":{}}}", fi.as_usize(), js(f.name.as_str()), cx.ty(fty, 0))
                            })
                            .collect();
                        vs.push(format!(
                            "{{\"name\":{},\"idx\":{},\"discr\":{},\"fields\":[{}]}}",
                            js(v.name.as_str()),
                            vidx.as_usize(),
                            discr,
                            fs.join(",")
                        ));
                    }
                    adts.push(format!(
                        "{}:{{\"kind\":{},\"variants\":[{}],\"span\":{}}}",
                        js(&path_of(tcx, did)),
                        js(&format!("{:?}", tcx.def_kind(did))),
                        vs.join(","),
                        cx.span(tcx.def_span(did))
                    ));
                }
                DefKind::Const { .. } | DefKind::AssocConst { .. } => {
                    if tcx.generics_of(did).count() == 0 {
                        let t = tcx.type_of(did).instantiate_identity().skip_norm_wip();
                        let val = match tcx.const_eval_poly(did) {
                            Ok(cv) => match cv.try_to_scalar_int() {
                                Some(si) => si.to_bits(si.size()).to_string(),
                                None => "null".into(),
                            },
                            Err(_) => "null".into(),
                        };
                        consts.push(format!("{}:{{\"ty\":{},\"val\":{}}}", js(&path_of(tcx, did)), cx.ty(t, 0), val));
                    }
                }
                DefKind::Static { mutability, .. } => {
                    statics.push(format!("{{\"path\":{},\"mutable\":{}}}", js(&path_of(tcx, did)), mutability.is_mut()));
                }
                _ => {}
            }
        }
        let _ = write!(out, "\"adts\":{{{}}},\"consts\":{{{}}},\"statics\":[{}],\"fns\":{{", adts.join(","), consts.join(","), statics.join(","));

        let mut first = true;
        let mut n = 0;
        for ldid in tcx.mir_keys(()) {
            let did = ldid.to_def_id();
            if !matches!(tcx.def_kind(did), DefKind::Fn | DefKind::AssocFn | DefKind::Closure) {
                continue;
            }
            if !first {
                out.push(',');
            }
            first = false;
            let _ = write!(out, "{}:{}", js(&path_of(tcx, did)), cx.body(did));
            n += 1;
            for (pp, pb) in cx.promoted(did) {
                let _ = write!(out, ",{}:{}", js(&pp), pb);
            }
        }
        out.push_str("}}");
        let path = format!("{}/{}.json", dir, krate);
        std::fs::write(&path, out).expect("write facts");
        eprintln!("verif-mir-driver: {} bodies -> {}", n, path);
        Compilation::Continue
    }
}

fn main() {
    let mut args: Vec<String> = std::env::args().collect();
    if args.len() > 1 && (args[1].ends_with("rustc") || args[1].contains("/rustc")) {
        args.remove(1);
    }
    rustc_driver::run_compiler(&args, &mut Cb);
}
