# rule instances shared by several properties (each property file gives the instance its own id)
import re
from sa.rules import *


def counted_flag_rule(t, rid, descr, fn, counter_adt, counter, flags, idx_pat, floor=1):
    """COUNTED-FLAG: a counter of distinct indices. Every `counter += 1` is dominated by the false edge of a load `flags[idx]` and the same
    region sets `flags[idx] = true` for the same idx (so an index can never be counted twice)."""
    r = RuleResult(rid, descr, floor=floor)
    guards = [br for br in t.branches(fn) if br["kind"] == "bool" and re.search(r"::index\(.*" + flags + r", " + idx_pat + r"\)$", fmt(br["raw"]))]
    marks = [x for x in t.sites(fn) if x.node["k"] == "assign" and x.node["place"]["proj"] and re.search(r"::index_mut\(.*" + flags + r", " + idx_pat + r"\)$", fmt(t.place(x)))]
    for s in t.stores_like(r"\." + counter + r"$", fn):
        r.site(s, fmt(t.stored(s))[-60:])
        v = fmt(t.stored(s))
        if not re.search(re.escape(counter) + r" AddWithOverflow 1\)\.0$", v): r.bad(f"{fn.path}|step", s, f"{counter} changes by something else than +1: {v[-50:]}"); continue
        if not any(t.edge_dominates(fn, br["f_edge"], s.bb) for br in guards):
            r.bad(f"{fn.path}|once", s, f"{counter} incremented without the `!{flags}[index]` test: an index acknowledged/received twice is counted twice"); continue
        ok = False
        for m in marks:
            if const_eval(t.stored(m)) != 1: continue
            if fn.dominates(m.bb, s.bb) or must_pass(fn, pos(s), {pos(m)})[0]: ok = True
        if not ok: r.bad(f"{fn.path}|mark", s, f"{flags}[index] is not set to true on every path that counts the index")
    return r


def ack_once(t, rid):
    pa = t.fn("SendChannelReliable::process_slice_message_ack")
    r = counted_flag_rule(t, rid, "a slice is counted as acknowledged once: `num_acked_slices += 1` only behind `!acked[slice_index]`, which is then set; release only at num_acked_slices == num_slices",
                          pa, "channel::reliable::UnackedMessage", "num_acked_slices", "acked", r"P3\(slice_index\)", floor=2)
    eq = list(t.find_cmp(pa, lambda a: t.is_field(a, "num_acked_slices"), lambda b: t.is_field(b, "num_slices"), None))
    for c in t.effects("unacked_messages", {"remove"}, pa):
        r.site(c)
        if not any(op == "Eq" and t.edge_dominates(pa, te, c.bb) for br, op, te, fe in eq): r.bad("release-complete", c, "sliced message released without `num_acked_slices == num_slices`")
    return r



def seq_unique(t, rid):
    """every emitted packet takes the shared packet sequence counter and the counter is advanced by one before the next packet is built
    (or the function returns): two packets can never carry the same sequence, so sent_packets never maps one sequence to two packets"""
    r = RuleResult(rid, "each emitted packet gets its own sequence: built from the sequence counter, counter advanced by one before the next packet / return", floor=7)
    for name in ("SendChannelReliable::get_packets_to_send", "SendChannelUnreliable::get_packets_to_send", "RenetClient::get_packets_to_send"):
        f = t.fn(name)
        aggr = list(t.aggrs("renet::packet::Packet", None, f))
        allst = list(t.stores_like(r"packet_sequence\)?$", f))
        bumps = [s for s in allst if re.search(r"packet_sequence\)? AddWithOverflow 1\)\.0$", fmt(t.stored(s)))]
        other = [s for s in allst if s not in bumps]
        for s in other: r.bad(f"{name}|other-store", s, f"packet sequence counter assigned {fmt(t.stored(s))[-50:]} (only +1 is allowed)")
        for a in aggr:
            r.site(a, a.node["rv"]["vname"])
            seq = fmt(t.field_of_aggr(a, "sequence"))
            if not re.search(r"packet_sequence\)?$", seq): r.bad(f"{name}|seq-src|{a.node['rv']['vname']}", a, f"packet sequence is {seq[-50:]}, not the sequence counter"); continue
            ok, w = must_pass(f, pos(a), {pos(b) for b in bumps}, stops={pos(x) for x in aggr if x is not a})
            if not ok: r.bad(f"{name}|no-bump|{a.node['rv']['vname']}", a, f"after building this {a.node['rv']['vname']} packet the sequence counter is not advanced on every path before the next packet / return (two packets can share a sequence)")
    return r


def aad_layout(t, g, r, need):
    """layout of an additional-data builder: every byte range written, its source; ranges must be pairwise disjoint, cover the whole
    buffer, and each required source must own a range (so no bound field can be overwritten or left out of the authenticated data)"""
    parts = []   # (lo, hi, source text, site)
    n = None
    for c in t.calls(r"copy_from_slice$", g):
        dst = strip(t.arg(c, 0)); src = fmt(t.arg(c, 1))
        m = None
        for recv, idx in find_index_ranges(dst): m = (recv, idx)
        if m is None: r.bad(f"{g.path}|dst", c, f"cannot resolve the AAD range written by {fmt(dst)[:60]}"); continue
        recv, (lo, hi) = m
        mm = re.search(r"'repeat', \('const', 0, '0_u8'\), (\d+)\)", recv)
        if mm: n = int(mm.group(1))
        parts.append((lo, hi if hi is not None else n, src, c))
    for s_ in t.sites(g):
        nd = s_.node
        if nd["k"] == "assign" and nd["place"]["proj"] and nd["place"]["proj"][-1]["k"] in ("index", "cindex"):
            pl = t.place(s_)
            k = const_eval(pl[2]) if isinstance(pl, tuple) and pl[0] == "index" else None
            mm = re.search(r"'repeat', \('const', 0, '0_u8'\), (\d+)\)", fmt(pl))
            if mm: n = int(mm.group(1))
            if k is None: r.bad(f"{g.path}|idx", s_, "AAD byte written at a non-constant index"); continue
            parts.append((k, k + 1, fmt(t.stored(s_)), s_))
    parts.sort(key=lambda p_: (p_[0], p_[1]))
    for p_ in parts: r.site(p_[3], f"[{p_[0]}..{p_[1]}) <- {p_[2][-40:]}")
    cur = 0
    for lo, hi, src, site in parts:
        if lo < cur: r.bad(f"{g.path}|overlap|{lo}", site, f"AAD range [{lo}..{hi}) overlaps the previous one (ends at {cur}): a bound field is overwritten and no longer authenticated")
        elif lo > cur: r.bad(f"{g.path}|gap|{cur}", site, f"AAD bytes [{cur}..{lo}) are never written")
        cur = max(cur, hi or 0)
    if n is not None and cur != n: r.bad(f"{g.path}|tail|{cur}", None, f"AAD bytes [{cur}..{n}) are never written")
    for what, pat in need.items():
        own = [p_ for p_ in parts if re.search(pat, p_[2])]
        if len(own) != 1: r.bad(f"{g.path}|source|{what}", None, f"{what} must own exactly one AAD range, found {len(own)}")
        elif what != "version" and "to_le_bytes" in own[0][2] and own[0][1] - own[0][0] != 8: r.bad(f"{g.path}|width|{what}", own[0][3], f"{what} is 8 bytes wide but its AAD range is [{own[0][0]}..{own[0][1]})")
    return parts


def find_index_ranges(o, out=None):
    """(receiver text, (lo, hi)) for index_mut(recv, Range/RangeTo/RangeFrom{consts}) calls inside o"""
    if out is None: out = []
    if isinstance(o, tuple):
        if o and o[0] == "call" and method_of(o[1]) in ("index", "index_mut") and len(o[2]) == 2:
            rg = strip(o[2][1])
            if isinstance(rg, tuple) and rg[0] == "aggr":
                nm = str(rg[1])
                vals = [const_eval(x) for x in rg[3]]
                if nm.endswith("RangeTo"): out.append((fmt(o[2][0]), (0, vals[0])))
                elif nm.endswith("RangeFrom"): out.append((fmt(o[2][0]), (vals[0], None)))
                elif nm.endswith("Range"): out.append((fmt(o[2][0]), (vals[0], vals[1])))
        for x in o:
            if isinstance(x, tuple): find_index_ranges(x, out)
    return out


def aad_rule(t, rid, which):
    if which == "packet":
        r = RuleResult(rid, "packet AAD layout: version | protocol id | prefix byte in disjoint ranges covering the whole buffer", floor=3)
        aad_layout(t, t.fn("renetcode::packet::get_additional_data"), r, {"version": r"NETCODE_VERSION_INFO", "protocol id": r"to_le_bytes\(P\d\(protocol_id\)\)", "prefix byte": r"^P\d\(prefix\)$"})
    else:
        r = RuleResult(rid, "connect-token AAD layout: version | protocol id | expire timestamp in disjoint ranges covering the whole buffer", floor=3)
        aad_layout(t, t.fn("renetcode::token::get_additional_data"), r, {"version": r"NETCODE_VERSION_INFO", "protocol id": r"to_le_bytes\(P\d\(protocol_id\)\)", "expire timestamp": r"to_le_bytes\(P\d\(expire_timestamp\)\)"})
    return r


def slots_match_limit(t, rid):
    """the slot array and the client limit move together: whenever max_clients is changed outside `new`, a resize of the slots uses exactly the
    new limit as length (never more: the 'no free slot' refusal relies on len(clients) <= max_clients) and happens only when it grows
    (never truncating occupied slots); in `new` both come from the same configuration value"""
    NS = "server::NetcodeServer"
    r = RuleResult(rid, "client slots and max_clients move together: resize to exactly the new limit, only when growing; equal in new()", floor=3)
    for s in t.stores(NS, "max_clients"):
        f = s.fn
        if f.path.endswith("::new"): continue
        r.site(s, "limit store")
        lim = t.stored(s)
        rz = [c for c in t.calls(r"Vec.*::resize$|::resize$", f) if t.mentions_field(t.arg(c, 0), "clients")]
        st = list(t.stores(NS, "clients", f))
        if not rz or not st: r.bad(f"{f.path}|no-resize", s, "max_clients can be raised above the number of client slots: later handshakes are denied although the limit allows them"); continue
        for c in rz:
            r.site(c, "resize")
            n = t.arg(c, 1)
            if not same(n, lim): r.bad(f"{f.path}|resize-len", c, f"slots resized to {fmt(n)[:60]} but the limit becomes {fmt(lim)[:60]}: more (or fewer) slots than max_clients")
            g = [(br, op, te, fe) for br, op, te, fe in t.find_cmp(f, lambda a: same(a, n), lambda b: "::len(" in fmt(b) and t.mentions_field(b, "clients"), None)]
            if not any(op == "Gt" and t.edge_dominates(f, te, c.bb) for br, op, te, fe in g) and not any(op == "Le" and t.edge_dominates(f, fe, c.bb) for br, op, te, fe in g):
                r.bad(f"{f.path}|resize-guard", c, "slots are resized without the test `new limit > clients.len()`: lowering or re-raising the limit can truncate occupied slots (clients vanish without ClientDisconnected)")
        for x in st:
            if not t.mentions_call(t.stored(x), r"resize|into_boxed_slice|into_vec"): r.bad(f"{f.path}|clients-store", x, f"clients replaced by {fmt(t.stored(x))[:60]}")
    nw = t.fn("NetcodeServer::new")
    for a in t.aggrs(NS, None, nw):
        r.site(a, "constructor")
        cl, mc = fmt(t.field_of_aggr(a, "clients")), fmt(t.field_of_aggr(a, "max_clients"))
        if mc not in cl: r.bad("new|mismatch", a, f"new(): slots built from {cl[:60]} but max_clients = {mc[:40]}")
    return r
