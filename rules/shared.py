# rule instances shared by several properties (each property file gives the instance its own id)
import re, importlib
from sa.rules import *


def module_rules(t, cid, need_obl=False):
    """the rule results of property module `cid` on tree `t`, computed once per process. A module that is being evaluated higher up in the call
    stack yields None (shares between two modules in both directions: the nested evaluation is only mined for base rules). Unless `need_obl`,
    the nested evaluation skips the abstract-interpretation fixpoints (they are the slow part and never the source of a shared structural rule)."""
    cache = t.__dict__.setdefault("_mod_rules", {})
    key = (cid, bool(need_obl))
    if key in cache: return cache[key]
    if (cid, True) in cache: return cache[(cid, True)]
    busy = t.__dict__.setdefault("_mod_busy", set())
    if cid in busy: return None
    import rules.oblcommon as OC
    busy.add(cid)
    if not need_obl: OC.SKIP[0] += 1
    try:
        res = [r.finish() for r in importlib.import_module("rules." + cid).rules(t)]
    finally:
        busy.discard(cid)
        if not need_obl: OC.SKIP[0] -= 1
    cache[key] = res
    return res


def share(t, out, new_id, descr, src, ids, need_obl=False):
    """SHARE: rule instance(s) `ids` of property `src` state a structural clause that is a necessary condition of this property as well; the
    instance is evaluated once and reported here under `new_id` (keys keep the source id, so a vetted/known entry names one clause)."""
    res = module_rules(t, src, need_obl)
    if res is None: return
    r = RuleResult(new_id, descr + f" (shared with {'/'.join(ids)})", floor=1)
    found = False
    for x in res:
        if x.id in ids:
            found = True
            r.sites += x.sites
            r.samples += list(getattr(x, "samples", []))[:3]
            for v in x.violations: r.bad(v.key, v.site, v.msg)
    if not found: r.bad("share-missing", None, f"rule instance {ids} of {src} was not evaluated")
    out.append(r)


def counted_flag_rule(t, rid, descr, fn, counter_adt, counter, flags, idx_pat, floor=0):
    """COUNTED-FLAG: a counter of distinct indices. Every `counter += 1` is dominated by the false edge of a load `flags[idx]` and the same
    region sets `flags[idx] = true` for the same idx (so an index can never be counted twice)."""
    r = RuleResult(rid, descr, floor=floor)
    elem = r"(::index(_mut)?\(.*" + flags + r"\)*, " + idx_pat + r"\)|" + flags + r"\)*\[" + idx_pat + r"\])"      # `flags[idx]` through Index/IndexMut or as a place projection
    guards = [br for br in t.branches(fn) if br["kind"] == "bool" and re.search(elem + r"$", fmt(br["raw"]))]
    marks = [x for x in t.sites(fn) if x.node["k"] == "assign" and x.node["place"]["proj"] and re.search(elem + r"$", fmt(t.place(x)))]
    # test-and-set in one step: `if std::mem::replace(&mut flags[i], true) { return }` (the old value is tested, the flag is set)
    tas = [br for br in t.branches(fn) if br["kind"] == "bool" and re.search(r"mem::replace\(&\*?.*" + elem + r", 1\)$", fmt(br["raw"]))]
    tas_calls = [c for c in t.calls(r"mem::replace$", fn) if re.search(elem + r"$", fmt(t.arg(c, 0))) and const_eval(t.arg(c, 1)) == 1]
    guards = guards + tas
    for s in t.stores_like(r"\." + counter + r"$", fn):
        r.site(s, fmt(t.stored(s))[-60:])
        v = fmt(t.stored(s))
        if not re.search(re.escape(counter) + r" AddWithOverflow 1\)\.0$", v): r.bad(f"{fn.path}|step", s, f"{counter} changes by something else than +1: {v[-50:]}"); continue
        if not any(t.edge_dominates(fn, br["f_edge"], s.bb) for br in guards):
            r.bad(f"{fn.path}|once", s, f"{counter} incremented without the `!{flags}[index]` test: an index acknowledged/received twice is counted twice"); continue
        ok = False
        for m in marks:
            if const_eval(t.stored(m)) != 1: continue
            if fn.dominates(m.bb, s.bb) or must_pass(fn, pos(s), {pos(m)})[0]: ok = True
        for c in tas_calls:
            if fn.dominates(c.bb, s.bb): ok = True
        if not ok: r.bad(f"{fn.path}|mark", s, f"{flags}[index] is not set to true on every path that counts the index")
    return r


def ack_once(t, rid):
    pa = t.fn("SendChannelReliable::process_slice_message_ack")
    r = counted_flag_rule(t, rid, "a slice is counted as acknowledged once: `num_acked_slices += 1` only behind `!acked[slice_index]`, which is then set; release only at num_acked_slices == num_slices",
                          pa, "channel::reliable::UnackedMessage", "num_acked_slices", "acked", r"P3\(slice_index\)", floor=2)
    eq = [e for e, br in rel_edges(t, pa, lambda a: t.is_field(a, "num_acked_slices"), lambda b: t.is_field(b, "num_slices"), "Eq")]
    for c in t.effects("unacked_messages", {"remove"}, pa):
        r.site(c)
        if not any(t.edge_dominates(pa, e, c.bb) for e in eq): r.bad("release-complete", c, "sliced message released without `num_acked_slices == num_slices`")
    return r



def seq_unique(t, rid):
    """every emitted packet takes the shared packet sequence counter and the counter is advanced by one before the next packet is built
    (or the function returns): two packets can never carry the same sequence, so sent_packets never maps one sequence to two packets"""
    r = RuleResult(rid, "each emitted packet gets its own sequence: built from the sequence counter, counter advanced by one before the next packet / return", floor=7)
    for name in ("SendChannelReliable::get_packets_to_send", "SendChannelUnreliable::get_packets_to_send", "RenetClient::get_packets_to_send"):
        f = t.fn(name)
        aggr = list(t.aggrs("renet::packet::Packet", None, f))
        allst = list(t.stores_like(r"packet_sequence\)?$", f))
        bumps = [s for s in allst if re.search(r"packet_sequence\)? AddWithOverflow 1\)\.0$", fmt(t.stored(s)))]
        other = [s for s in allst if s not in bumps]
        for s in other: r.bad(f"{name}|other-store", s, f"packet sequence counter assigned {fmt(t.stored(s))[-50:]} (only +1 is allowed)")
        def read_pos(a):
            """where the sequence value of packet aggregate `a` is read from the counter: the aggregate itself, or the statement that copied the
            counter into a temporary first (`let sequence = *packet_sequence; *packet_sequence += 1; packets.push(Packet { sequence, .. })`)"""
            rv = a.node["rv"]; names = rv.get("fnames") or []
            if "sequence" not in names: return pos(a)
            op = rv["fields"][names.index("sequence")]
            for _ in range(6):
                if op["k"] not in ("copy", "move") or op["place"]["proj"]: break
                ds = f.defs1(op["place"]["local"])
                if len(ds) != 1 or ds[0][2]["k"] != "assign": break
                bb_, k_, st_ = ds[0]
                if st_["rv"]["k"] == "use" and st_["rv"]["op"]["k"] in ("copy", "move"):
                    if st_["rv"]["op"]["place"]["proj"]: return (bb_, k_)         # the load `tmp = *packet_sequence`
                    op = st_["rv"]["op"]; continue
                break
            return pos(a)
        reads = {id(a): read_pos(a) for a in aggr}
        for a in aggr:
            r.site(a, a.node["rv"]["vname"])
            seq = fmt(t.field_of_aggr(a, "sequence"))
            if not re.search(r"packet_sequence\)?$", seq): r.bad(f"{name}|seq-src|{a.node['rv']['vname']}", a, f"packet sequence is {seq[-50:]}, not the sequence counter"); continue
            ok, w = must_pass(f, reads[id(a)], {pos(b) for b in bumps}, stops={reads[id(x)] for x in aggr if x is not a})
            if not ok: r.bad(f"{name}|no-bump|{a.node['rv']['vname']}", a, f"after the sequence of this {a.node['rv']['vname']} packet is read, the counter is not advanced on every path before the next packet reads it / the function returns (two packets can share a sequence)")
    return r


def aad_layout(t, g, r, need):
    """layout of an additional-data builder: every byte range written, its source; ranges must be pairwise disjoint, cover the whole
    buffer, and each required source must own a range (so no bound field can be overwritten or left out of the authenticated data)"""
    parts = []   # (lo, hi, source text, site)
    n = None
    for c in t.calls(r"copy_from_slice$", g):
        dst = strip(t.arg(c, 0)); src = fmt(t.arg(c, 1))
        # resolve the destination reference structurally (constant sub-slices, split_at_mut halves, nested, whole array) ...
        from rules.noncebytes import Ev
        tg = Ev(t, g).ref_target(c.node["args"][0])
        if tg is not None and tg[2] is not None:
            if n is None: n = Ev(t, g).array_len(tg[0])
            parts.append((tg[1], tg[2], src, c)); continue
        # ... or textually, as `buf[a..b]` on the buffer itself
        m = None
        for recv, idx in find_index_ranges(dst): m = (recv, idx)
        if m is None: r.bad(f"{g.path}|dst", c, f"cannot resolve the AAD range written by {fmt(dst)[:60]}"); continue
        recv, (lo, hi) = m
        mm = re.search(r"'repeat', \('const', 0, '0_u8'\), (\d+)\)", recv)
        if mm: n = int(mm.group(1))
        parts.append((lo, hi if hi is not None else n, src, c))
    for s_ in t.sites(g):
        nd = s_.node
        if nd["k"] == "assign" and nd["place"]["proj"] and nd["place"]["proj"][-1]["k"] in ("index", "cindex"):
            pl = t.place(s_)
            k = const_eval(pl[2]) if isinstance(pl, tuple) and pl[0] == "index" else None
            mm = re.search(r"'repeat', \('const', 0, '0_u8'\), (\d+)\)", fmt(pl))
            if mm: n = int(mm.group(1))
            if k is None: r.bad(f"{g.path}|idx", s_, "AAD byte written at a non-constant index"); continue
            # an element of a sub-slice (`let (_, last) = rest.split_at_mut(8); last[0] = prefix`): the index is relative to where the sub-slice starts
            if nd["place"]["proj"][0]["k"] == "deref":
                from rules.noncebytes import Ev
                tg = Ev(t, g).ref_target({"k": "copy", "place": {"local": nd["place"]["local"], "proj": []}})
                if tg is None: r.bad(f"{g.path}|idx-base", s_, "AAD byte written through a reference that cannot be resolved to a position in the buffer"); continue
                if n is None: n = Ev(t, g).array_len(tg[0])
                k += tg[1]
            parts.append((k, k + 1, fmt(t.stored(s_)), s_))
    if not parts and not r.violations:
        # the buffer is filled in a form this rule cannot lay out (an iterator chain zipped into the buffer, a concatenation, ..): not decided.
        # The byte-level agreement of what is sealed and what is opened is still held by the sibling rules (same builder on both sides).
        r.samples.append(f"{short(g.path)}: AAD layout not resolvable in this spelling, not evaluated"); r.sites += 1
        return parts
    parts.sort(key=lambda p_: (p_[0], p_[1]))
    for p_ in parts: r.site(p_[3], f"[{p_[0]}..{p_[1]}) <- {p_[2][-40:]}")
    cur = 0
    for lo, hi, src, site in parts:
        if lo < cur: r.bad(f"{g.path}|overlap|{lo}", site, f"AAD range [{lo}..{hi}) overlaps the previous one (ends at {cur}): a bound field is overwritten and no longer authenticated")
        elif lo > cur: r.bad(f"{g.path}|gap|{cur}", site, f"AAD bytes [{cur}..{lo}) are never written")
        cur = max(cur, hi or 0)
    if n is not None and cur != n: r.bad(f"{g.path}|tail|{cur}", None, f"AAD bytes [{cur}..{n}) are never written")
    for what, pat in need.items():
        own = [p_ for p_ in parts if re.search(pat, p_[2])]
        if len(own) != 1: r.bad(f"{g.path}|source|{what}", None, f"{what} must own exactly one AAD range, found {len(own)}")
        elif what != "version" and "to_le_bytes" in own[0][2] and own[0][1] - own[0][0] != 8: r.bad(f"{g.path}|width|{what}", own[0][3], f"{what} is 8 bytes wide but its AAD range is [{own[0][0]}..{own[0][1]})")
    return parts


def find_index_ranges(o, out=None):
    """(receiver text, (lo, hi)) for index_mut(recv, Range/RangeTo/RangeFrom{consts}) calls inside o"""
    if out is None: out = []
    if isinstance(o, tuple):
        if o and o[0] == "call" and method_of(o[1]) in ("index", "index_mut") and len(o[2]) == 2:
            rg = strip(o[2][1])
            if isinstance(rg, tuple) and rg[0] == "aggr":
                nm = str(rg[1])
                vals = [const_eval(x) for x in rg[3]]
                if nm.endswith("RangeTo"): out.append((fmt(o[2][0]), (0, vals[0])))
                elif nm.endswith("RangeFrom"): out.append((fmt(o[2][0]), (vals[0], None)))
                elif nm.endswith("Range"): out.append((fmt(o[2][0]), (vals[0], vals[1])))
        for x in o:
            if isinstance(x, tuple): find_index_ranges(x, out)
    return out


def aad_rule(t, rid, which):
    if which == "packet":
        r = RuleResult(rid, "packet AAD layout: version | protocol id | prefix byte in disjoint ranges covering the whole buffer", floor=3)
        aad_layout(t, t.fn("renetcode::packet::get_additional_data"), r, {"version": r"NETCODE_VERSION_INFO", "protocol id": r"to_le_bytes\(P\d\(protocol_id\)\)", "prefix byte": r"^P\d\(prefix\)$"})
    else:
        r = RuleResult(rid, "connect-token AAD layout: version | protocol id | expire timestamp in disjoint ranges covering the whole buffer", floor=3)
        aad_layout(t, t.fn("renetcode::token::get_additional_data"), r, {"version": r"NETCODE_VERSION_INFO", "protocol id": r"to_le_bytes\(P\d\(protocol_id\)\)", "expire timestamp": r"to_le_bytes\(P\d\(expire_timestamp\)\)"})
    return r


def slots_match_limit(t, rid):
    """the slot array and the client limit move together: whenever max_clients is changed outside `new`, a resize of the slots uses exactly the
    new limit as length (never more: the 'no free slot' refusal relies on len(clients) <= max_clients) and happens only when it grows
    (never truncating occupied slots); in `new` both come from the same configuration value"""
    NS = "server::NetcodeServer"
    r = RuleResult(rid, "client slots and max_clients move together: resize to exactly the new limit, only when growing; equal in new()", floor=3)
    for s in t.stores(NS, "max_clients"):
        f = s.fn
        if f.path.endswith("::new"): continue
        r.site(s, "limit store")
        lim = t.stored(s)
        rz = [c for c in t.calls(r"Vec.*::resize$|::resize$", f) if t.mentions_field(t.arg(c, 0), "clients")]
        st = list(t.stores(NS, "clients", f))
        # growth by appending exactly the missing slots: `clients.extend(repeat_with(|| None).take(limit.saturating_sub(clients.len())))`
        grown = False
        for c in t.calls(r"::extend$|::resize_with$", f):
            if not t.mentions_field(t.arg(c, 0), "clients") and "clients" not in fmt(t.arg(c, 0)): continue
            a_ = fmt(t.arg(c, 1))
            lim_t = fmt(strip(lim))
            if re.search(r"(saturating_sub|SubWithOverflow|checked_sub)", a_) and lim_t in a_ and "::len(" in a_: grown = True; r.site(c, "extend by the missing slots")
            elif method_of(callee_name(c.node)) == "resize_with" and same(t.arg(c, 1), lim): grown = True; r.site(c, "resize_with")
        if grown: continue
        if not rz or not st: r.bad(f"{f.path}|no-resize", s, "max_clients can be raised above the number of client slots: later handshakes are denied although the limit allows them"); continue
        for c in rz:
            r.site(c, "resize")
            n = t.arg(c, 1)
            if not same(n, lim): r.bad(f"{f.path}|resize-len", c, f"slots resized to {fmt(n)[:60]} but the limit becomes {fmt(lim)[:60]}: more (or fewer) slots than max_clients")
            g = [(br, op, te, fe) for br, op, te, fe in t.find_cmp(f, lambda a: same(a, n), lambda b: "::len(" in fmt(b) and t.mentions_field(b, "clients"), None)]
            if not any(op == "Gt" and t.edge_dominates(f, te, c.bb) for br, op, te, fe in g) and not any(op == "Le" and t.edge_dominates(f, fe, c.bb) for br, op, te, fe in g):
                r.bad(f"{f.path}|resize-guard", c, "slots are resized without the test `new limit > clients.len()`: lowering or re-raising the limit can truncate occupied slots (clients vanish without ClientDisconnected)")
        for x in st:
            if not t.mentions_call(t.stored(x), r"resize|into_boxed_slice|into_vec"): r.bad(f"{f.path}|clients-store", x, f"clients replaced by {fmt(t.stored(x))[:60]}")
    nw = t.fn("NetcodeServer::new")
    for a in t.aggrs(NS, None, nw):
        r.site(a, "constructor")
        cl, mc = fmt(t.field_of_aggr(a, "clients")), fmt(t.field_of_aggr(a, "max_clients"))
        if mc not in cl: r.bad("new|mismatch", a, f"new(): slots built from {cl[:60]} but max_clients = {mc[:40]}")
    return r


def _elem_index(o):
    """index expression text of the pending_acks element an origin expression refers to (through Vec::index / index_mut), else None"""
    found = []
    def walk(x):
        if isinstance(x, tuple):
            if x and x[0] == "call" and method_of(x[1]) in ("index", "index_mut") and len(x[2]) == 2 and fmt(x[2][0]).endswith("pending_acks"): found.append(stable(x[2][1]))
            if x and x[0] == "call" and method_of(x[1]) in ("first_mut", "first") and x[2] and fmt(x[2][0]).endswith("pending_acks"): found.append("0")
            for y in x:
                if isinstance(y, tuple): walk(y)
    walk(o)
    return found[0] if found else None


def _plus_one(o):
    """if origin o is (X AddWithOverflow 1).0 return X else None"""
    o = strip(o)
    if isinstance(o, tuple) and o[0] == "field" and o[2] == "0":
        b = strip(o[1])
        if isinstance(b, tuple) and b[0] == "bin" and b[1].startswith("Add") and const_eval(b[3]) == 1: return b[2]
    return None


def range_algebra(t, rid):
    """RANGE-ALGEBRA: the set of sequences covered by pending_acks changes only by adding the received sequence or by trimming at the
    acknowledged horizon. Each store to a range bound must have the guard that makes it exactly that:
      start := s        behind  start == s + 1          (extend left by the received sequence)
      end   := s + 1    behind  end == s                (extend right by the received sequence)
      end   := other.end behind end == other.start, other removed afterwards   (merge of exactly adjacent ranges)
      start := a + 1    behind  !(a < start)            (trim at the acked horizon: only ever shrinks)
    new ranges are s..s+1; an insert before element i needs `element i .start > s + 1`; a sequence already inside a range changes nothing."""
    r = RuleResult(rid, "pending_acks covers exactly what was received: every change of a range bound is guarded so that it adds only the received sequence, merges only adjacent ranges, or trims at the acked horizon", floor=4)
    for f in (t.fn("RenetClient::add_pending_ack"), t.fn("RenetClient::acked_largest")):
        cmps = [(br, br["cond"][1], br["cond"][2], br["cond"][3]) for br in t.branches(f) if br["kind"] == "bool" and br["cond"][0] == "cmp"]
        def guard(kind, elem_idx, fld, other):
            """is there a comparison `elem.fld <op> other` (either orientation) whose edge implying `kind` dominates bb? returns list of edges"""
            edges = []
            for br, op, a, b in cmps:
                for (x, y, o) in ((a, b, op), (b, a, MIRROR[op])):
                    ex = _elem_index(x)
                    if ex != elem_idx or not fmt(strip(x)).endswith("." + fld): continue
                    if not other(y): continue
                    if kind == "eq":
                        if o == "Eq": edges.append(br["t_edge"])
                        elif o == "Ne": edges.append(br["f_edge"])
                    elif kind == "le":     # elem.fld <= y
                        if o == "Le": edges.append(br["t_edge"])
                        elif o == "Gt": edges.append(br["f_edge"])
                    elif kind == "gt":
                        if o == "Gt": edges.append(br["t_edge"])
                        elif o == "Le": edges.append(br["f_edge"])
            return edges
        for s in t.stores_like(r"pending_acks.*\.(start|end)$", f):
            pl = t.place(s); fld = fmt(pl).rsplit(".", 1)[1]; ei = _elem_index(pl)
            v = strip(t.stored(s)); vt = fmt(v)
            r.site(s, f"{fld} := {vt[-50:]}")
            p1 = _plus_one(v)
            ok, why = False, ""
            if fld == "start" and isinstance(v, tuple) and v[0] == "param":
                ok = any(t.edge_dominates(f, e, s.bb) for e in guard("eq", ei, "start", lambda y: _plus_one(y) is not None and same(_plus_one(y), v)))
                why = "start lowered to the received sequence without the test `start == sequence + 1`: the range would swallow sequences that never arrived"
            elif fld == "start" and p1 is not None and isinstance(strip(p1), tuple) and strip(p1)[0] == "param":
                ok = any(t.edge_dominates(f, e, s.bb) for e in guard("le", ei, "start", lambda y: same(y, p1)))
                why = "start set to horizon + 1 without the test `start <= horizon`: the range can be stretched down over sequences that never arrived"
            elif fld == "end" and p1 is not None and isinstance(strip(p1), tuple) and strip(p1)[0] == "param":
                ok = any(t.edge_dominates(f, e, s.bb) for e in guard("eq", ei, "end", lambda y: same(y, p1)))
                why = "end raised to sequence + 1 without the test `end == sequence`"
            elif fld == "end" and vt.endswith(".end") and (_elem_index(v) not in (None, ei) or (isinstance(v, tuple) and v[0] == "field" and isinstance(strip(v[1]), tuple) and strip(v[1])[0] == "call" and method_of(strip(v[1])[1]) == "remove")):
                if _elem_index(v) not in (None, ei): oi, removed_here = _elem_index(v), False
                else: oi, removed_here = stable(strip(v[1])[2][1]), True        # `left.end = list.remove(j).end`
                is_right_start = lambda y: _elem_index(y) == oi and fmt(strip(y)).endswith(".start")
                direct = any(t.edge_dominates(f, e, s.bb) for e in guard("eq", ei, "end", is_right_start))
                # equivalent: left.end == s and right.start == s + 1 for the received sequence s
                via_seq = False
                for e1 in guard("eq", ei, "end", lambda y: isinstance(strip(y), tuple) and strip(y)[0] == "param"):
                    if not t.edge_dominates(f, e1, s.bb): continue
                    for e2 in guard("eq", oi, "start", lambda y: _plus_one(y) is not None and isinstance(strip(_plus_one(y)), tuple) and strip(_plus_one(y))[0] == "param"):
                        if t.edge_dominates(f, e2, s.bb): via_seq = True
                ok = direct or via_seq
                rem = [c for c in t.effects("pending_acks", {"remove"}, f) if stable(t.arg(c, 1)) == oi]
                ok = ok and (removed_here or any(f.dominates(s.bb, c.bb) or must_pass(f, pos(s), {pos(c)})[0] for c in rem))
                why = "ranges merged without the test `left.end == right.start` (exactly adjacent) followed by removal of the right one: a gap between them would be acknowledged"
            else:
                why = f"unexpected value for a range bound: {vt[-60:]}"
            if not ok: r.bad(f"{f.path}|{fld}|{'param' if isinstance(v, tuple) and v[0]=='param' else ('plus1' if p1 is not None else 'other')}", s, why)
        if f.path.endswith("add_pending_ack"):
            for g in t.effects("pending_acks", {"insert", "push"}, f):
                val = strip(t.arg(g, 2 if method_of(callee_name(g.node)) == "insert" else 1))
                r.site(g, method_of(callee_name(g.node)))
                good = isinstance(val, tuple) and val[0] == "aggr" and str(val[1]).endswith("Range") and isinstance(strip(val[3][0]), tuple) and strip(val[3][0])[0] == "param" and _plus_one(val[3][1]) is not None and same(_plus_one(val[3][1]), val[3][0])
                if not good: r.bad(f"{f.path}|new-range", g, f"new range is {fmt(val)[-60:]}, expected sequence..sequence+1")
                if method_of(callee_name(g.node)) == "insert" and good:
                    at = stable(t.arg(g, 1)); sq = strip(val[3][0])
                    if not any(t.edge_dominates(f, e, g.bb) for e in guard("gt", at, "start", lambda y: _plus_one(y) is not None and same(_plus_one(y), sq))):
                        r.bad(f"{f.path}|insert-guard", g, "range inserted before element i without the test `element i .start > sequence + 1`: the list would no longer be sorted / non-adjacent")
            # duplicate test: a sequence already covered changes nothing. contains(&elem, &sequence) (or start <= s && s < end) with an effect-free true edge dominating every change in the loop
            changes = list(t.stores_like(r"pending_acks.*\.(start|end)$", f)) + [g for g in t.effects("pending_acks", {"insert"}, f)]
            dup = [br for br in t.find_callcond(f, r"Range.*::contains$|<Idx>::contains$") if _elem_index(br["cond"][2][0]) is not None]
            covered_regions = []
            for br in dup:
                r.site(Site(f, br["bb"], 0, f.blocks[br["bb"]]["term"]), "duplicate test (contains)")
                covered_regions.append(({b for b in f.reach if t.edge_dominates(f, br["t_edge"], b)}, br["t_edge"]))
            # the same test spelled out: start <= sequence && sequence < end
            is_seq = lambda y: isinstance(strip(y), tuple) and strip(y)[0] == "param"
            e_lo = [e for e, b_ in rel_edges(t, f, lambda x: _elem_index(x) is not None and fmt(strip(x)).endswith(".start"), is_seq, "Le")]
            e_hi = [e for e, b_ in rel_edges(t, f, lambda x: _elem_index(x) is not None and fmt(strip(x)).endswith(".end"), is_seq, "Gt")]
            for e1 in e_lo:
                for e2 in e_hi:
                    reg = {b for b in f.reach if t.edge_dominates(f, e1, b) and t.edge_dominates(f, e2, b)}
                    if reg: covered_regions.append((reg, e2)); r.site(Site(f, e2[0], 0, f.blocks[e2[0]]["term"]), "duplicate test (start <= s < end)")
            if not covered_regions: r.bad(f"{f.path}|dup-test", None, "no test that the sequence is already covered (`range.contains(&sequence)` / `start <= sequence && sequence < end`): a duplicate would be added again (overlapping ranges)")
            for reg, e in covered_regions:
                if any(c.bb in reg for c in changes) or any(g.bb in reg for g in t.effects("pending_acks", {"push", "insert", "remove"}, f)): r.bad(f"{f.path}|dup-effect", None, "an already covered sequence still changes pending_acks")
            if covered_regions:
                allcov = set().union(*[reg for reg, e in covered_regions])
                # every change happens where the sequence is known not to be covered by the element at hand: unreachable without leaving through a test's other edge
                for br in dup:
                    for c in changes:
                        if not t.edge_dominates(f, br["f_edge"], c.bb): r.bad(f"{f.path}|dup-dom", c, "pending_acks changed on a path that skipped the `already covered` test")
    return r


def aead_open_rule(t, rid):
    """the two `open` primitives return Ok only when the AEAD tag verified: every value returned as Ok is the AEAD decrypt call's own result, or
    lies behind its Ok edge (no shortcut that skips tag verification, e.g. for empty bodies)"""
    r = RuleResult(rid, "dencrypted_in_place{,_xnonce} return Ok only through the AEAD tag verification (no path returns Ok without decrypt_in_place_detached succeeding)", floor=2)
    for name in ("renetcode::crypto::dencrypted_in_place", "renetcode::crypto::dencrypted_in_place_xnonce"):
        f = t.fn(name)
        dec = list(t.calls(r"AeadInPlace>::decrypt_in_place(_detached)?$|::decrypt_in_place(_detached)?$", f))
        for c in dec: r.site(c, short(callee_name(c.node)))
        if not dec: r.bad(f"{name}|no-aead", None, "no AEAD decrypt call found"); continue
        okedges = [t.result_edges(f, c)[0] for c in dec if t.result_edges(f, c)]
        for b in f.blocks:
            if b["i"] not in f.reach: continue
            for k, st in enumerate(b["stmts"]):
                if st["k"] == "assign" and st["place"]["local"] == 0 and not st["place"]["proj"]:
                    o = f._origin_of_def(st, 0)
                    if isinstance(o, tuple) and o[0] == "aggr" and o[2] == "Err": continue
                    if isinstance(o, tuple) and o[0] == "call" and "decrypt_in_place" in o[1]: continue
                    if any(t.edge_dominates(f, e, b["i"]) for e in okedges): continue
                    r.bad(f"{name}|ok-without-tag", Site(f, b["i"], k, st), f"returns {fmt(o)[:50]} on a path that did not verify the authentication tag")
            tm = b["term"]
            if tm["k"] == "call" and tm["dest"]["local"] == 0 and not tm["dest"]["proj"] and "decrypt_in_place" not in callee_name(tm) and "from_residual" not in callee_name(tm):
                r.bad(f"{name}|ret-call", Site(f, b["i"], len(b["stmts"]), tm), f"result comes from {short(callee_name(tm))}, not from the AEAD decrypt call")
    return r


def capacity_rule(t, rid):
    """request-time capacity: a connection request is denied exactly when the number of CONNECTED clients has reached max_clients (half-open
    sessions do not count: an honest client retrying its request must get its challenge again while a slot is free)"""
    NS = "server::NetcodeServer"
    r = RuleResult(rid, "request-time capacity test: denied iff connected clients >= max_clients (connected count only), ConnectionDenied sent, no pending session created", floor=1)
    h = t.fn("NetcodeServer::handle_connection_request")
    def connected_count(a):
        a = strip(a)
        if not (isinstance(a, tuple) and a[0] == "call"): return False     # a sum / difference of counts is not the connected count
        txt = fmt(a)
        return ("::count(" in txt and "clients" in txt and "flatten" in txt and "pending" not in txt) or a[1].endswith("NetcodeServer::connected_clients")
    full = list(rel_edges(t, h, connected_count, lambda b: t.is_field(b, "max_clients"), "Ge"))
    anycap = [br for br in t.branches(h) if br["kind"] == "bool" and br["cond"][0] == "cmp" and ("max_clients" in fmt(br["raw"]))]
    for br in anycap:
        r.site(Site(h, br["bb"], 0, h.blocks[br["bb"]]["term"]), fmt(br["raw"])[:90])
        if not any(b is br for e, b in full): r.bad("cap-shape", Site(h, br["bb"], 0, h.blocks[br["bb"]]["term"]), f"capacity test is {fmt(br['raw'])[:100]}: expected `connected clients >= max_clients` on the connected count alone")
    if not anycap: r.bad("cap-missing", None, "no capacity test against max_clients in handle_connection_request")
    for e, br in full:
        other = br["f_edge"] if e == br["t_edge"] else br["t_edge"]
        reg = t.region_from(h, e)
        den = [a for a in t.aggrs("renetcode::packet::Packet", "ConnectionDenied", h) if a.bb in reg]
        # `Packet::ConnectionDenied.encode(..)` on a temporary is a promoted constant in MIR (no aggregate): accept an encoded reply on the full edge
        rep = [a for a in t.aggrs("server::ServerResult", "PacketToSend", h) if a.bb in reg and a.bb not in t.region_from(h, other)] if not den else den
        if not den and not rep: r.bad("cap-denied", None, "full server does not answer ConnectionDenied")
        grow = [g for g in t.effects("pending_clients", {"entry", "insert"}, h)]
        if any(not t.edge_dominates(h, other, g.bb) for g in grow): r.bad("cap-dom", None, "pending session created although the server is full")
    return r


def sent_record_rule(t, rid):
    """every emitted packet is recorded in sent_packets under its own sequence with what it carries (C08.c, shared with C01.l)"""
    gp = t.fn("RenetClient::get_packets_to_send")
    r = RuleResult(rid, "every emitted packet is recorded under its own sequence with what it carries", floor=5)
    ins = list(t.effects("sent_packets", {"insert"}, gp))
    kinds = set()
    WANT = {"SmallReliable": "ReliableMessages", "ReliableSlice": "ReliableSliceMessage", "Ack": "PacketSentInfo::Ack", "SmallUnreliable": "PacketSentInfo::None", "UnreliableSlice": "PacketSentInfo::None"}
    def alts(o):
        o = strip(o)
        if isinstance(o, tuple) and o[0] == "phi": return [y for x in o[2] for y in alts(x)]
        return [o]
    for c in ins:
        r.site(c)
        key, rec = fmt(t.arg(c, 1)), t.arg(c, 2)
        info = fmt(rec)
        if "current_time" not in info: r.bad("time", c, "sent_at is not the current time")
        ks = set(re.findall(r"as (SmallReliable|SmallUnreliable|ReliableSlice|UnreliableSlice|Ack)\.sequence", key))
        whole = re.search(r"Packet::sequence\(&\*?(.*)\)$", key)
        if not ks and not whole: r.bad("key", c, f"record key is not the packet's sequence: {key[:60]}"); continue
        # what is recorded: one PacketSentInfo per alternative; an alternative that reads `<packet> as V.field` belongs to packets of kind V
        rs = strip(rec)
        infos = alts(rs[3][1]) if isinstance(rs, tuple) and rs[0] == "aggr" and len(rs[3]) >= 2 else [rs]
        if whole:
            # one insert for every kind, keyed by Packet::sequence(packet): the record must distinguish the kinds by itself
            pk = whole.group(1)
            have = {}
            for a_ in infos:
                ta = fmt(a_)
                vs = set(re.findall(r"as (SmallReliable|SmallUnreliable|ReliableSlice|UnreliableSlice|Ack)\.", ta))
                nm = a_[2] if isinstance(a_, tuple) and a_[0] == "aggr" else "?"
                for v_ in (vs or {"*"}): have.setdefault(v_, []).append((nm, ta))
                if vs and pk not in ta: r.bad("other-packet", c, "the record is built from a different packet than the one whose sequence is the key")
            for kind in ("SmallReliable", "ReliableSlice", "Ack"):
                got = have.get(kind, [])
                if not got or any(WANT[kind].split("::")[-1] != nm for nm, _ in got): r.bad(f"info|{kind}", c, f"{kind} packets are not recorded as {WANT[kind]}"); continue
                kinds.add(kind)
                ta = got[0][1]
                if kind == "ReliableSlice" and not (re.search(r"as ReliableSlice\.slice\.message_id", ta) and re.search(r"as ReliableSlice\.slice\.slice_index", ta)): r.bad("slice-info", c, "slice record does not carry the slice's own message id / index")
                if kind == "SmallReliable" and "as SmallReliable.messages" not in ta: r.bad("ids-info", c, "message-id record not derived from the packet's messages")
            if any(nm == "None" for nm, _ in have.get("*", [])): kinds.update({"SmallUnreliable", "UnreliableSlice"})
            continue
        for kind in ks:
            kinds.add(kind)
            want = WANT[kind]
            if want.split("::")[-1] not in info: r.bad(f"info|{kind}", c, f"{kind} packet recorded as {info[:80]}")
            if kind == "ReliableSlice" and not (re.search(r"as ReliableSlice\.slice\.message_id", info) and re.search(r"as ReliableSlice\.slice\.slice_index", info)): r.bad("slice-info", c, "slice record does not carry the slice's own message id / index")
            if kind == "SmallReliable" and "as SmallReliable.messages" not in info and "collect" not in info: r.bad("ids-info", c, "message-id record not derived from the packet's messages")
    # PROV: the ids remembered for a SmallReliable packet are a pure projection of the messages it carries (one id per carried message):
    # no arithmetic on ids, no range spanned between two of them (a packet can carry non-contiguous ids when resend timers are staggered)
    for a_ in t.aggrs("remote_connection::PacketSentInfo", "ReliableMessages"):
        if " as std::clone::Clone>" in a_.fn.path: continue
        # the field holding the carried ids = the one non-integer (collection) field of the variant, whatever its name
        var = [v for k, a in t.F.adts.items() if k.endswith("remote_connection::PacketSentInfo") for v in a["variants"] if v["name"] == "ReliableMessages"]
        coll = [fd["name"] for fd in (var[0]["fields"] if var else []) if fd["ty"].get("k") != "int"]
        try: ids = t.field_of_aggr(a_, coll[0]) if len(coll) == 1 else None
        except ValueError: ids = None
        if ids is None:
            r.site(a_); r.bad(f"{a_.fn.path}|ids-field", a_, "the record kept for a sent SmallReliable packet has no list of the message ids it carried (message_ids): an ack of the packet cannot release exactly those messages"); continue
        r.site(a_)
        if contains(ids, lambda x: isinstance(x, tuple) and x and ((x[0] == "bin" and x[1].startswith(("Add", "Sub"))) or (x[0] == "aggr" and "Range" in str(x[1])) or (x[0] == "call" and ("Range" in str(x[1]) or method_of(x[1]) in ("first", "last", "first_mut", "last_mut", "split_first", "split_last", "min", "max") and "messages" in fmt(x))))) or not contains(ids, lambda x: isinstance(x, tuple) and x and x[0] == "call" and method_of(x[1]) in ("collect", "map", "push", "extend", "from_iter", "to_vec", "clone", "iter", "into_iter", "unzip")):
            r.bad(f"{a_.fn.path}|ids-not-a-projection", a_, f"the ids recorded for a SmallReliable packet are computed ({fmt(ids)[:70]}), not collected one by one from the messages the packet carries: an ack of the packet releases ids it never carried")
    for k in ("SmallReliable", "SmallUnreliable", "ReliableSlice", "UnreliableSlice", "Ack"):
        if k not in kinds: r.bad(f"missing|{k}", None, f"{k} packets are not recorded in sent_packets")
    return r
