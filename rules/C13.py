# C13 Every produced packet fits its carrier: computed wire-size bounds and constant relations
import re
from sa.rules import *
import rules.wave3 as W3
from sa import codec

def consts(t, name):
    for k, v in t.F.consts.items():
        if k.endswith("::" + name): return v["val"]
    return None

def rules(t):
    out = []
    F = t.F
    S = consts(t, "SLICE_SIZE"); PAY = consts(t, "NETCODE_MAX_PAYLOAD_BYTES"); PKT = consts(t, "NETCODE_MAX_PACKET_BYTES"); MAC = consts(t, "NETCODE_MAC_BYTES")
    VARINT = 8
    # --- a1: the ack-range cap: every growth of pending_acks is followed, before returning, by the `len > CAP -> remove(0)` trim
    r = RuleResult("C13.a1", "every growth of pending_acks is trimmed to the cap before the function returns", floor=1)
    ap = t.fn("RenetClient::add_pending_ack")
    caps = []
    for br, op, te, fe in t.find_cmp(ap, lambda a: "::len(" in fmt(a) and t.mentions_field(a, "pending_acks"), lambda b: const_eval(b) is not None, None):
        if op == "Gt":
            c = const_eval(br["cond"][3]) if const_eval(br["cond"][3]) is not None else const_eval(br["cond"][2])
            rem = [x for x in t.effects("pending_acks", {"remove"}, ap) if x.bb in ap.reachable_from([te[1]]) and const_eval(t.arg(x, 1)) == 0]
            if rem: caps.append((br, c))
    cap = max([c for _, c in caps], default=None)
    first_push_when_empty = None
    for g in t.effects("pending_acks", {"push", "insert"}):
        if g.fn is not ap: r.bad(f"{g.fn.path}|grow-elsewhere", g, "pending_acks grows outside add_pending_ack"); continue
        r.site(g, method_of(callee_name(g.node)))
        # growth from empty (len 0 -> 1) needs no trim
        empty = [br for br in t.find_callcond(ap, r"::is_empty$") if t.rooted_at_field(br["cond"][2][0], "pending_acks") and t.edge_dominates(ap, br["t_edge"], g.bb)]
        if empty: continue
        ok = False
        for br, c in caps:
            from rules.C17 import all_paths_pass
            rem0 = {pos(x) for x in t.effects("pending_acks", {"remove"}, ap) if const_eval(t.arg(x, 1)) == 0}
            te_ = br["t_edge"]
            # the growth always reaches the cap test, and from the test's true edge every path trims (no extra condition on the trim)
            if all_paths_pass(ap, g.node["target"], {br["bb"]}) and must_pass(ap, (te_[0], len(ap.blocks[te_[0]]["stmts"])), rem0, avoid_edges={br["f_edge"]})[0]: ok = True
        if not ok: r.bad(f"untrimmed|{method_of(callee_name(g.node))}", g, f"pending_acks grows ({method_of(callee_name(g.node))}) on a path that returns without the `len > {cap}` trim: the ack packet is unbounded")
    if cap is None: r.bad("no-cap", None, "no `pending_acks.len() > CAP -> remove(0)` trim found")
    out.append(r)
    # --- a2: packing loops: the per-message cost counted by the channel equals the writer's cost, and the running total is flushed above SLICE_SIZE
    r = RuleResult("C13.a2", "small-message packing: counted cost = wire cost; packet flushed when the total would exceed SLICE_SIZE", floor=2)
    body_bound = {}
    for name, extra_id in (("SendChannelReliable::get_packets_to_send", True), ("SendChannelUnreliable::get_packets_to_send", False)):
        f = t.fn(name)
        is_total = lambda a: "AddWithOverflow" in fmt(a) and ("varint_len" in fmt(a) or "deep" in fmt(a) or "phi" in fmt(a))
        flush = [(br, "Gt", e, None) for e, br in rel_edges(t, f, is_total, lambda b: const_eval(b) == S, "Gt")]
        for br, op, te, fe in flush:
            r.site(Site(f, br["bb"], 0, f.blocks[br["bb"]]["term"]), "flush test")
            sl = [l["i"] for l in f.locals if l.get("name") == "serialized_size"]
            cost = fmt(f.origin_of_local(sl[0])) if sl else ""
            if sl:
                n_varint = cost.count("varint_len(")
                if n_varint != (2 if extra_id else 1) or "Bytes::len" not in cost: r.bad(f"{name}|cost", None, f"counted cost does not match the wire cost (len + varint(len){' + varint(id)' if extra_id else ''}): {cost[:100]}")
            # the flush edge must emit the accumulated packet
            pushed = [c for c in t.calls(r"Vec.*::push$", f) if t.edge_dominates(f, te, c.bb) and "Small" in fmt(t.arg(c, 1))]
            if not pushed: r.bad(f"{name}|flush-push", None, "flush edge does not emit the accumulated packet")
        # a test on the same operands with another boundary is a violation (>= would flush one message early, harmless; < / <= inverted would never flush)
        if not flush: r.bad(f"{name}|no-flush", None, "no flush test against SLICE_SIZE in the packing loop")
        # every message put into the packet under construction is counted: `small_messages_bytes += serialized_size` dominates the push and no reset lies between them
        tot = [l["i"] for l in f.locals if l.get("name") == "small_messages_bytes"]
        vec = [l["i"] for l in f.locals if l.get("name") == "small_messages"]
        if not tot or not vec: r.bad(f"{name}|locals", None, "packing locals small_messages / small_messages_bytes not found"); continue
        wr = [x for x in t.sites(f) if x.node["k"] == "assign" and not x.node["place"]["proj"] and x.node["place"]["local"] == tot[0]]
        adds = [x for x in wr if "AddWithOverflow" in fmt(t.stored(x)) and ("varint_len" in fmt(t.stored(x)) or "deep" in fmt(t.stored(x)))]
        resets = [x for x in wr if const_eval(t.stored(x)) == 0]
        from rules.C08 import pushed_into
        for c, val in pushed_into(t, f, vec[0]):
            r.site(c, "message packed")
            lp = innermost_loop(f, c.bb)
            dom = [a for a in adds if f.dominates(a.bb, c.bb) and (lp is None or a.bb in lp[1])]
            if not dom:
                # counted on every path of this iteration (the two arms of `if total + size > S { flush; total = size } else { total += size }` merge
                # before the push), or counted right after the push, before the next message is looked at
                in_loop = [a for a in adds if lp is None or a.bb in lp[1]]
                counted = must_fact(f, gen_points=[(a.bb, a.idx + 1) for a in in_loop], kill_points=[pos(z) for z in resets if not any(z.bb == a.bb and z.idx == a.idx for a in in_loop)])
                after = in_loop and must_pass(f, pos(c), {pos(a) for a in in_loop}, stops=[(lp[0], 0)] if lp else None)[0]
                if counted(c.bb, c.idx) or after: continue
            if not dom: r.bad(f"{name}|uncounted", c, "a message is put into the packet under construction on a path where its size was not added to small_messages_bytes: the packet can exceed SLICE_SIZE + one message"); continue
            a = dom[-1]
            avoid = {(p_, lp[0]) for p_ in f.pred[lp[0]]} if lp else set()
            between = f.reachable_from([a.bb], avoid_edges=avoid)
            for z in resets:
                if z.bb in between and (z.bb != a.bb or z.idx > a.idx) and c.bb in f.reachable_from([z.bb], avoid_edges=avoid) and (z.bb != c.bb or z.idx < c.idx):
                    r.bad(f"{name}|reset-between", z, "small_messages_bytes is reset between counting a message and packing it")
        # small messages are at most SLICE_SIZE long (reliable: by the Small/Sliced split; unreliable: by the `len > SLICE_SIZE` branch)
        body_bound[name] = max(S, S + VARINT_LEN(S) + (VARINT if extra_id else 0))
    sm = t.fn("SendChannelReliable::send_message")
    split = list(rel_edges(t, sm, lambda a: "Bytes::len" in fmt(a), lambda b: const_eval(b) == S, "Gt"))
    if not split: r.bad("split", None, "send_message does not split Small/Sliced at `len > SLICE_SIZE`")
    su = t.fn("SendChannelUnreliable::get_packets_to_send")
    split = list(rel_edges(t, su, lambda a: "Bytes::len" in fmt(a) and "AddWithOverflow" not in fmt(a), lambda b: const_eval(b) == S, "Gt"))
    if not split: r.bad("split-unreliable", None, "unreliable channel does not slice at `len > SLICE_SIZE`")
    out.append(r)
    # --- b: computed bounds and constant relations
    r = RuleResult("C13.b", "computed maximum wire sizes fit: renet <= NETCODE_MAX_PAYLOAD_BYTES <= serialisation buffer; netcode datagrams <= NETCODE_MAX_PACKET_BYTES", floor=8)
    W, R = codec.renet_packet_tables(F)
    def maxsize(expr, loops):
        tot = 0
        for x in expr:
            if x[0] == "loop": tot += loops
            elif x[0] == "lenbytes": tot += VARINT_LEN(S) + S
            else:
                w = x[1]; tot += w if isinstance(w, int) else (w[1] if isinstance(w, tuple) else 0)
        return tot
    sizes = {}
    for v, (tag, e) in W.items():
        if v == "SmallReliable": sizes[v] = 1 + maxsize(e, body_bound.get("SendChannelReliable::get_packets_to_send", S + VARINT_LEN(S) + VARINT))
        elif v == "SmallUnreliable": sizes[v] = 1 + maxsize(e, body_bound.get("SendChannelUnreliable::get_packets_to_send", S + VARINT_LEN(S)))
        elif v == "Ack": sizes[v] = 1 + maxsize(e, ((cap or 10**9) - 1) * 2 * VARINT)
        else: sizes[v] = 1 + maxsize(e, 0)
    r.samples.append(f"renet maxima {sizes}; cap {cap}")
    for v, sz in sizes.items():
        r.sites += 1
        if PAY is None or sz > PAY: r.bad(f"renet|{v}", None, f"{v} packets can reach {sz} bytes > NETCODE_MAX_PAYLOAD_BYTES = {PAY}")
    gp = t.fn("RenetClient::get_packets_to_send")
    buf = [l["ty"]["len"] for l in gp.locals if l.get("name") == "buffer" and l["ty"].get("k") == "array"]
    r.sites += 1
    if not buf or buf[0] < max(sizes.values()) or buf[0] < PAY: r.bad("buffer", None, f"serialisation buffer {buf} is smaller than the largest packet / carrier limit")
    nsz = codec.netcode_packet_sizes(F)
    for v, body in nsz.items():
        r.sites += 1
        total = 1 + 8 + (PAY if v == "Payload" else body) + (0 if v == "ConnectionRequest" else MAC)
        if v == "ConnectionRequest": total = 1 + body
        if total > PKT: r.bad(f"netcode|{v}", None, f"{v} datagram can reach {total} bytes > NETCODE_MAX_PACKET_BYTES = {PKT}")
    for adt, fld in (("server::NetcodeServer", "out"), ("client::NetcodeClient", "out"), ("client::NetcodeClientTransport", "buffer"), ("server::NetcodeServerTransport", "buffer")):
        a = [v for k, v in F.adts.items() if k.endswith(adt)]
        ty = [f["ty"] for f in a[0]["variants"][0]["fields"] if f["name"] == fld] if a else []
        r.sites += 1
        if not ty or ty[0].get("k") != "array" or ty[0].get("len") != PKT: r.bad(f"buffer|{adt}.{fld}", None, f"{adt}.{fld} is not [u8; NETCODE_MAX_PACKET_BYTES]")
    out.append(r)
    r = RuleResult("C13.c", "generate_payload_packet refuses payloads above NETCODE_MAX_PAYLOAD_BYTES before sealing", floor=2)
    for name in ("NetcodeClient::generate_payload_packet", "NetcodeServer::generate_payload_packet"):
        f = t.fn(name)
        g = list(t.find_cmp(f, lambda a: "len(" in fmt(a) and "payload" in fmt(a), lambda b: const_eval(b) == PAY, None))
        for br, op, te, fe in g:
            r.site(Site(f, br["bb"], 0, f.blocks[br["bb"]]["term"]))
            if op != "Gt": r.bad(f"{name}|op", None, f"payload limit test uses {op}")
            if not t.edge_returns_err(f, te, "PayloadAboveLimit"): r.bad(f"{name}|err", None, "oversized payload is not refused with PayloadAboveLimit")
            enc = list(t.calls(r"Packet.*::encode$", f))
            if not all(t.edge_dominates(f, fe, e.bb) for e in enc): r.bad(f"{name}|dom", None, "payload sealed without the limit test")
        if not g: r.bad(f"{name}|missing", None, "no payload limit test")
    out.append(r)
    out.append(W3.packets_append_only(t, "C13.d"))
    return out

def VARINT_LEN(v): return 1 if v < 64 else 2 if v < 16384 else 4 if v < (1 << 30) else 8

_rules_c13_w5 = rules
def rules(t):
    import rules.wave5 as W5
    out = _rules_c13_w5(t)
    out.append(W5.writer_total(t, "C13.e"))
    return out

_rules_C13_w6 = rules
def rules(t, *a, **kw):
    import rules.wave6 as W6
    out = _rules_C13_w6(t, *a, **kw)
    out.append(W6.reset_means_flushed(t, "C13.f"))
    return out
