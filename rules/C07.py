# C07 (structural part): no observable effect without authentication; errors map to 'ignore'; no vacuous validation guard
import re
from sa.rules import *
import rules.wave3 as W3
import rules.shared as shared
from rules.netcode_common import *
from rules.oblcommon import obl_rule

OBS_CONN = ("state", "confirmed", "last_packet_received_time", "user_data", "sequence", "last_packet_send_time")
OBS_CLIENT = ("state", "last_packet_received_time", "challenge_token_sequence", "challenge_token_data", "max_clients", "client_index", "last_packet_send_time")

def rules(t, with_obl=True):
    out = []
    if with_obl:
        r, d = obl_rule("C07.a", "OBL(renetcode): every partial operation reachable from the NetcodeServer/NetcodeClient/ConnectToken API is discharged or vetted", "netcode", floor=70)
        out.append(r)
    r = RuleResult("C07.b", "AUTH-DOM: every observable session effect on the packet path lies behind an authenticating edge", floor=14)
    f = t.fn("NetcodeServer::process_packet_internal")
    eff = []
    for fld in OBS_CONN: eff += list(t.stores(CONN, fld, f))
    eff += [s for s in t.sites(f) if s.node["k"] == "assign" and s.node["place"]["proj"] and s.node["place"]["proj"][-1]["k"] == "index" and t.mentions_field(t.place(s), "clients")]
    eff += list(t.effects("pending_clients", GROW | SHRINK, f))
    eff += [s for s in t.aggrs("server::ServerResult", None, f) if s.node["rv"]["vname"] != "None"]
    auth_check(t, f, eff, r, lambda e: (fmt(t.place(e)).split(".")[-1] if e.node["k"] == "assign" and e.node["rv"]["k"] != "aggr" or (e.node["k"] == "assign" and e.node["place"]["proj"]) else (e.node["rv"]["vname"] if e.node["k"] == "assign" else method_of(callee_name(e.node)))))
    h = t.fn("NetcodeServer::handle_connection_request")
    eff = []
    for fld in OBS_CONN: eff += list(t.stores(CONN, fld, h))
    eff += list(t.effects("pending_clients", GROW, h)) + list(t.effects("connect_token_entries", GROW, h))
    eff += [s for s in t.aggrs("server::ServerResult", None, h) if s.node["rv"]["vname"] != "None"]
    eff += list(t.stores(NS, "challenge_sequence", h)) + list(t.stores(NS, "global_sequence", h))
    # calls of `&mut self` methods of the server (not inlined because they are named functions of the pinned tree) mutate server state as well
    def mut_self_call(c_):
        g_ = t.F.fns.get(re.sub(r"::<.*$", "", re.sub(r"::<[^>]*>(?=::)", "", c_.node.get("resolved") or callee_name(c_.node))))
        return g_ is not None and g_.argc >= 1 and g_.locals[1]["ty"].get("k") == "ref" and g_.locals[1]["ty"].get("mut") and "NetcodeServer" in str(g_.locals[1]["ty"].get("to"))
    eff += [c_ for c_ in t.calls(r"server::NetcodeServer::", h) if mut_self_call(c_)]
    auth_check(t, h, eff, r, lambda e: (fmt(t.place(e)).split(".")[-1] if e.node["k"] == "assign" and e.node["place"]["proj"] else (e.node["rv"]["vname"] if e.node["k"] == "assign" else method_of(callee_name(e.node)))))
    c = t.fn("NetcodeClient::process_packet")
    eff = []
    for fld in OBS_CLIENT: eff += list(t.stores(NC, fld, c))
    eff += [s for s in t.aggrs("std::option::Option", "Some", c) if s.node["place"]["local"] == 0]
    auth_check(t, c, eff, r, lambda e: fmt(t.place(e)).split(".")[-1] if e.node["place"]["proj"] else "return Some(payload)")
    out.append(r)

    r = RuleResult("C07.c", "decode/processing errors are mapped to 'ignore' (ServerResult::None / None)", floor=2)
    f = t.fn("NetcodeServer::process_packet")
    for cs in t.calls(r"NetcodeServer::process_packet_internal$", f):
        r.site(cs)
        e = t.result_edges(f, cs)
        if not e:
            # `self.process_packet_internal(..).unwrap_or_else(|e| { log; ServerResult::None })` / `.unwrap_or(ServerResult::None)`
            me = norm(f.call_origin(cs.node)); okk = False
            for u_ in t.calls(r"Result.*::unwrap_or(_else)?$", f):
                if norm(strip(t.arg(u_, 0))) != me: continue
                alt = strip(t.arg(u_, 1))
                if method_of(callee_name(u_.node)) == "unwrap_or": okk = isinstance(alt, tuple) and alt[0] == "aggr" and alt[2] == "None" and "ServerResult" in str(alt[1])
                else:
                    cl = [g for g in fn_and_closures(t, f) if g is not f and short(g.path).split("::")[-1] in fmt(alt)]
                    okk = bool(cl) and all(isinstance(strip(g.origin_of_local(0)), tuple) and strip(g.origin_of_local(0))[0] == "aggr" and strip(g.origin_of_local(0))[2] == "None" and "ServerResult" in str(strip(g.origin_of_local(0))[1]) for g in cl)
            if not okk: r.bad(f"{f.path}|edges", cs, "result of process_packet_internal is not matched (and not mapped to ServerResult::None by unwrap_or / unwrap_or_else)")
            continue
        region = t.region_from(f, e[1])
        built = [s for s in t.aggrs("server::ServerResult", None, f) if s.bb in region and s.bb not in t.region_from(f, e[0])]
        if not built or any(s.node["rv"]["vname"] != "None" for s in built): r.bad(f"{f.path}|err", cs, "Err edge does not yield ServerResult::None")
    c = t.fn("NetcodeClient::process_packet")
    for cs in decode_sites(t, c):
        r.site(cs)
        e = t.result_edges(c, cs)
        if not e: r.bad(f"{c.path}|edges", cs, "decode result not matched"); continue
        err_only = t.region_from(c, e[1]) - t.region_from(c, e[0])
        somes = [s for s in t.aggrs("std::option::Option", "Some", c) if s.node["place"]["local"] == 0 and s.bb in err_only]
        stores = [s for fld in OBS_CLIENT for s in t.stores(NC, fld, c) if s.bb in err_only]
        if somes or stores: r.bad(f"{c.path}|err", cs, "decode Err edge has an effect")
    out.append(r)

    r = RuleResult("C07.d", "no vacuous validation guard: is_empty()/len()==0 on a fixed-size non-empty array", floor=0)
    for f in t.fns(r"^renetcode::(token|packet|serialize|server|client)"):
        for br in t.branches(f):
            if br["kind"] != "bool": continue
            o = br["raw"]
            if isinstance(o, tuple) and o[0] == "call" and method_of(o[1]) == "is_empty" and "<impl [T]>" in o[1] or (isinstance(o, tuple) and o[0] == "call" and method_of(o[1]) == "is_empty" and "slice" in o[1]):
                # receiver static type: find the unsize cast source
                blk = f.blocks[br["bb"]]
                # the call that produced the condition
                for bb2, c2 in [(b["i"], b["term"]) for b in f.blocks if b["term"]["k"] == "call" and method_of(callee_name(b["term"])) == "is_empty"]:
                    a = c2["args"][0]
                    if a["k"] in ("copy", "move"):
                        ds = f.defs1(a["place"]["local"])
                        for _, _, d in ds:
                            if d["k"] == "assign" and d["rv"]["k"] == "cast" and "Unsize" in d["rv"]["ck"]:
                                src = d["rv"]["op"]
                                ty = f.locals[src["place"]["local"]]["ty"] if src["k"] in ("copy", "move") else None
                                while ty and ty.get("k") in ("ref", "ptr"): ty = ty["to"]
                                if ty and ty.get("k") == "array" and (ty.get("len") or 0) > 0:
                                    s = Site(f, bb2, 0, c2); r.site(s)
                                    r.bad(f"{f.path}|is_empty-on-array", s, f"is_empty() on [_; {ty['len']}] is always false: the validation it guards is vacuous")
    out.append(r)
    r = RuleResult("C07.e", "an unauthenticated datagram cannot change the replay window: window consulted before and advanced only after a successful decrypt (shared with C04.a1/a2)", floor=2)
    import rules.C04 as C04
    for rr in C04.rules(t):
        if rr.id in ("C04.a1", "C04.a2"):
            r.sites += rr.sites
            for v in rr.violations: r.bad(v.key.split("|", 1)[1], v.site, v.msg)
    out.append(r)
    out.append(shared.aead_open_rule(t, "C07.f"))
    out.append(W3.sign_cast(t, "C07.g"))
    return out
