# C17.h NONCE-BYTES (wave 3, seed C17-F): the 96-bit AEAD nonce must contain every byte of the 64-bit sequence number, at the same positions
# on the sealing and the opening side. Decided by a byte-provenance evaluation of the few MIR statements that build the nonce:
#   value = list of byte tags: ("seq", i) = byte i (little endian) of the sequence parameter, ("zero",), ("?",) = anything else.
# Supported constructions (what the code and plausible rewrites use): `[0; N]` / array literals of zeros, `x as u128`, `<< 8k`, `>> 8k`, `|` with
# zero bytes, `to_le_bytes` / `to_be_bytes`, constant sub-slices (`[a..b]`, `[..b]`, `[a..]`), `copy_from_slice` into a constant sub-slice of a
# local array, `From::from` / `from_slice` / `clone` / `deref` / references. Anything else evaluates to "?" and the rule fails closed.
import re
from sa.rules import *

SEQ = lambda: [("seq", i) for i in range(8)]
Z = ("zero",)
U = ("?",)
WIDTH = {"u8": 1, "u16": 2, "u32": 4, "u64": 8, "u128": 16, "usize": 8}


class Ev:
    def __init__(self, t, f):
        self.t, self.f = t, f
        self.seq_param = next((i for i in range(1, f.argc + 1) if f.locals[i].get("name") == "sequence"), None)
        self.depth = 0

    def const_int(self, op):
        if op["k"] == "const":
            v = op.get("val")
            try: return int(v)
            except Exception:
                m = re.match(r"^(-?\d+)", str(op.get("txt") or v or ""))
                return int(m.group(1)) if m else None
        o = self.f.origin_of_operand(op)
        v = const_eval(o)
        if v is not None: return v
        # `CONST_ARRAY.len()`: the length is in the type of what the chain of references points at
        f = self.f
        for _ in range(8):
            if op["k"] not in ("copy", "move"): return None
            ds = f.defs1(op["place"]["local"])
            if len(ds) != 1: return None
            d = ds[0][2]
            if d["k"] == "call":
                if method_of(callee_name(d)) == "len" and d["args"]:
                    a = d["args"][0]
                    for _2 in range(8):
                        if a["k"] == "const": ty = a.get("ty") or {}
                        elif a["k"] in ("copy", "move"): ty = f.locals[a["place"]["local"]]["ty"]
                        else: return None
                        while isinstance(ty, dict) and ty.get("k") == "ref": ty = ty.get("to") or {}
                        if isinstance(ty, dict) and ty.get("k") == "array":
                            try: return int(ty.get("len") or ty.get("n"))
                            except Exception: return None
                        if a["k"] == "const": return None
                        dd = f.defs1(a["place"]["local"])
                        if len(dd) != 1 or dd[0][2]["k"] != "assign": return None
                        rv = dd[0][2]["rv"]
                        if rv["k"] in ("use", "cast"): a = rv["op"]
                        elif rv["k"] in ("ref", "rawptr"): a = {"k": "copy", "place": {"local": rv["place"]["local"], "proj": []}}
                        else: return None
                return None
            rv = d["rv"]
            if rv["k"] in ("use", "cast"): op = rv["op"]; continue
            return None
        return None

    def operand(self, op):
        if op["k"] == "const":
            v = self.const_int(op)
            if v == 0: return [Z] * 16
            return [U]
        pl = op["place"]
        base = self.local(pl["local"])
        for p in pl["proj"]:
            if p["k"] == "deref": continue
            if p["k"] == "field" and base and all(b == base[0] for b in base) is False: return [U]
            if p["k"] in ("index", "constindex", "subslice", "field", "downcast"): return [U]
        return base

    def local(self, l):
        self.depth += 1
        try:
            if self.depth > 60: return [U]
            f = self.f
            if l == self.seq_param: return SEQ()
            if 1 <= l <= f.argc: return [U]
            ds = [d for d in f.defs1(l) if d[2]["k"] in ("assign", "call")]
            if len(ds) != 1: return [U]
            bb, idx, d = ds[0]
            if d["k"] == "call": val = self.call(d)
            else: val = self.rvalue(d["rv"])
            # in-place effects on an array local
            if self.array_len(l) is not None: val = self.effects(l, val)      # in-place writes into this array local (whatever initialised it)
            return val
        finally:
            self.depth -= 1

    def rvalue(self, rv):
        k = rv["k"]
        if k in ("use",): return self.operand(rv["op"])
        if k == "cast":
            v = self.operand(rv["op"])
            ty = rv.get("ty") or {}
            if ty.get("k") == "int":
                w = ty["w"] // 8
                v = [b for b in v if True]
                return (v + [Z] * 16)[:w]
            return v                       # pointer / unsize casts
        if k in ("ref", "rawptr"):
            pl = rv["place"]
            if all(p["k"] == "deref" for p in pl["proj"]): return self.local(pl["local"])
            return [U]
        if k == "repeat":
            n = rv.get("n") or rv.get("count") or rv.get("len")
            try: n = int(n)
            except Exception: n = const_eval(self.f._origin_of_def({"k": "assign", "rv": rv, "place": {"local": 0, "proj": []}}, 0)) if False else None
            v0 = self.operand(rv["op"])
            if n is None: return [U]
            return [v0[0] if v0 and v0[0] == Z else U] * n
        if k == "aggr" and rv.get("kind", rv.get("ak")) in ("array", "Array") or (k == "aggr" and not rv.get("path") and not rv.get("fnames")):
            out = []
            for x in rv["fields"]:
                v = self.operand(x)
                out.append(v[0] if len(v) >= 1 and (v[0] == Z) else (v[0] if len(v) == 1 else U))
            return out
        if k == "bin":
            op = rv["op"]; a, b = rv["a"], rv["b"]
            if op in ("Shl", "ShlUnchecked", "Shr", "ShrUnchecked"):
                v = self.operand(a); n = self.const_int(b)
                if n is None or n % 8: return [U] * len(v)
                n //= 8
                return ([Z] * n + v)[:len(v)] if op.startswith("Shl") else (v[n:] + [Z] * n)[:len(v)]
            if op in ("BitOr", "BitXor", "Add", "AddUnchecked"):
                x, y = self.operand(a), self.operand(b)
                m = max(len(x), len(y)); x = (x + [Z] * m)[:m]; y = (y + [Z] * m)[:m]
                return [p if q == Z else q if p == Z else U for p, q in zip(x, y)]
            return [U]
        return [U]

    def rng(self, op, n):
        """constant bounds of a Range / RangeTo / RangeFrom / RangeFull operand"""
        o = strip(self.f.origin_of_operand(op))
        if not (isinstance(o, tuple) and o[0] == "aggr"): return None
        name = str(o[1]) + "::" + str(o[2])
        vals = [const_eval(x) for x in o[3]]
        if any(v is None for v in vals): return None
        if "RangeTo" in name and "Inclusive" not in name: return 0, vals[0]
        if "RangeFrom" in name: return vals[0], n
        if "RangeFull" in name: return 0, n
        if "RangeInclusive" in name or "RangeToInclusive" in name: return None
        if "Range" in name and len(vals) == 2: return vals[0], vals[1]
        return None

    def call(self, d):
        nm = re.sub(r"::<[^>]*>", "", callee_name(d))
        m = method_of(nm)
        a = d["args"]
        if m in ("to_le_bytes", "to_be_bytes", "to_ne_bytes") and a:
            w = next((WIDTH[k] for k in WIDTH if f"impl {k}>" in nm or f"impl {k}>" in callee_name(d)), None)
            v = self.operand(a[0])
            if w is None: return [U]
            v = (v + [Z] * w)[:w]
            return v if m != "to_be_bytes" else v[::-1]
        if m in ("index", "index_mut", "get_unchecked") and len(a) == 2:
            v = self.operand(a[0]); r = self.rng(a[1], len(v))
            if r is None: return [U]
            return v[r[0]:r[1]]
        if m in ("from", "from_slice", "clone_from_slice", "clone", "deref", "deref_mut", "as_ref", "as_slice", "as_mut_slice", "into", "borrow", "to_owned", "copied", "try_into", "try_from", "unwrap", "expect", "clone_from") and a:
            return self.operand(a[0])
        if m == "from_le_bytes" and a: return self.operand(a[0])
        if m == "from_be_bytes" and a: return self.operand(a[0])[::-1]
        return [U]

    def ref_target(self, op):
        """(local, lo, hi) a `&mut` operand points at: a whole local array or a constant sub-slice of one"""
        f = self.f
        for _ in range(10):
            if op["k"] not in ("copy", "move"): return None
            pj = [p for p in op["place"]["proj"] if p["k"] != "deref"]
            if len(pj) == 1 and pj[0]["k"] == "field":
                # one half of `x.split_at_mut(k)`
                ds = [d for d in f.defs1(op["place"]["local"]) if d[2]["k"] == "call"]
                if len(ds) == 1 and method_of(callee_name(ds[0][2])) in ("split_at_mut", "split_at") and len(ds[0][2]["args"]) == 2:
                    inner = self.ref_target(ds[0][2]["args"][0]); k_ = self.const_int(ds[0][2]["args"][1])
                    if inner is None or k_ is None or inner[2] is None: return None
                    l, lo, hi = inner
                    return (l, lo, lo + k_) if pj[0].get("i") == 0 else (l, lo + k_, hi)
                return None
            if pj: return None
            ds = [d for d in f.defs1(op["place"]["local"]) if d[2]["k"] in ("assign", "call")]
            if len(ds) != 1: return None
            d = ds[0][2]
            if d["k"] == "call":
                if method_of(callee_name(d)) in ("index_mut", "get_mut", "deref_mut", "as_mut_slice", "as_mut") and d["args"]:
                    inner = self.ref_target(d["args"][0])
                    if inner is None: return None
                    l, lo, hi = inner
                    if len(d["args"]) == 2:
                        r = self.rng(d["args"][1], (hi - lo) if hi is not None else None)
                        if r is None: return None
                        return l, lo + r[0], lo + r[1]
                    return inner
                return None
            rv = d["rv"]
            if rv["k"] in ("ref", "rawptr"):
                pl = rv["place"]
                if not pl["proj"]:
                    n = self.array_len(pl["local"])
                    return pl["local"], 0, n
                if all(p["k"] == "deref" for p in pl["proj"]): op = {"k": "copy", "place": {"local": pl["local"], "proj": []}}; continue
                return None
            if rv["k"] in ("use", "cast"): op = rv["op"]; continue
            return None
        return None

    def array_len(self, l):
        ty = self.f.locals[l]["ty"]
        if isinstance(ty, dict) and ty.get("k") == "array":
            try: return int(ty.get("n") or ty.get("len"))
            except Exception: return None
        return None

    def effects(self, l, val):
        f = self.f
        calls = []
        for bb, k, s in f.sites():
            if s["k"] == "call" and method_of(callee_name(s)) in ("copy_from_slice", "clone_from_slice") and len(s["args"]) == 2:
                tg = self.ref_target(s["args"][0])
                if tg and tg[0] == l: calls.append((bb, k, s, tg))
            if s["k"] == "assign" and s["place"]["local"] == l and s["place"]["proj"]: return [U] * len(val)      # element stores: not modelled
        calls.sort(key=lambda c: (sum(1 for o in calls if f.dominates(o[0], c[0]) and o is not c), c[0], c[1]))
        for bb, k, s, (l_, lo, hi) in calls:
            src = self.operand(s["args"][1])
            if hi is None or hi - lo != len(src) or U in src[:0]: return [U] * len(val)
            val = val[:lo] + src + val[hi:]
        return val


def nonce_bytes(t, rid):
    r = RuleResult(rid, "NONCE-BYTES: the 12-byte AEAD nonce built from a packet's sequence contains all 8 bytes of the sequence (injective), identically on the sealing and the opening side", floor=2)
    layouts = {}
    for name, callee in (("crypto::encrypt_in_place", r"AeadInPlace>::encrypt_in_place_detached$|::encrypt_in_place_detached$"), ("crypto::dencrypted_in_place", r"AeadInPlace>::decrypt_in_place_detached$|::decrypt_in_place_detached$")):
        f = t.fn(name)
        for c in t.calls(callee, f):
            r.site(c)
            ev = Ev(t, f)
            v = ev.operand(c.node["args"][1])
            layouts[name] = v
            have = {b[1] for b in v if b[0] == "seq"}
            desc = "".join("s%d" % b[1] if b[0] == "seq" else "0" if b == Z else "?" for b in v)
            r.samples.append(f"{name}: nonce bytes = {desc}")
            if len(v) != 12 or U in v: r.bad(f"{f.path}|unknown-layout", c, f"the nonce layout cannot be established from the code (bytes: {desc}); supported constructions are listed in rules/noncebytes.py")
            elif have != set(range(8)): r.bad(f"{f.path}|lossy-nonce", c, f"the nonce does not contain bytes {sorted(set(range(8)) - have)} of the sequence (bytes: {desc}): sequences that differ only there are sealed under the same (key, nonce) — e.g. the server's handshake counter (starting at 2^63) collides with the per-session counters — and a flipped bit in those bytes of the wire sequence is not detected")
    if len(layouts) == 2 and len({tuple(v) for v in layouts.values()}) > 1 and not r.violations:
        r.bad("seal-open-disagree", None, "the sealing and the opening side build different nonces from the same sequence")
    return r
