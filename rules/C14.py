# C14 Per-tick bandwidth budget: check-then-deduct per emission, one budget, configuration order
import re
from sa.rules import *
import rules.wave3 as W3
RC = "remote_connection::RenetClient"

def budget_stores(t, f):
    """stores through the available_bytes parameter: (*P).= value"""
    for s in t.sites(f):
        n = s.node
        if n["k"] == "assign" and n["place"]["proj"] and n["place"]["proj"][-1]["k"] == "deref":
            o = f.origin_of_local(n["place"]["local"])
            if isinstance(strip(o), tuple) and strip(o)[0] == "param" and "available_bytes" in (strip(o)[2] or ""): yield s

def rules(t):
    out = []
    r = RuleResult("C14.a", "each deduction from the tick budget is behind `budget < x -> skip` for an x at least as large; nothing else writes the budget", floor=3)
    for name in ("SendChannelReliable::get_packets_to_send", "SendChannelUnreliable::get_packets_to_send"):
        f = t.fn(name)
        for s in budget_stores(t, f):
            r.site(s)
            v = strip(t.stored(s))
            x = None
            if isinstance(v, tuple) and v[0] == "field" and isinstance(v[1], tuple) and v[1][0] == "bin" and v[1][1] == "SubWithOverflow": x = v[1][3]
            elif "checked_sub" in fmt(v):
                # `let Some(rest) = budget.checked_sub(x) else { skip }; *budget = rest`
                def find_cs(o):
                    if isinstance(o, tuple):
                        if o and o[0] == "call" and method_of(o[1]) == "checked_sub" and len(o[2]) == 2: return o
                        for y in o:
                            z = find_cs(y) if isinstance(y, tuple) else None
                            if z: return z
                    return None
                cs = find_cs(v)
                if cs is not None and "available_bytes" in fmt(cs[2][0]): x = cs[2][1]
            if x is None: r.bad(f"{name}|not-sub", s, f"budget written with {fmt(v)[:50]}"); continue
            is_budget = lambda a: "available_bytes" in fmt(a) and fmt(strip(a)).lstrip("*").startswith("P")
            ok = False
            S_ = t.F.consts["renet::packet::SLICE_SIZE"]["val"]
            for e, br in rel_edges(t, f, is_budget, lambda b: same(b, x) or (const_eval(b) == S_ and "slice(" in fmt(x)), "Ge"):
                if t.edge_dominates(f, e, s.bb): ok = True
            if not ok: r.bad(f"{name}|unguarded|{fmt(x)[:30]}", s, f"budget reduced by {fmt(x)[:50]} without a dominating `budget >= x` test")
            # the amount charged is the length of the bytes that are emitted (not a separately computed estimate)
            xs = strip(x)
            if not (isinstance(xs, tuple) and xs[0] == "call" and xs[1].endswith("Bytes::len")): r.bad(f"{name}|charge-not-len", s, f"the budget is charged {fmt(x)[:60]}, which is not the length of the payload that is emitted: payload bytes can leave uncharged")
            else:
                emitted = fmt(strip(xs[2][0])).lstrip("&*")
                pushed = [fmt(t.arg(c, 1)) for c in t.calls(r"Vec.*::push$", f)]
                if not any(emitted in a for a in pushed): r.bad(f"{name}|charge-other", s, f"the budget is charged the length of {emitted[:50]}, which is not what is emitted")
    out.append(r)
    r = RuleResult("C14.b", "payload is emitted only after its bytes were deducted", floor=4)
    f = t.fn("SendChannelReliable::get_packets_to_send")
    ded = list(budget_stores(t, f))
    cuts = list(t.calls(r"Bytes::slice$", f))
    for c in list(t.calls(r"Vec.*::push$", f)):
        a = fmt(t.arg(c, 1))
        if "Bytes::clone" in a or "ReliableSlice" in a:
            r.site(c)
            if "ReliableSlice" in a and cuts:
                # the slice was cut earlier (possibly collected by a helper first): the charge must follow the cut before anything else is cut
                continue
            if not any(f.dominates(d.bb, c.bb) for d in ded): r.bad(f"{f.path}|push|{a[:25]}", c, "message/slice queued for sending before the budget was charged")
    for c in cuts:
        r.site(c, "slice payload cut")
        lp = innermost_loop(f, c.bb)
        ok = any(f.dominates(d.bb, c.bb) and (lp is None or d.bb in lp[1]) for d in ded) or must_pass(f, pos(c), {pos(d) for d in ded}, stops=[(lp[0], 0)] if lp else None)[0]
        if not ok: r.bad(f"{f.path}|cut-uncharged", c, "a slice payload is cut for sending on a path where the budget is not charged for it in the same iteration")
    g = t.fn("SendChannelUnreliable::get_packets_to_send")
    ded = list(budget_stores(t, g))
    for c in t.calls(r"Vec.*::push$", g):
        a = fmt(t.arg(c, 1))
        if "pop_front" in a and ("UnreliableSlice" in a or "Small" not in a):
            r.site(c)
            if not any(g.dominates(d.bb, c.bb) for d in ded): r.bad(f"{g.path}|push|{a[:25]}", c, "message/slice queued for sending before the budget was charged")
    out.append(r)
    r = RuleResult("C14.c", "one budget per get_packets_to_send, threaded through the channels in configuration order", floor=3)
    gp = t.fn("RenetClient::get_packets_to_send")
    calls = list(t.calls(r"Send(ChannelReliable|ChannelUnreliable)::get_packets_to_send$", gp))
    locs = set()
    for c in calls:
        r.site(c)
        idx = 2
        o = t.arg(c, idx)
        locs.add(fmt(o))
        if "available_bytes_per_tick" not in fmt(o) and "phi" not in fmt(o): pass
    if len(locs) != 1: r.bad("threading", calls[0] if calls else None, f"channels receive different budgets: {sorted(locs)}")
    bl = []
    for c in calls:
        a = c.node["args"][2]
        l_ = a["place"]["local"] if a["k"] in ("copy", "move") and not a["place"]["proj"] else None
        tgt = t._ref_target(gp, l_) if l_ is not None else None
        if tgt is not None and not tgt["proj"]: bl.append(tgt["local"])
    bl = sorted(set(bl))
    if len(bl) > 1: r.bad("threading-local", calls[0], "channels receive references to different budget variables")
    if bl:
        ds = gp.defs1(bl[0])
        if len(ds) != 1 or "available_bytes_per_tick" not in fmt(gp._origin_of_def(ds[0][2], 0)): r.bad("init", None, "tick budget is not initialised exactly once from available_bytes_per_tick")
    else: r.bad("local", None, "budget local not found")
    fc = t.fn("RenetClient::from_channels")
    pushes = [c for c in t.calls(r"Vec.*::push$", fc) if "ChannelOrder" in fmt(t.arg(c, 1))]
    for c in pushes:
        r.site(c)
        if "send_channels_config" not in fmt(t.arg(c, 1)) and "channel_config" not in fmt(t.arg(c, 1)) and "Iter::next" not in fmt(t.arg(c, 1)): r.bad("order-src", c, "send order entry not derived from the iterated send channel config")
    # the order vector is only ever appended to: every mutable borrow of it (local in from_channels, field elsewhere) feeds Vec::push
    ol = [l["i"] for l in fc.locals if l.get("name") == "channel_send_order"]
    if not ol: r.bad("order-local", None, "channel_send_order local not found in from_channels")
    else:
        muts = {}
        for x in t.sites(fc):
            n = x.node
            if n["k"] == "assign" and n["rv"]["k"] in ("ref", "rawptr") and n["rv"].get("mut") and n["rv"]["place"]["local"] == ol[0] and not n["place"]["proj"]: muts[n["place"]["local"]] = x
        for x in t.sites(fc):
            n = x.node
            if n["k"] == "call":
                for a in n["args"]:
                    if a["k"] in ("copy", "move") and not a["place"]["proj"] and a["place"]["local"] in muts:
                        r.site(x, "order mutation " + method_of(callee_name(n)))
                        if method_of(callee_name(n)) != "push": r.bad(f"order-mutated|{method_of(callee_name(n))}", x, f"channel_send_order is modified by {short(callee_name(n))}(): the send order is no longer the configuration order")
        used = {a["place"]["local"] for x in t.sites(fc) if x.node["k"] == "call" for a in x.node["args"] if a["k"] in ("copy", "move") and not a["place"]["proj"]}
        for l_, x in muts.items():
            if l_ not in used: r.bad("order-borrow", x, "channel_send_order is mutably borrowed in a way the rule cannot follow")
    READONLY = ("iter", "len", "is_empty", "deref", "index", "get", "first", "last", "as_slice", "into_iter", "contains")
    for x in t.sites():
        n = x.node
        if n["k"] == "assign" and n["rv"]["k"] in ("ref", "rawptr") and n["rv"].get("mut") and n["rv"]["place"]["proj"] and n["rv"]["place"]["proj"][-1].get("name") == "channel_send_order":
            # a mutable borrow is harmless as long as it only feeds read-only methods (e.g. `let Self { channel_send_order, .. } = self; for o in channel_send_order.iter()`)
            fx = x.fn
            for y in t.sites(fx):
                a0_ = strip(t.arg(y, 0)) if y.node["k"] == "call" and y.node["args"] else None
                direct = isinstance(a0_, tuple) and a0_[0] == "field" and a0_[2] == "channel_send_order"
                if direct and method_of(callee_name(y.node)) not in READONLY:
                    r.bad(f"{fx.path}|order-field-mut|{method_of(callee_name(y.node))}", y, f"channel_send_order is modified after construction by {short(callee_name(y.node))}()")
    for s in t.stores("remote_connection::RenetClient", "channel_send_order"):
        r.bad(f"{s.fn.path}|order-store", s, "channel_send_order is reassigned after construction")
    for s in t.effects("channel_send_order", GROW | SHRINK):
        if not s.fn.path.endswith("::from_channels"): r.bad(f"{s.fn.path}|order-write", s, "channel_send_order changed after construction")
    out.append(r)
    out.append(W3.budget_fail_stays(t, "C14.d", ('unreliable', 'reliable')))
    return out

_rules_c14_w5 = rules
def rules(t):
    import rules.wave5 as W5
    out = _rules_c14_w5(t)
    out.append(W5.full_visit(t, "C14.e", "every channel is visited in every get_packets_to_send (a visit is what makes an unreliable channel drain and drop what does not fit): the loop over channel_send_order is left only when exhausted", "RenetClient::get_packets_to_send", "channel_send_order"))
    return out

_rules_C14_w5d = rules
def rules(t, *a, **kw):
    import rules.wave5 as W5
    out = _rules_C14_w5d(t, *a, **kw)
    out.append(W5.budget_field_prov(t, "C14.f"))
    return out


def walk_expr(o, depth=0):
    """all sub-expressions of an origin expression"""
    if depth > 40 or not isinstance(o, tuple) or not o: return
    yield o
    for x in o:
        if isinstance(x, tuple): yield from walk_expr(x, depth + 1)


def _root_storage(o):
    """the container an expression reads from / borrows: refs, derefs and the pure view adaptors are looked through"""
    VIEW = ("deref", "deref_mut", "as_slice", "as_mut_slice", "as_mut", "as_ref", "iter", "iter_mut", "into_iter", "borrow", "borrow_mut", "enumerate", "by_ref", "next")
    for _ in range(24):
        o = strip(o)
        if isinstance(o, tuple) and o[0] == "call" and method_of(o[1]) in VIEW and len(o) > 2 and o[2]: o = o[2][0]; continue
        if isinstance(o, tuple) and o[0] in ("field", "as", "index") and isinstance(strip(o[1]), tuple) and strip(o[1])[0] == "call" and method_of(strip(o[1])[1]) in VIEW: o = strip(o[1]); continue
        break
    return o


def config_order_kept(t, rid):
    """ORDER-SOURCE: the send order is the *configuration* order only if the list that from_channels walks while it appends to channel_send_order
    is still in the order the caller gave it: nothing reorders, removes from or inserts into that list (sort*, reverse, swap, rotate, retain,
    dedup, ..), in from_channels itself or in a private helper it hands the list to (helpers are inlined by the fact loader)."""
    r = RuleResult(rid, "the configuration list that determines channel_send_order is walked in the order given (never sorted, reversed or edited before the walk)", floor=0)
    REORDER = ("sort", "sort_by", "sort_by_key", "sort_by_cached_key", "sort_unstable", "sort_unstable_by", "sort_unstable_by_key", "reverse", "swap", "swap_remove", "rotate_left",
               "rotate_right", "retain", "retain_mut", "dedup", "dedup_by", "dedup_by_key", "select_nth_unstable", "select_nth_unstable_by", "select_nth_unstable_by_key",
               "remove", "insert", "truncate", "pop", "clear", "split_off", "push", "extend", "append", "fill", "fill_with", "swap_with_slice", "copy_from_slice", "clone_from_slice")
    fc = t.fn("RenetClient::from_channels")
    roots = set()
    for g in fn_and_closures(t, fc):
        for c in t.calls(r"Vec.*::push$", g):
            if "ChannelOrder" not in fmt(t.arg(c, 1)): continue
            # the element pushed comes from an iteration; its root container is what must keep its order
            for sub in walk_expr(resolved(t, t.arg(c, 1), g)):
                if isinstance(sub, tuple) and sub[0] == "call" and method_of(sub[1]) == "next" and len(sub) > 2 and sub[2]:
                    roots.add(norm(_root_storage(sub[2][0])))
    roots = {x for x in roots if isinstance(x, tuple)}
    if not roots: r.samples.append("configuration walk not resolved: not decided"); return r
    for g in fn_and_closures(t, fc):
        for x in t.sites(g):
            n = x.node
            if n["k"] != "call" or not n["args"]: continue
            m = method_of(callee_name(n))
            if m not in REORDER: continue
            recv = norm(_root_storage(resolved(t, t.arg(x, 0), g)))
            if recv in roots:
                r.site(x, m)
                r.bad(f"config-reordered|{m}", x, f"the channel configuration list is changed by {short(callee_name(n))}() before/while channel_send_order is derived from it: the send order is no longer the order the application configured (a lower-priority channel can be served first and take the tick's budget)")
    r.sites += len(roots); r.samples.append(f"{len(roots)} configuration walk(s): " + "; ".join(fmt(x)[:60] for x in roots))
    return r


_rules_C14_w8 = rules
def rules(t, *a, **kw):
    out = _rules_C14_w8(t, *a, **kw)
    out.append(config_order_kept(t, "C14.g"))
    return out
