# C12 Disconnection is final and reported exactly once, with the first reason
import re
from sa.rules import *

RC = "remote_connection::RenetClient"
RS = "server::RenetServer"

def rules(t):
    out = []
    # a1 WRITERS connection_status
    r = RuleResult("C12.a1", "stores to RenetClient.connection_status only in the four status functions", floor=3)
    allowed = ("::from_channels", "::set_connected", "::set_connecting", "::disconnect_with_reason")
    for s in t.stores(RC, "connection_status"):
        r.site(s)
        if not s.fn.path.endswith(allowed): r.bad(f"{s.fn.path}", s, f"store to connection_status in {short(s.fn.path)}")
    out.append(r)
    # a2 DOM: non-initial stores dominated by !is_disconnected
    r = RuleResult("C12.a2", "every non-initial status store is dominated by is_disconnected() == false", floor=3)
    for s in t.stores(RC, "connection_status"):
        if s.fn.path.endswith("::from_channels"): continue
        r.site(s)
        ok = any(t.edge_dominates(s.fn, br["f_edge"], s.bb) for br in t.find_callcond(s.fn, r"RenetClient::is_disconnected$"))
        if not ok: r.bad(f"{s.fn.path}|store", s, "status store not guarded by !is_disconnected() (Disconnected must be absorbing)")
    out.append(r)
    # b gated API: every effect dominated by the false edge of is_disconnected
    r = RuleResult("C12.b", "send/receive/process/get_packets: every effect is behind the is_disconnected() == false edge", floor=4)
    for name in ("RenetClient::send_message", "RenetClient::receive_message", "RenetClient::process_packet", "RenetClient::get_packets_to_send"):
        f = t.fn(name)
        guards = list(t.find_callcond(f, r"RenetClient::is_disconnected$"))
        anchor = Site(f, 0, 0, f.blocks[0]["term"])
        r.site(anchor, f"{len(guards)} guard(s)")
        if not guards:
            r.bad(f"{f.path}|no-guard", anchor, "no is_disconnected() gate"); continue
        g = guards[0]
        for s in t.sites(f):
            n = s.node
            eff = None
            if is_log_or_derive(n["span"]): continue
            if n["k"] == "assign" and any(p["k"] == "deref" for p in n["place"]["proj"]) and n["place"]["local"] == 1: eff = "store through self"
            if n["k"] == "call" and n["args"]:
                a0 = t.arg(s, 0)
                if isinstance(a0, tuple) and a0[0] == "ref" and t.mentions_param(a0, 1) and re.search(r"(get_mut|insert|remove|push|process_|send_message|receive_message|get_packets_to_send|add_pending_ack|received_packet|sent_packets|acked_)", callee_name(n)) and not callee_name(n).endswith("is_disconnected"):
                    eff = f"call {short(callee_name(n))} on self state"
            if eff and not t.edge_dominates(f, g["f_edge"], s.bb):
                r.bad(f"{f.path}|{eff}", s, f"{eff} reachable while disconnected")
        if not t.edge_effect_free(f, g["t_edge"]): r.bad(f"{f.path}|true-edge", anchor, "disconnected edge is not effect free")
    out.append(r)
    # c1 connect events
    r = RuleResult("C12.c1", "ClientConnected pushed only after !contains_key(id), together with connections.insert(id)", floor=1)
    for s in t.aggrs("server::ServerEvent", "ClientConnected"):
        if "<impl" in s.fn.path or is_log_or_derive(s.node["span"]): continue
        r.site(s)
        f = s.fn
        ok = any(t.edge_dominates(f, br["f_edge"], s.bb) and t.rooted_at_field(br["cond"][2][0], "connections") for br in t.find_callcond(f, r"::contains_key$"))
        ins = [c for c in t.effects("connections", {"insert"}, f)]
        if not ok: r.bad(f"{f.path}|guard", s, "ClientConnected event not guarded by !connections.contains_key(id)")
        if not ins: r.bad(f"{f.path}|insert", s, "ClientConnected event without connections.insert")
        elif not same(t.arg(ins[0], 1), t.field_of_aggr(s, "client_id")): r.bad(f"{f.path}|id", s, "event id differs from inserted key")
    out.append(r)
    # c2 disconnect events: Some-edge of connections.remove, reason from the removed connection
    r = RuleResult("C12.c2", "ClientDisconnected pushed only on the Some-edge of connections.remove(id); reason = removed connection's reason", floor=2)
    for s in t.aggrs("server::ServerEvent", "ClientDisconnected"):
        if "<impl" in s.fn.path or is_log_or_derive(s.node["span"]): continue
        r.site(s)
        f = s.fn
        rem = list(t.effects("connections", {"remove"}, f))
        if not rem: r.bad(f"{f.path}|remove", s, "ClientDisconnected without connections.remove"); continue
        if not any(f.dominates(x.bb, s.bb) for x in rem): r.bad(f"{f.path}|dom", s, "event not dominated by the removal")
        reason = t.field_of_aggr(s, "reason")
        if not (t.mentions_call(reason, r"RenetClient::disconnect_reason$") and t.mentions_call(reason, r"::remove$")):
            r.bad(f"{f.path}|reason", s, f"reason is not the removed connection's first reason: {fmt(reason)[:80]}")
        if not same(t.arg(rem[0], 1), t.field_of_aggr(s, "client_id")): r.bad(f"{f.path}|id", s, "event id differs from removed key")
    out.append(r)
    # c3 who grows/shrinks connections and pushes events
    r = RuleResult("C12.c3", "connections/events changed only by add_connection, remove_connection, disconnect_local_client", floor=3)
    allowed = ("::add_connection", "::remove_connection", "::disconnect_local_client")
    for s in list(t.effects("connections", {"insert", "remove", "clear", "retain", "drain"})) + list(t.effects("events", {"push_back", "push_front"})):
        if not s.fn.path.startswith("renet::server"): continue
        r.site(s)
        if not s.fn.path.endswith(allowed): r.bad(f"{s.fn.path}|{method_of(callee_name(s.node))}", s, f"{short(s.fn.path)} changes connections/events")
    out.append(r)
    return out
