# C12 Disconnection is final and reported exactly once, with the first reason
import re
from sa.rules import *
import rules.wave3 as W3

RC = "remote_connection::RenetClient"
RS = "server::RenetServer"

def rules(t):
    out = []
    # a1 WRITERS connection_status
    r = RuleResult("C12.a1", "stores to RenetClient.connection_status only in the four status functions", floor=3)
    allowed = ("::from_channels", "::set_connected", "::set_connecting", "::disconnect_with_reason")
    for s in t.stores(RC, "connection_status"):
        r.site(s)
        if not s.fn.path.endswith(allowed): r.bad(f"{s.fn.path}", s, f"store to connection_status in {short(s.fn.path)}")
    out.append(r)
    STATUSES = t.variants_of("remote_connection::RenetConnectionStatus")
    def status_edges(f):
        """(edge, set of statuses possible on it) for every switch on the discriminant of self.connection_status in f (status predicates such as
        is_disconnected() are inlined by the fact loader, so all spellings of the test end up here)"""
        out_ = []
        allv = set(STATUSES.values())
        for br in t.branches(f):
            if br["kind"] != "discr" or not fmt(br["on"]).endswith("connection_status"): continue
            listed = set()
            for v, tgt in br["targets"].items(): out_.append(((br["bb"], tgt), {STATUSES.get(v)})); listed.add(STATUSES.get(v))
            out_.append(((br["bb"], br["otherwise"]), allv - listed))
        return out_
    _status_cache = {}
    def status_sets(f):
        """forward may-analysis: statuses possible at the entry of each block (union at joins, narrowed along status-switch edges)"""
        if f.path in _status_cache: return _status_cache[f.path]
        allv = frozenset(STATUSES.values())
        emap = {}
        for e, vs in status_edges(f): emap[e] = emap.get(e, allv) & frozenset(vs)
        st = {0: allv}
        work = [0]
        while work:
            b = work.pop()
            for s_ in f.succ[b]:
                out_ = st[b] & emap.get((b, s_), allv)
                new_ = st.get(s_, frozenset()) | out_
                if new_ != st.get(s_): st[s_] = new_; work.append(s_)
        _status_cache[f.path] = st
        return st
    def alive_at(f, bb):
        """is Disconnected excluded when block bb runs?"""
        return "Disconnected" not in status_sets(f).get(bb, frozenset(STATUSES.values()))
    # a2 DOM: non-initial stores happen only while the status is not Disconnected
    r = RuleResult("C12.a2", "every non-initial status store happens only while the status is not Disconnected (Disconnected is absorbing)", floor=3)
    for s in t.stores(RC, "connection_status"):
        if s.fn.path.endswith("::from_channels"): continue
        r.site(s)
        if not alive_at(s.fn, s.bb):
            # a value-preserving rewrite: the status is stored unconditionally, but what is stored keeps the first reason
            # (`Disconnected { reason: self.disconnect_reason().unwrap_or(reason) }`: for a disconnected connection this is the value it already has)
            v_ = strip(t.stored(s))
            if isinstance(v_, tuple) and v_[0] == "aggr" and v_[2] == "Disconnected" and v_[3]:
                rsn = fmt(v_[3][0])
                if re.search(r"unwrap_or(_else)?\(", rsn) and "connection_status" in rsn and "Disconnected.reason" in rsn.replace(" as ", " ").replace("as Disconnected", "Disconnected"): continue
                if re.search(r"unwrap_or(_else)?\(", rsn) and "connection_status" in rsn and "reason" in rsn: continue
        if not alive_at(s.fn, s.bb): r.bad(f"{s.fn.path}|store", s, "connection_status is written on a path where the status may already be Disconnected (a disconnected connection could be revived / lose its first reason)")
    out.append(r)
    # b gated API: every effect happens only while not Disconnected
    r = RuleResult("C12.b", "send/receive/process/get_packets: every effect happens only while the status is not Disconnected; the Disconnected path is effect free", floor=4)
    for name in ("RenetClient::send_message", "RenetClient::receive_message", "RenetClient::process_packet", "RenetClient::get_packets_to_send"):
        f = t.fn(name)
        se = status_edges(f)
        anchor = Site(f, 0, 0, f.blocks[0]["term"])
        r.site(anchor, f"{len(se)} status edge(s)")
        if not se:
            r.bad(f"{f.path}|no-guard", anchor, "no test of the connection status"); continue
        for s in t.sites(f):
            n = s.node
            eff = None
            if is_log_or_derive(n["span"]): continue
            if n["k"] == "assign" and any(p["k"] == "deref" for p in n["place"]["proj"]) and t.mentions_param(t.place(s), 1) and not n.get("inl_arg") and not n.get("inl_ret"): eff = "store through self"
            if n["k"] == "call" and n["args"]:
                a0 = t.arg(s, 0)
                if isinstance(a0, tuple) and a0[0] == "ref" and t.mentions_param(a0, 1) and re.search(r"(get_mut|insert|remove|push|process_|send_message|receive_message|get_packets_to_send|add_pending_ack|received_packet|sent_packets|acked_)", callee_name(n)):
                    eff = f"call {short(callee_name(n))} on self state"
            if eff and not alive_at(f, s.bb):
                r.bad(f"{f.path}|{eff}", s, f"{eff} reachable while disconnected")
        for e, vs in se:
            if vs == {"Disconnected"} and not t.edge_effect_free(f, e): r.bad(f"{f.path}|true-edge", anchor, "disconnected edge is not effect free")
    out.append(r)
    # c1 connect events
    r = RuleResult("C12.c1", "ClientConnected pushed only after !contains_key(id), together with connections.insert(id)", floor=1)
    for s in t.aggrs("server::ServerEvent", "ClientConnected"):
        if "<impl" in s.fn.path or is_log_or_derive(s.node["span"]): continue
        r.site(s)
        f = s.fn
        eid = t.field_of_aggr(s, "client_id")
        absent, present = map_key_edges(t, f, "connections", lambda k: same(k, eid))
        ok = any(t.edge_dominates(f, e, s.bb) for e in absent)
        ins = [c for c in t.effects("connections", {"insert"}, f)]
        if "{closure" in f.path:
            # decide-then-do: `(!connections.contains_key(&id)).then(|| { ..insert(id, c); ClientConnected { id } })` - the closure body runs only when the
            # receiver of `then` is true; ids captured by the closure are resolved to what was captured
            par = owner_fn(t, f); tag = re.search(r"\{closure#\d+\}$", f.path).group(0)
            eid_r = resolved(t, eid, f)
            for c_ in t.sites(par):
                if c_.node["k"] != "call" or method_of(callee_name(c_.node)) not in ("then", "then_some") or not any(tag in fmt(y) for y in t.args(c_)[1:]): continue
                cond = strip(t.arg(c_, 0)); neg = False
                while isinstance(cond, tuple) and cond[0] == "un" and cond[1] == "Not": neg = not neg; cond = strip(cond[2])
                if neg and isinstance(cond, tuple) and cond[0] == "call" and method_of(cond[1]) == "contains_key" and t.rooted_at_field(cond[2][0], "connections") and (same(cond[2][1], eid_r) or fmt(strip(cond[2][1])) == fmt(strip(eid_r))): ok = True
            ins = [c for c in t.sites(f) if c.node["k"] == "call" and method_of(callee_name(c.node)) == "insert" and "connections" in fmt(resolved(t, t.arg(c, 0), f))]
            eid = eid_r
        if not ok: r.bad(f"{f.path}|guard", s, "ClientConnected event not guarded by the id being absent from connections (contains_key / entry)")
        if not ins: r.bad(f"{f.path}|insert", s, "ClientConnected event without connections.insert")
        else:
            c0 = ins[0]
            if "VacantEntry" in callee_name(c0.node):
                # slot.insert(value): the key is the one given to connections.entry(key)
                keyok = any(same(t.arg(e_, 1), eid) for e_ in t.effects("connections", {"entry"}, f))
            else: keyok = same(t.arg(c0, 1), eid) or fmt(strip(resolved(t, t.arg(c0, 1), c0.fn))) == fmt(strip(eid))
            if not keyok: r.bad(f"{f.path}|id", s, "event id differs from inserted key")
    out.append(r)
    # c2 disconnect events: Some-edge of connections.remove, reason from the removed connection
    r = RuleResult("C12.c2", "ClientDisconnected pushed only on the Some-edge of connections.remove(id); reason = removed connection's reason", floor=2)
    for s in t.aggrs("server::ServerEvent", "ClientDisconnected"):
        if "<impl" in s.fn.path or is_log_or_derive(s.node["span"]): continue
        r.site(s)
        f = s.fn
        rem = list(t.effects("connections", {"remove"}, f))
        if not rem and "{closure" in f.path:
            # `self.connections.remove(&id).map(|connection| ClientDisconnected { id, reason: connection.disconnect_reason().. })`: the closure is the Some edge
            par = owner_fn(t, f); tag = re.search(r"\{closure#\d+\}$", f.path).group(0)
            feeds = [c_ for c_ in t.sites(par) if c_.node["k"] == "call" and method_of(callee_name(c_.node)) in ("map", "and_then", "into_iter", "iter", "for_each", "inspect") and any(tag in fmt(y) for y in t.args(c_)[1:]) and t.mentions_call(t.arg(c_, 0), r"::remove$") and "connections" in fmt(t.arg(c_, 0))]
            if feeds:
                reason = t.field_of_aggr(s, "reason"); rtxt = fmt(reason)
                if not (t.mentions_call(reason, r"RenetClient::disconnect_reason$") or "connection_status" in rtxt): r.bad(f"{f.path}|reason", s, f"reason is not the removed connection's first reason: {rtxt[:80]}")
                continue
        if not rem: r.bad(f"{f.path}|remove", s, "ClientDisconnected without connections.remove"); continue
        if not any(f.dominates(x.bb, s.bb) for x in rem): r.bad(f"{f.path}|dom", s, "event not dominated by the removal")
        reason = t.field_of_aggr(s, "reason")
        rtxt = fmt(reason)
        if not ((t.mentions_call(reason, r"RenetClient::disconnect_reason$") or "connection_status" in rtxt) and t.mentions_call(reason, r"::remove$")):
            r.bad(f"{f.path}|reason", s, f"reason is not the removed connection's first reason: {fmt(reason)[:80]}")
        if not same(t.arg(rem[0], 1), t.field_of_aggr(s, "client_id")): r.bad(f"{f.path}|id", s, "event id differs from removed key")
    out.append(r)
    # c3 who grows/shrinks connections and pushes events
    r = RuleResult("C12.c3", "connections/events changed only by add_connection, remove_connection, disconnect_local_client", floor=3)
    allowed = ("::add_connection", "::remove_connection", "::disconnect_local_client")
    for s in list(t.effects("connections", {"insert", "remove", "clear", "retain", "drain"})) + list(t.effects("events", {"push_back", "push_front"})):
        if not s.fn.path.startswith("renet::server"): continue
        r.site(s)
        if not s.fn.path.endswith(allowed): r.bad(f"{s.fn.path}|{method_of(callee_name(s.node))}", s, f"{short(s.fn.path)} changes connections/events")
    out.append(r)
    out.append(W3.event_fifo(t, "C12.d"))
    return out

_rules_C12_w5d = rules
def rules(t, *a, **kw):
    import rules.wave5 as W5
    out = _rules_C12_w5d(t, *a, **kw)
    out.append(W5.connect_event_total(t, "C12.e"))
    return out
