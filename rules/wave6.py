# continuation of rules/wave5.py (same conventions)
import re
from sa.rules import *
from sa.rules import NEGATE, MIRROR
from rules.wave5 import _term_site, find_aggrs


def client_refresh_total(t, rid):
    """REFRESH-TOTAL (client): for a Connected client every authentic KeepAlive and Payload refreshes last_packet_received_time - on every path
    from the successful decode to the return that is consistent with (kind, state = Connected). A further condition on the arm (a sanity check
    on the keep-alive's slot fields, a flag, ..) lets genuine packets fall through to `_ => {}`; with only keep-alives flowing the client then
    times out although nothing was lost."""
    from rules.netcode_common import decode_sites, packet_variant_edges, enum_variant_edges, NC
    r = RuleResult(rid, "a Connected client refreshes its timeout for every authentic KeepAlive / Payload (no extra condition on those arms)", floor=0)
    f = t.fn("NetcodeClient::process_packet")
    is_state = lambda o: re.search(r"P1\(self\)\.state$", fmt(strip(o))) is not None
    ST = "renetcode::client::ClientState"
    refresh = [pos(s) for s in t.stores(NC, "last_packet_received_time", f)]
    if not refresh: r.bad("no-refresh", None, "NetcodeClient::process_packet never refreshes last_packet_received_time"); return r
    st_edges, allst = enum_variant_edges(t, f, is_state, ST)
    for d in decode_sites(t, f):
        e = t.result_edges(f, d)
        if not e: continue
        pk_edges = packet_variant_edges(t, f, d)
        for kind in ("KeepAlive", "Payload"):
            avoid = {ed for ed, vs in pk_edges if kind not in vs} | {ed for ed, vs in st_edges if "Connected" not in vs} | {e[1]}
            if e[0] in avoid: continue
            r.site(d, f"{kind} while Connected")
            ok, w = must_pass(f, (e[0][0], len(f.blocks[e[0][0]]["stmts"])), set(refresh), avoid_edges=avoid)
            if not ok: r.bad(f"{kind}|not-refreshed", _term_site(f, w), f"a Connected client can process an authentic {kind} packet on a path (through bb{w}) that does not refresh last_packet_received_time: with only such packets arriving it declares ConnectionTimedOut although the server is alive")
    return r


def _root_local(f, op):
    """the local a reference operand points at (through temporaries), or None"""
    if op["k"] not in ("copy", "move"): return None
    l = op["place"]["local"]
    for _ in range(6):
        ds = f.defs1(l)
        if len(ds) == 1 and ds[0][2]["k"] == "assign" and ds[0][2]["rv"]["k"] in ("ref", "rawptr") and not ds[0][2]["rv"]["place"]["proj"]: return ds[0][2]["rv"]["place"]["local"]
        if len(ds) == 1 and ds[0][2]["k"] == "assign" and ds[0][2]["rv"]["k"] == "use" and ds[0][2]["rv"]["op"]["k"] in ("copy", "move"): l = ds[0][2]["rv"]["op"]["place"]["local"]; continue
        if len(ds) == 1 and ds[0][2]["k"] == "assign" and ds[0][2]["rv"]["k"] in ("ref", "rawptr") and all(p["k"] == "deref" for p in ds[0][2]["rv"]["place"]["proj"]): l = ds[0][2]["rv"]["place"]["local"]; continue      # reborrow `&mut *r`
        return l
    return l


def reset_means_flushed(t, rid):
    """RESET => FLUSHED: in the small-message packers the running byte count of the packet under construction is set back (to 0 or to the size
    of the next message) only where the accumulator is empty on every path: it was just taken / moved out into a packet, or nothing has been
    pushed since. A reset that can be reached with messages still in the accumulator lets the packet grow to twice SLICE_SIZE."""
    r = RuleResult(rid, "the byte count of the small packet under construction is reset only where its accumulator has been emptied on every path", floor=0)
    for name in ("SendChannelReliable::get_packets_to_send", "SendChannelUnreliable::get_packets_to_send"):
        f = t.fn(name)
        tot = [l["i"] for l in f.locals if l.get("name") == "small_messages_bytes"]
        vec = [l["i"] for l in f.locals if l.get("name") == "small_messages"]
        if len(tot) != 1 or len(vec) != 1: r.samples.append(f"{name}: packing locals not identified, rule not evaluated"); continue
        tot, vec = tot[0], vec[0]
        gens, kills = [], []
        for s in t.sites(f):
            n = s.node
            if n["k"] == "call" and n["args"]:
                m_ = method_of(callee_name(n))
                if _root_local(f, n["args"][0]) == vec:
                    if m_ in ("take", "replace", "clear", "drain", "split_off", "truncate"): gens.append((s.bb, s.idx + 1))
                    elif m_ in ("push", "extend", "insert", "append", "extend_from_slice"): kills.append(pos(s))
            if n["k"] == "call" and not n["dest"]["proj"] and n["dest"]["local"] == vec and re.search(r"Vec.*::(new|with_capacity)$|from_elem", callee_name(n)): gens.append((s.bb, s.idx + 1))
            if n["k"] == "assign" and not n["place"]["proj"] and n["place"]["local"] == vec:
                v = strip(t.stored(s))
                if isinstance(v, tuple) and v[0] == "call" and re.search(r"Vec.*::(new|with_capacity)$|mem::take$|from_elem", v[1]): gens.append((s.bb, s.idx + 1))
        empty = must_fact(f, gen_points=gens, kill_points=kills)
        for s in t.sites(f):
            n = s.node
            if n["k"] != "assign" or n["place"]["proj"] or n["place"]["local"] != tot: continue
            v = t.stored(s)
            if "AddWithOverflow" in fmt(v) and f"rec#{tot}" in fmt(v) or re.search(r"phi#?%d\b" % tot, stable(v)) and "AddWithOverflow" in fmt(v): continue     # accumulation `total += size`
            if isinstance(strip(v), tuple) and strip(v)[0] == "field" and "AddWithOverflow" in fmt(v): continue
            r.site(s, f"reset to {fmt(v)[:30]}")
            if s.bb == 0 or not f.pred[s.bb] and s.bb == 0: continue
            if not empty(s.bb, s.idx):
                if all(f.dominates(s.bb, k[0]) or s.bb == 0 for k in kills) and not any(s.bb in f.reachable_from([k[0]]) for k in kills): continue      # the initialisation in front of the loop
                r.bad(f"{name}|reset-not-empty", s, "small_messages_bytes is set back on a path on which messages already collected are still in small_messages (nothing was flushed): the packet under construction is then filled against a fresh SLICE_SIZE budget and can reach twice SLICE_SIZE, above the carrier limit")
    return r


def complete_means_removed(t, rid):
    """COMPLETE => REMOVED: when the last missing slice completes a message and the message is handed to the channel's `messages`, the reassembly
    entry leaves `slices` in the same call (before or after the hand-over, on every path). An entry that stays behind completes again on every
    late duplicate of one of its slices (its completion test is outside the `already received` branch and its buffer was moved out): the
    application obtains a message the peer never submitted."""
    r = RuleResult(rid, "a completed sliced message is delivered together with the removal of its reassembly entry from `slices`", floor=0)
    for name in ("ReceiveChannelReliable::process_slice", "ReceiveChannelUnreliable::process_slice"):
        f0 = t.fn(name)
        for f in fn_and_closures(t, f0):
            deliver = [c for c in t.sites(f) if c.node["k"] == "call" and len(c.node["args"]) >= 2 and method_of(callee_name(c.node)) in ("push_back", "push", "insert", "push_front") and re.search(r"\.messages\b", fmt(t.arg(c, 0))) and "SliceConstructor::process_slice" in fmt(t.args(c)[-1])]
            deliver += [c for c in t.sites(f) if c.node["k"] == "call" and len(c.node["args"]) >= 2 and re.search(r"ReceiveChannelReliable::process_message$", callee_name(c.node)) and any("SliceConstructor::process_slice" in fmt(a) for a in t.args(c)[1:])]
            rem = [c for c in t.sites(f) if c.node["k"] == "call" and c.node["args"] and ((method_of(callee_name(c.node)) in ("remove", "remove_entry") and re.search(r"\.slices\)*$|\.slices\b(?!_)", fmt(t.arg(c, 0)))) or (re.search(r"OccupiedEntry.*::remove(_entry)?$", callee_name(c.node)) and re.search(r"\.slices\b(?!_)", fmt(t.arg(c, 0)))))]
            for d in deliver:
                r.site(d, "completed message delivered")
                if any(f.dominates(x.bb, d.bb) and (x.bb != d.bb or x.idx < d.idx) for x in rem): continue
                e = t.result_edges(f, d)      # a failing hand-over (budget error) ends the connection (C06.b): only the Ok edge matters
                start, avoid = pos(d), set()
                if e and e[0][1] != e[1][1]: start, avoid = (e[0][0], len(f.blocks[e[0][0]]["stmts"])), {e[1]}
                if rem and must_pass(f, start, {pos(x) for x in rem}, avoid_edges=avoid)[0]: continue
                r.bad(f"{name}|entry-kept", d, "a completed sliced message is delivered on a path that keeps its reassembly entry in `slices`: a late duplicate of any of its slices completes the (emptied) entry again and a fabricated message is delivered")
    return r


def stale_index(t, rid):
    """STALE-INDEX: in RenetClient::add_pending_ack a position found by scanning pending_acks is used for `insert` only while the list is
    unchanged: no removal from pending_acks can precede the insert on a path. After `remove(0)` every element has moved down by one, the
    remembered index puts the new range behind the range it should precede: the list is no longer sorted and the ack encoder's
    `previous_start - end` subtraction underflows (panic / a gap above the varint range)."""
    r = RuleResult(rid, "pending_acks.insert(index, ..) is never reached after a removal from pending_acks (the scanned index would be stale)", floor=0)
    f0 = t.fn("RenetClient::add_pending_ack")
    for f in fn_and_closures(t, f0):
        on_acks = lambda c: c.node["k"] == "call" and c.node["args"] and re.search(r"\.pending_acks\)*$", fmt(strip(t.arg(c, 0))) )
        ins = [c for c in t.sites(f) if on_acks(c) and method_of(callee_name(c.node)) == "insert" and re.search(r"Vec", callee_name(c.node)) and const_eval(t.arg(c, 1)) is None]
        rem = [c for c in t.sites(f) if on_acks(c) and method_of(callee_name(c.node)) in ("remove", "drain", "retain", "swap_remove", "truncate", "pop", "split_off", "clear", "dedup_by", "dedup_by_key")]
        for c in ins:
            r.site(c, f"insert at {fmt(t.arg(c, 1))[:40]}")
            for x in rem:
                before = (x.bb == c.bb and x.idx < c.idx) or (x.bb != c.bb and c.bb in f.reachable_from([x.bb]))
                if not before: continue
                # unless the index is computed after the removal
                idx_l = c.node["args"][1]["place"]["local"] if c.node["args"][1]["k"] in ("copy", "move") else None
                ds = f.defs().get(idx_l, []) if idx_l is not None else []
                if ds and all(d[0] in f.reachable_from([x.bb]) and not f.dominates(d[0], x.bb) for d in ds): continue
                r.bad("insert-after-remove", c, f"pending_acks.insert({fmt(t.arg(c, 1))[:40]}, ..) can run after {method_of(callee_name(x.node))}() on the same list (line {x.line}): the index was found before the elements moved, the new range lands behind its successor and the list is no longer sorted")
                break
    return r


def ack_record_value(t, rid):
    """PROV (value): what is remembered for a sent Ack packet is the largest sequence the packet denotes: ack ranges are half-open, so the value
    derived from the newest range's `end` is `end - 1`. Recording the exclusive end makes acked_largest() erase sequence end from pending_acks
    once the ack packet is confirmed, although no confirmed ack packet ever reported it."""
    r = RuleResult(rid, "the largest-acked value recorded for a sent Ack packet is the newest range's end minus one (ranges are half-open)", floor=0)
    for a_ in t.aggrs("remote_connection::PacketSentInfo", "Ack"):
        if " as std::clone::Clone>" in a_.fn.path: continue
        try: v = t.field_of_aggr(a_, "largest_acked_packet")
        except Exception: continue
        txt = fmt(v)
        # closures that take part in the value (map_or(0, |r| r.end - 1))
        for g in fn_and_closures(t, owner_fn(t, a_.fn)):
            tag = re.search(r"\{closure#\d+\}$", g.path)
            if tag and tag.group(0) in txt: txt += " " + fmt(g.origin_of_local(0))
        r.site(a_, txt[:70])
        if ".end" not in txt: r.samples.append("value not derived from a range end: not evaluated"); continue
        if not re.search(r"\.end\)* (SubWithOverflow|Sub) 1\)|saturating_sub\([^()]*\.end\)*, 1\)|checked_sub\([^()]*\.end\)*, 1\)|wrapping_sub\([^()]*\.end\)*, 1\)", txt):
            r.bad(f"{short(a_.fn.path)}|exclusive-end", a_, f"the value recorded for a sent Ack packet is {txt[:80]}: the exclusive end of the newest range, one more than the largest sequence the packet acknowledges; when that packet is acknowledged the receiver forgets a sequence it never reported")
    return r
