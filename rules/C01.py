# C01 ReliableOrdered: cursor / dedupe / id / release-ownership typestate (necessary conditions only)
import re
from sa.rules import *
import rules.wave3 as W3
import rules.shared as shared

RR, SR = "channel::reliable::ReceiveChannelReliable", "channel::reliable::SendChannelReliable"

def plus_one_of(t, o, field):
    txt = fmt(o)
    return re.search(r"\(\*?P1\(self\)\." + field + r" AddWithOverflow 1\)\.0$", txt) is not None

def rules(t):
    out = []
    r = RuleResult("C01.a", "delivery cursor written only by new/receive_message, always cursor + 1", floor=2)
    for s in t.stores(RR, "oldest_pending_message_id"):
        r.site(s)
        if not s.fn.path.endswith(("::receive_message",)): r.bad(f"{s.fn.path}|writer", s, "cursor written outside receive_message")
        elif not plus_one_of(t, t.stored(s), "oldest_pending_message_id"): r.bad(f"{s.fn.path}|step", s, f"cursor does not advance by exactly one: {fmt(t.stored(s))[:60]}")
    out.append(r)
    rm = t.fn("ReceiveChannelReliable::receive_message")
    r = RuleResult("C01.b", "ordered delivery returns exactly messages.remove(&cursor) and then advances the cursor", floor=1)
    rem = [c for c in t.effects("messages", {"remove"}, rm)]
    for c in rem:
        r.site(c)
        if not t.is_field(t.arg(c, 1), "oldest_pending_message_id"): r.bad("key", c, f"ordered channel removes key {fmt(t.arg(c,1))[:40]}, not the cursor")
        e = t.result_edges(rm, c)
        st = [s for s in t.stores(RR, "oldest_pending_message_id", rm)]
        if not e or not any(t.edge_dominates(rm, e[0], s.bb) for s in st): r.bad("advance", c, "cursor not advanced on the Some edge of the removal")
    rets = [s for s in t.aggrs("std::option::Option", "Some", rm) if s.node["place"]["local"] == 0]
    for s in rets:
        v = fmt(t.stored(s))
        if not ("::remove(" in v or "::pop_first(" in v): r.bad("ret", s, f"receive_message returns something else than the removed message: {v[:60]}")
    out.append(r)
    pm = t.fn("ReceiveChannelReliable::process_message")
    r = RuleResult("C01.c", "messages below the cursor are discarded without effect; buffered ordered messages are never overwritten", floor=2)
    grows = list(t.effects("messages", {"insert"}, pm)) + list(t.calls(r"VacantEntry.*::insert$", pm))
    guard = list(t.find_cmp(pm, lambda a: isinstance(strip(a), tuple) and strip(a)[0] == "param" and "message_id" in (strip(a)[2] or ""), lambda b: t.is_field(b, "oldest_pending_message_id"), None))
    for g in grows:
        r.site(g)
        ok = False
        for br, op, te, fe in guard:
            if op == "Lt" and t.edge_dominates(pm, fe, g.bb) and t.edge_effect_free(pm, te): ok = True
        if not ok: r.bad(f"guard|{method_of(callee_name(g.node))}", g, "message buffered without the `id < cursor -> discard` test (strict, effect free)")
    # ordered arm: only VacantEntry::insert
    names = t.variants_of("channel::reliable::ReliableOrder")
    for br in t.branches(pm):
        if br["kind"] == "discr" and fmt(br["on"]).endswith("reliable_order"):
            for v, tgt in br["targets"].items():
                if names.get(v) == "Ordered":
                    others = [x for w, x in br["targets"].items() if w != v] + [br["otherwise"]]
                    reg = pm.reachable_from([tgt]) - set().union(*[pm.reachable_from([o]) for o in others])
                    absent, present = map_key_edges(t, pm, "messages", lambda k: "message_id" in fmt(k))
                    for g in grows:
                        if g.bb in reg and method_of(callee_name(g.node)) == "insert" and "VacantEntry" not in callee_name(g.node):
                            if not any(t.edge_dominates(pm, e, g.bb) for e in absent): r.bad("overwrite", g, "ordered arm stores a message with BTreeMap::insert on a path where the id may already be buffered (a buffered message could be overwritten)")
    out.append(r)
    sm = t.fn("SendChannelReliable::send_message")
    r = RuleResult("C01.d", "message ids are assigned from a counter that advances by one per submitted message", floor=2)
    for s in t.stores(SR, "next_reliable_message_id"):
        r.site(s)
        if not s.fn.path.endswith("::send_message"): r.bad("writer", s, "id counter written outside send_message")
        elif not plus_one_of(t, t.stored(s), "next_reliable_message_id"): r.bad("step", s, "id counter does not advance by one")
    for g in t.effects("unacked_messages", {"insert"}, sm):
        r.site(g)
        if not t.is_field(t.arg(g, 1), "next_reliable_message_id"): r.bad("key", g, "message stored under a key that is not the id counter")
        st = list(t.stores(SR, "next_reliable_message_id", sm))
        after = [x for x in st if sm.dominates(g.bb, x.bb) and (x.bb != g.bb or x.idx > g.idx)]
        if not st or not after or any(sm.dominates(x.bb, g.bb) and (x.bb != g.bb or x.idx < g.idx) for x in st): r.bad("order", g, "id counter advanced before the message is stored under it")
    out.append(r)
    r = RuleResult("C01.e", "unacked messages are released only by the two ack handlers, which only process_packet calls", floor=4)
    for g in t.effects("unacked_messages", SHRINK):
        r.site(g)
        if not g.fn.path.endswith(("::process_message_ack", "::process_slice_message_ack")): r.bad(f"{g.fn.path}|shrink", g, f"{short(g.fn.path)} removes unacked messages")
    for c in list(t.calls(r"SendChannelReliable::process_message_ack$")) + list(t.calls(r"SendChannelReliable::process_slice_message_ack$")):
        r.site(c)
        if not owner_fn(t, c.fn).path.endswith("RenetClient::process_packet"): r.bad(f"{owner_fn(t, c.fn).path}|caller", c, f"ack handler called from {short(owner_fn(t, c.fn).path)}")
    out.append(r)
    gp = t.fn("SendChannelReliable::get_packets_to_send")
    r = RuleResult("C01.f", "the retransmission loop visits every unacked message: its only exit is the exhausted iterator", floor=1)
    heads = [b for b in gp.reach if any(gp.dominates(b, p) for p in gp.pred[b])]
    outer = None
    for h in heads:
        tcall = gp.blocks[h]["term"]
        if tcall["k"] == "call" and "IterMut" in callee_name(tcall) and method_of(callee_name(tcall)) == "next": outer = h
    if outer is None: r.bad("loop", None, "loop over unacked_messages.iter_mut() not found")
    else:
        r.site(Site(gp, outer, 0, gp.blocks[outer]["term"]))
        body = set()
        for p in gp.pred[outer]:
            if gp.dominates(outer, p):
                st = [p]; body.add(outer)
                while st:
                    x = st.pop()
                    if x not in body: body.add(x); st.extend(gp.pred[x])
        exits = {(x, s) for x in body for s in gp.succ[x] if s not in body}
        # the legitimate exit: the None edge of the switch on next()'s result
        legit = set()
        for br in t.branches(gp):
            if br["kind"] == "discr" and br["bb"] in body and "IterMut" in fmt(br["on"]) and "next" in fmt(br["on"]):
                legit |= {(br["bb"], tgt) for tgt in list(br["targets"].values()) + [br["otherwise"]] if tgt not in body}
        extra = {e_ for e_ in exits - legit if gp.reachable_from([e_[1]]) & set(gp.returns)}      # (an `unreachable` block of a desugared `for` is not an exit)
        if extra: r.bad("exit", Site(gp, list(extra)[0][0], 0, gp.blocks[list(extra)[0][0]]["term"]), f"retransmission loop can be left early through {sorted(extra)} (later messages starve)")
    out.append(r)
    out.append(shared.ack_once(t, "C01.g"))
    out.append(shared.seq_unique(t, "C01.h"))
    import rules.C03 as C03
    rr = C03.length_from_last_slice(t); rr.id = "C01.i"
    for v in rr.violations: v.rule = "C01.i"; v.key = "C01.i|" + v.key.split("|", 1)[1]
    out.append(rr)
    out.append(shared.range_algebra(t, "C01.j"))
    out.append(W3.wire_narrowing(t, "C01.k"))
    import rules.shared as _sh
    out.append(_sh.sent_record_rule(t, "C01.l"))
    return out

_rules_c01_w5c = rules
def rules(t):
    import rules.wave5 as W5
    out = _rules_c01_w5c(t)
    out.append(W5.slice_scan_all(t, "C01.m"))
    out.append(W5.ordered_flag(t, "C01.n"))
    return out

_rules_C01_w7b = rules
def rules(t, *a, **kw):
    import rules.wave7 as W7
    out = _rules_C01_w7b(t, *a, **kw)
    out.append(W7.no_silent_drop(t, "C01.o"))
    out.append(W7.resend_scan_reached(t, "C01.p"))
    return out
