# C03 Message integrity / fragmentation — dispatch, slice geometry agreement, completion guard, keyed reassembly
import re
from sa.rules import *
import rules.wave3 as W3
SC = "channel::slice_constructor::SliceConstructor"

def rules(t):
    out = []
    pp = t.fn("RenetClient::process_packet")
    r = RuleResult("C03.a1", "each packet kind is dispatched to the receive map of its own kind, keyed by its own channel id, with its own payload", floor=4)
    want = {"process_message": None, "process_slice": None}
    for c in list(t.calls(r"ReceiveChannelReliable::process_(message|slice)$", pp)) + list(t.calls(r"ReceiveChannelUnreliable::process_(message|slice)$", pp)):
        r.site(c, short(callee_name(c.node)))
        recv = fmt(t.arg(c, 0)); pay = fmt(t.arg(c, 1))
        rel = "ChannelReliable" in callee_name(c.node)
        m = re.search(r"as (SmallReliable|SmallUnreliable|ReliableSlice|UnreliableSlice)\.", pay)
        kind = m.group(1) if m else None
        if kind is None: r.bad(f"payload|{short(callee_name(c.node))}", c, f"argument is not a field of the parsed packet: {pay[:60]}"); continue
        if ("Unreliable" in kind) == rel: r.bad(f"kind|{kind}", c, f"{kind} packet handed to the {'reliable' if rel else 'unreliable'} channel")
        mapf = "receive_reliable_channels" if rel else "receive_unreliable_channels"
        if mapf not in recv: r.bad(f"map|{kind}", c, f"{kind}: channel not taken from {mapf}")
        if f"as {kind}.channel_id" not in recv: r.bad(f"key|{kind}", c, f"{kind}: channel looked up with another id than the packet's channel_id")
    out.append(r)
    r = RuleResult("C03.a2", "emitted packets carry the sending channel's own id; channel objects are registered under their configured id", floor=10)
    for name in ("SendChannelReliable::get_packets_to_send", "SendChannelUnreliable::get_packets_to_send"):
        f = t.fn(name)
        for s in t.aggrs("renet::packet::Packet", None, f):
            r.site(s, s.node["rv"]["vname"])
            if not t.is_field(t.field_of_aggr(s, "channel_id"), "channel_id"): r.bad(f"{name}|{s.node['rv']['vname']}", s, "packet channel_id is not the channel's own id")
    fc = t.fn("RenetClient::from_channels")
    for c in t.calls(r"HashMap.*::insert$", fc):
        key, val = t.arg(c, 1), strip(t.arg(c, 2))
        r.site(c)
        if "channel_id" not in fmt(key): r.bad("register-key", c, "channel registered under something else than its configured channel_id")
        # a channel object that carries an id (SendChannelReliable/Unreliable, ReceiveChannelUnreliable: first constructor argument) is built with the id it is registered under
        if isinstance(val, tuple) and val[0] == "call" and method_of(val[1]) == "new" and "ReceiveChannelReliable" not in val[1]:
            if not val[2] or not same(val[2][0], key): r.bad(f"register-val|{short(val[1])}", c, f"channel object constructed with id {fmt(val[2][0])[-50:] if val[2] else '?'} but registered (and looked up) under {fmt(key)[-50:]}: its packets carry another channel's id")
    for c in t.calls(r"Vec.*::push$", fc):
        v = strip(t.arg(c, 1))
        if isinstance(v, tuple) and v[0] == "aggr" and "ChannelOrder" in str(v[1]):
            r.site(c, "send order entry")
            if "channel_id" not in fmt(v[3][0]): r.bad("order-id", c, "send-order entry does not carry the configured channel_id")
    out.append(r)

    r = RuleResult("C03.b", "slice geometry: start = k*SLICE_SIZE at both senders and at the receiver; sender slices end at min((k+1)*SLICE_SIZE, len); receiver copies exactly len(bytes)", floor=3)
    S = t.F.consts["renet::packet::SLICE_SIZE"]["val"]
    for name, idxname in (("SendChannelReliable::get_packets_to_send", None), ("SendChannelUnreliable::get_packets_to_send", None)):
        f = t.fn(name)
        for c in t.calls(r"Bytes::slice$", f):      # (`slice_ref` over `chunks(SLICE_SIZE)` gets its geometry from the standard library: nothing to compare)
            r.site(c)
            rg = strip(t.arg(c, 1))
            if not (isinstance(rg, tuple) and rg[0] == "aggr" and rg[1].endswith("Range")): r.bad(f"{name}|range", c, "slice() not called with start..end"); continue
            start, end = fmt(rg[3][0]), fmt(rg[3][1])
            indexed = re.search(r"MulWithOverflow " + str(S) + r"\)\.0$", start) is not None
            # equivalent running-cursor form: start = previous end (a loop-carried local starting at 0), end = min(start + SLICE_SIZE, len)
            sst, sen = stable(rg[3][0]), stable(rg[3][1])
            cursor = sst.startswith("phi#") and "Ord::min" in sen and f"({sst} AddWithOverflow {S})" in sen and "Bytes::len" in sen
            if not indexed and not cursor: r.bad(f"{name}|start", c, f"slice start is {start[:60]}, expected k*SLICE_SIZE")
            # `min(len, (k+1)*S)` / `min(k*S + S, len)`: the same end without the `is last slice` conditional (num_slices = ceil(len / S))
            via_min = re.search(r"(Ord|cmp)::min\(", end) is not None and "Bytes::len" in end and ((f"MulWithOverflow {S}" in end and "AddWithOverflow 1" in end) or f"({start} AddWithOverflow {S})" in end)
            if not cursor and not via_min and not ("phi(" in end and "Bytes::len" in end and f"MulWithOverflow {S}" in end and "AddWithOverflow 1" in end): r.bad(f"{name}|end", c, f"slice end is {end[:80]}, expected (last ? len : (k+1)*SLICE_SIZE)")
        for s in t.aggrs("renet::packet::Slice", None, f):
            n = fmt(t.field_of_aggr(s, "num_slices"))
            if "div_ceil" not in n and "num_slices" not in n: r.bad(f"{name}|num_slices", s, f"num_slices is {n[:50]}, not ceil(len / SLICE_SIZE)")
    for c in list(t.calls(r"div_ceil$", t.fn("UnackedMessage::new_sliced"))) + list(t.calls(r"div_ceil$", t.fn("SendChannelUnreliable::get_packets_to_send"))):
        if const_eval(t.arg(c, 1)) != S or "Bytes::len" not in fmt(t.arg(c, 0)): r.bad(f"{c.fn.path}|div_ceil", c, "num_slices is not div_ceil(len(message), SLICE_SIZE)")
    ps = t.fn("SliceConstructor::process_slice")
    for c in t.calls(r"copy_from_slice$", ps):
        r.site(c)
        dst = fmt(t.arg(c, 0)); src = fmt(t.arg(c, 1))
        if "P3(bytes)" not in src: r.bad("copy-src", c, "copied bytes are not the slice payload")
        m = re.search(r"Range\{(.*)\}\)$", dst)
        if "sliced_data" not in dst or f"P2(slice_index) MulWithOverflow {S}" not in dst: r.bad("copy-dst", c, f"copy target does not start at slice_index*SLICE_SIZE: {dst[:90]}")
        if "len(P3(bytes))" not in dst.replace("&*", "").replace("&", "") and "AddWithOverflow 1" not in dst: r.bad("copy-len", c, "copy range end is not derived from the payload length / next slice boundary")
    out.append(r)

    r = RuleResult("C03.c", "a message is released only when all slices arrived; each slice index counts once; size guards precede the copy", floor=3)
    import rules.shared as shared
    rets = [s for s in t.aggrs("std::option::Option", "Some", ps)]
    eq = [e for e, br in rel_edges(t, ps, lambda a: t.is_field(a, "num_received_slices"), lambda b: t.is_field(b, "num_slices"), "Eq")]
    for s in rets:
        r.site(s)
        if not any(t.edge_dominates(ps, e, s.bb) for e in eq): r.bad("complete", s, "reassembled message returned without `num_received_slices == num_slices`")
    cf = shared.counted_flag_rule(t, "C03.c", "", ps, SC, "num_received_slices", "received", r"P2\(slice_index\)")
    r.sites += cf.sites
    for v in cf.violations: r.bad(v.key.split("|", 1)[1].split("|")[-1], v.site, v.msg.replace("acknowledged/received", "received"))
    cp = list(t.calls(r"copy_from_slice$", ps))
    is_len = lambda a: "len(P3(bytes))" in fmt(a).replace("&*", "").replace("&", "")
    is_S = lambda b: const_eval(b) == S
    size_edges = {e for e, br in rel_edges(t, ps, is_len, is_S, "Le")} | {e for e, br in rel_edges(t, ps, is_len, is_S, "Eq")}
    for e in size_edges: r.site(Site(ps, e[0], 0, ps.blocks[e[0]]["term"]), "size guard")
    from rules.netcode_common import reachable_avoiding
    reach = reachable_avoiding(ps, 0, size_edges)
    for c in cp:
        if c.bb in reach: r.bad("size-guards", c, "payload copied into the reassembly buffer on a path where its length was not checked against SLICE_SIZE (`== SLICE_SIZE`, or `<= SLICE_SIZE` for the last slice)")
    # a non-last slice must be exactly SLICE_SIZE: the `<=` form is only acceptable under `slice_index == num_slices - 1`
    last_e = [e for e, br in rel_edges(t, ps, lambda a: fmt(strip(a)) == "P2(slice_index)", lambda b: re.search(r"num_slices SubWithOverflow 1\)\.0$", fmt(b)) is not None, "Eq")]
    not_last = [e for e, br in rel_edges(t, ps, lambda a: fmt(strip(a)) == "P2(slice_index)", lambda b: re.search(r"num_slices SubWithOverflow 1\)\.0$", fmt(b)) is not None, "Ne")]
    eq_edges = {e for e, br in rel_edges(t, ps, is_len, is_S, "Eq")}
    # a slice that is not the last one must be exactly SLICE_SIZE: without the `== SLICE_SIZE` edges and the `is last slice` edges the copy is unreachable
    if cp and (last_e or not_last):
        seen = reachable_avoiding(ps, 0, eq_edges | set(last_e))
        if any(c.bb in seen for c in cp): r.bad("size-exact", cp[0], "a slice that is not the last one can be copied without `len(bytes) == SLICE_SIZE`: a short middle slice leaves a hole / shifts data")
    elif cp: r.bad("size-last", cp[0], "no `slice_index == num_slices - 1` distinction before the copy")
    out.append(r)

    r = RuleResult("C03.d", "reassembly state is keyed by the slice's own message id", floor=6)
    for name in ("ReceiveChannelReliable::process_slice", "ReceiveChannelUnreliable::process_slice"):
        f = t.fn(name)
        for fld in ("slices", "slices_last_received"):
            for c in t.effects(fld, {"contains_key", "entry", "remove", "insert"}, f):
                if "VacantEntry" in callee_name(c.node) or "OccupiedEntry" in callee_name(c.node): continue   # key given to entry(key), checked there
                r.site(c, method_of(callee_name(c.node)))
                if not re.search(r"P2\(slice\)\.message_id$", fmt(t.arg(c, 1))): r.bad(f"{name}|{fld}|{method_of(callee_name(c.node))}", c, f"{fld} accessed with key {fmt(t.arg(c,1))[:40]}, not the slice's message id")
        for c in t.calls(r"SliceConstructor::process_slice$", f):
            a = t.args(c)
            if not re.search(r"P2\(slice\)\.slice_index$", fmt(a[1])) or "P2(slice).payload" not in fmt(a[2]): r.bad(f"{name}|args", c, "slice constructor fed with another index/payload than the slice's own")
    out.append(r)
    return out


def slice_id_per_message(t):
    """C03.f: slices of different unreliable messages never share a message id: after the slices of one message were built from
    `sliced_message_id`, the id is advanced before the next message is taken from the queue (or the function returns)."""
    f = t.fn("SendChannelUnreliable::get_packets_to_send")
    r = RuleResult("C03.f", "unreliable slices: the sliced-message id is advanced once per sliced message, before the next message is dequeued", floor=2)
    allst = list(t.stores_like(r"\.sliced_message_id$", f))
    bumps = [s for s in allst if re.search(r"sliced_message_id AddWithOverflow 1\)\.0$", fmt(t.stored(s)))]
    for s in allst:
        r.site(s)
        if s not in bumps: r.bad("id-step", s, f"sliced_message_id assigned {fmt(t.stored(s))[-50:]} (only +1 is allowed)")
    nxt = list(t.effects("unreliable_messages", {"pop_front"}, f))
    for a in t.aggrs("renet::packet::Slice", None, f):
        r.site(a)
        if not t.is_field(t.field_of_aggr(a, "message_id"), "sliced_message_id"): r.bad("id-src", a, f"slice message_id is {fmt(t.field_of_aggr(a,'message_id'))[-50:]}, not the channel's sliced_message_id"); continue
        ok, w = must_pass(f, pos(a), {pos(b) for b in bumps}, stops={pos(x) for x in nxt})
        if not ok: r.bad("id-shared", a, "after the slices of a message were built the sliced-message id is not advanced before the next message is dequeued / the function returns: two messages share one reassembly id (stitched or lost messages)")
    return r

_rules_c03 = rules
def rules(t):
    out = _rules_c03(t)
    out.append(slice_id_per_message(t))
    return out


def length_from_last_slice(t):
    """C03.g: the reassembled length is decided by the last slice alone: every length-changing operation on the reassembly buffer is
    dominated by `slice_index == num_slices - 1` and its new length is (num_slices-1)*SLICE_SIZE + len(bytes of that slice)."""
    f = t.fn("SliceConstructor::process_slice")
    S = t.F.consts["renet::packet::SLICE_SIZE"]["val"]
    r = RuleResult("C03.g", "reassembly length comes from the last slice only: resize/truncate of the buffer only under `slice_index == num_slices - 1`, to (num_slices-1)*SLICE_SIZE + len(bytes)", floor=1)
    last = [(br, op, te, fe) for br, op, te, fe in t.find_cmp(f, lambda a: fmt(strip(a)) == "P2(slice_index)", lambda b: re.search(r"num_slices SubWithOverflow 1\)\.0$", fmt(b)) is not None, None) if op == "Eq"]
    for c in t.sites(f):
        n = c.node
        if n["k"] != "call" or not n["args"]: continue
        m = method_of(callee_name(n))
        if m not in ("resize", "truncate", "set_len", "split_off", "drain", "resize_with", "shrink_to", "clear", "extend_from_slice", "push", "pop", "insert", "remove"): continue
        if not t.mentions_field(t.arg(c, 0), "sliced_data"): continue
        r.site(c, m)
        if not any(t.edge_dominates(f, te, c.bb) for br, op, te, fe in last): r.bad(f"len-change|{m}", c, f"{m}() changes the reassembly buffer length outside the `slice_index == num_slices - 1` branch: the message length would depend on arrival order")
        elif m == "resize":
            ln = fmt(t.arg(c, 1))
            lnn = ln.replace("&*", "").replace("&", "")
            # under `slice_index == num_slices - 1` both spellings denote the same length
            if not ((f"num_slices SubWithOverflow 1).0 MulWithOverflow {S}" in ln or f"P2(slice_index) MulWithOverflow {S}" in ln) and "len(P3(bytes))" in lnn): r.bad("len-value", c, f"final length is {ln[-80:]}, expected (num_slices-1)*SLICE_SIZE + len(bytes)")
    return r

_rules_c03b = rules
def rules(t):
    out = _rules_c03b(t)
    out.append(length_from_last_slice(t))
    import rules.C15 as C15
    rr = C15.index_agreement(t); rr.id = "C03.h"
    for v in rr.violations: v.rule = "C03.h"; v.key = "C03.h|" + v.key.split("|", 1)[1]
    out.append(rr)
    out.append(W3.wire_narrowing(t, "C03.i"))
    out.append(W3.emit_once(t, "C03.j"))
    return out

_rules_C03_w6 = rules
def rules(t, *a, **kw):
    import rules.wave6 as W6
    out = _rules_C03_w6(t, *a, **kw)
    out.append(W6.complete_means_removed(t, "C03.k"))
    return out


def constructor_geometry_fixed(t, rid):
    """CONSTRUCT-ONCE: the geometry of a reassembly (which message, how many slices) is fixed when the SliceConstructor is created: `message_id`
    and `num_slices` are never stored to afterwards. A constructor that is re-targeted to another message carries over whatever of its
    progress state (`received`, `num_received_slices`, buffer) the re-initialisation forgets - the next message completes early / with holes."""
    r = RuleResult(rid, "SliceConstructor.message_id / num_slices are set by construction only (a reassembly is never re-targeted to another message)", floor=0)
    for fld in ("num_slices", "message_id"):
        for s in t.stores("slice_constructor::SliceConstructor", fld):
            r.site(s, fld)
            r.bad(f"{short(s.fn.path)}|restore|{fld}", s, f"SliceConstructor.{fld} is stored to outside construction: the reassembly state (received flags, received count, buffer) now belongs to another message than the one it was collected for; a forgotten piece of it makes the next message complete with missing or foreign bytes")
    r.sites += 1
    return r


_rules_C03_w9 = rules
def rules(t, *a, **kw):
    out = _rules_C03_w9(t, *a, **kw)
    out.append(constructor_geometry_fixed(t, "C03.l"))
    return out
