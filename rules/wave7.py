# continuation of rules/wave5.py / wave6.py (same conventions)
import re
from sa.rules import *
from sa.rules import NEGATE, MIRROR
from rules.wave5 import _term_site, find_aggrs, TRUNCATING


def ack_collection_total(t, rid):
    """FULL-VISIT (acks): every sequence an incoming Ack packet covers that is still in sent_packets is collected in that call: the loops over the
    packet's ack ranges and over `sent_packets.range(range)` have no exit but exhaustion, and no truncating adaptor caps them. An ack that is
    processed only in part is lost for the rest: the peer forgets the ranges once its ack packet is confirmed, the sender retransmits what was
    acknowledged."""
    r = RuleResult(rid, "the collection of newly acknowledged sequences (over ack_ranges x sent_packets.range) runs to exhaustion: no break, no cap", floor=0)
    f0 = t.fn("RenetClient::process_packet")
    def is_src(o):
        txt = fmt(o)
        return bool(re.search(r"as Ack\.ack_ranges", txt) or re.search(r"::range\(&\**P1\(self\)\.sent_packets", txt))
    for f in fn_and_closures(t, f0):
        for c in t.sites(f):
            if c.node["k"] != "call" or not c.node["args"]: continue
            m_ = method_of(callee_name(c.node))
            a0 = t.arg(c, 0)
            if not is_src(resolved(t, a0, f)): continue
            if m_ in TRUNCATING and m_ not in ("find", "find_map", "position", "any", "all") and re.search(r"iter::|Iterator|Iter|Range", callee_name(c.node)):
                r.site(c, f"adaptor {m_}"); r.bad(f"truncated|{m_}", c, f"the traversal of the acknowledged sequences is wrapped in `{m_}`: part of an ack packet is ignored, and the peer will not announce those sequences again once its ack packet is confirmed")
            if m_ != "next": continue
            lp = innermost_loop(f, c.bb)
            if lp is None: continue
            head, body = lp
            r.site(c, "loop over acknowledged sequences")
            exits = {(x, s) for x in body for s in f.succ[x] if s not in body}
            legit = set()
            me = norm(f.call_origin(c.node))
            for br in t.branches(f):
                if br["kind"] == "discr" and br["bb"] in body and norm(strip(br["on"])) == me:
                    legit |= {(br["bb"], tgt) for tgt in list(br["targets"].values()) + [br["otherwise"]] if tgt not in body}
            # leaving an inner loop into the enclosing one through the inner iterator's exhaustion is legitimate; any other edge that leaves this loop
            extra = {e_ for e_ in exits - legit if f.reachable_from([e_[1]]) & set(f.returns)}
            # an exit that only reports an error for the whole packet (disconnect) is outside this clause
            extra = {e_ for e_ in extra if not any(re.search(r"disconnect_with_reason$", callee_name(x.node)) for x in t.sites(f) if x.node["k"] == "call" and x.bb in f.reachable_from([e_[1]]) and x.bb not in body and f.dominates(e_[1], x.bb))}
            if extra:
                x = sorted(extra)[0]
                r.bad("early-exit", _term_site(f, x[0]), f"the loop that collects the sequences acknowledged by an Ack packet can be left before its iterator is exhausted (edge bb{x[0]}->bb{x[1]}): the rest of the ack is dropped, and the peer forgets those ranges once its ack packet is confirmed, so acknowledged packets are retransmitted")
    return r


def matched_entry_untouched(t, rid):
    """MATCH => READ-ONLY: in find_or_add_connect_token_entry an entry whose MAC equals the incoming token's is only compared (its address decides),
    never written: the index of every element write comes from the empty/oldest search, not from the position of the match. Rewriting the
    matched entry (refreshing time and address) rebinds the token to whoever sent it last."""
    r = RuleResult(rid, "the connect-token entry that matches the incoming MAC is never rewritten (element writes use the empty/oldest index only)", floor=0)
    f0 = t.fn("NetcodeServer::find_or_add_connect_token_entry")
    for f in fn_and_closures(t, f0):
        is_mac = lambda a: fmt(strip(a)).rstrip(")").endswith(".mac") or ".mac" in fmt(a)[-12:]
        eqs = [e for e, br in rel_edges(t, f, is_mac, is_mac, "Eq")]
        if not eqs: continue
        def under_match(bb): return any(t.edge_dominates(f, e, bb) for e in eqs)
        def tainted_locals():
            out = set()
            for l, ds in f.defs().items():
                if any(under_match(d[0]) for d in ds) and l != 0: out.add(l)
            return out
        ml = tainted_locals()
        def from_match(o, depth=0):
            if depth > 30 or not isinstance(o, tuple): return False
            if o and o[0] in ("phi", "rec") and o[1] in ml: return True
            return any(from_match(x, depth + 1) for x in o if isinstance(x, tuple))
        def roots(l):
            """locals the value of local l is copied from (through moves, copies, projections, references)"""
            seen, st = set(), [l]
            while st:
                x = st.pop()
                if x in seen: continue
                seen.add(x)
                for d in f.defs().get(x, []):
                    n_ = d[2]
                    if n_["k"] != "assign": continue
                    rv = n_["rv"]
                    if rv["k"] == "use" and rv["op"]["k"] in ("copy", "move"): st.append(rv["op"]["place"]["local"])
                    elif rv["k"] in ("ref", "rawptr", "discr"): st.append(rv["place"]["local"])
                    elif rv["k"] == "cast" and rv["op"]["k"] in ("copy", "move"): st.append(rv["op"]["place"]["local"])
            return seen
        def idx_locals(place):
            return [pr["local"] for pr in place["proj"] if pr["k"] == "index"]
        for s in t.sites(f):
            n = s.node
            ils = []
            if n["k"] == "assign" and n["place"]["proj"] and "connect_token_entries" in fmt(t.place(s)): ils = idx_locals(n["place"])
            elif n["k"] == "call" and n["args"] and method_of(callee_name(n)) in ("replace", "insert", "get_or_insert", "take", "swap", "get_or_insert_with") and "connect_token_entries" in fmt(t.arg(s, 0)) and n["args"][0]["k"] in ("copy", "move"):
                # the receiver is a reference to an element: find the `&mut entries[i]` it was created from
                for x in roots(n["args"][0]["place"]["local"]):
                    for d in f.defs().get(x, []):
                        if d[2]["k"] == "assign" and d[2]["rv"]["k"] in ("ref", "rawptr"): ils += idx_locals(d[2]["rv"]["place"])
            if not ils: continue
            r.site(s, "element write")
            hit = under_match(s.bb)
            for il in ils:
                for x in roots(il):
                    if any(d[2]["k"] == "assign" and under_match(d[0]) for d in f.defs().get(x, [])): hit = True
            if hit:
                r.bad("match-written", s, "the connect-token entry found by MAC equality is written (its stored address/time replaced): after one refused attempt from another address the token is bound to that address and accepted from there")
    return r


def reply_behind_id_match(t, rid):
    """a connection Response whose challenge token was not issued for the pending session of that address gets no answer: every reply
    (PacketToSend) and every ClientConnected built after ChallengeToken::decode lies behind the equality of the challenge's client id with the
    pending session's (the F10 guard)."""
    r = RuleResult(rid, "every reply to a connection Response is behind `challenge.client_id == pending.client_id`", floor=0)
    p = t.fn("NetcodeServer::process_packet_internal")
    decs = list(t.calls(r"ChallengeToken::decode$", p))
    is_chal = lambda a: t.mentions_call(a, r"ChallengeToken::decode$") and fmt(a).rstrip(")").endswith("client_id")
    is_pend = lambda b: t.mentions_field(b, "pending_clients") and fmt(b).rstrip(")").endswith("client_id")
    eqs = [e for e, br in rel_edges(t, p, is_chal, is_pend, "Eq")]
    for variant in ("PacketToSend", "ClientConnected"):
        for s in t.aggrs("server::ServerResult", variant, p):
            if not any(p.dominates(d.bb, s.bb) for d in decs): continue
            r.site(s, variant)
            if not any(t.edge_dominates(p, e, s.bb) for e in eqs):
                r.bad(f"{variant}|no-id-match", s, f"a {variant} is produced for a connection Response on a path that has not established that the challenge was issued for this pending session: a Response carrying another session's challenge is answered")
    return r


def count_not_position(t, rid):
    """the address count written in front of a token's address list counts the occupied slots; it is not a search position (`position(is_none)`
    has no value when every slot is used, and a default of 0 then writes an empty list for a token with the maximum number of addresses)."""
    r = RuleResult(rid, "the address count of write_server_addresses is not derived from a search position", floor=0)
    f = t.fn("token::write_server_addresses")
    first = None
    for c in t.sites(f):
        if c.node["k"] == "call" and re.search(r"write_all$|write_u32|put_u32", callee_name(c.node)):
            first = c; break
    if first is None: return r
    r.site(first, fmt(t.args(first)[-1])[:70])
    v = t.args(first)[-1]
    if contains(v, lambda x: isinstance(x, tuple) and x and x[0] == "call" and method_of(x[1]) in ("position", "rposition", "find", "find_map")):
        r.bad("count-from-position", first, f"the address count is {fmt(v)[:90]}: a search position, undefined when no slot matches (a full list is written as empty)")
    return r


def no_silent_drop(t, rid):
    """NO-SILENT-DROP: a reliable message (or slice) the receive channel is handed is either stored / fed to its reassembly, refused with an error
    (which ends the connection), or recognised as a duplicate (id below the cursor, already buffered, already consumed) - on every path. The
    packet that carried it has already been acknowledged by RenetClient::process_packet, so anything else (`return Ok(())` because a buffer
    count or an id window is exceeded, 'the sender will resend it') loses the message for good: the sender has released it."""
    r = RuleResult(rid, "a reliable message/slice is never discarded without being a duplicate: every Ok path stores it, feeds the reassembly, or passed a duplicate test", floor=0)
    for fname, work_pat in (("ReceiveChannelReliable::process_message", None), ("ReceiveChannelReliable::process_slice", r"SliceConstructor::process_slice$")):
        f = t.fn(fname)
        dup_edges = []
        for fld in ("messages", "received_messages"):
            a, p = map_key_edges(t, f, fld, lambda k: True)
            dup_edges += p
        is_id = lambda a: re.search(r"message_id\)*$", fmt(strip(a))) is not None
        is_cur = lambda b: fmt(strip(b)).endswith("oldest_pending_message_id")
        dup_edges += [e for e, br in rel_edges(t, f, is_id, is_cur, "Lt")]
        if not dup_edges: r.samples.append(f"{fname}: duplicate tests not identified, rule not evaluated"); continue
        # a duplicate test whose outcome is first stored in a flag (`let known = a || b;`, a predicate helper returning bool): the true edge of a
        # branch on the flag is a duplicate edge when every definition that sets the flag to true lies behind a duplicate edge
        for _ in range(4):
            grew = False
            for br in t.branches(f):
                if br["kind"] != "bool" or br["t_edge"] in dup_edges: continue
                raw = br["raw"]
                if not (isinstance(raw, tuple) and raw[0] == "phi"): continue
                good = True
                for d in f.defs().get(raw[1], []):
                    n_ = d[2]
                    if n_["k"] == "assign" and n_["rv"]["k"] == "use" and n_["rv"]["op"]["k"] == "const":
                        if n_["rv"]["op"]["val"] == 1 and not any(t.edge_dominates(f, e, d[0]) for e in dup_edges): good = False
                    elif n_["k"] == "call" and method_of(callee_name(n_)) in ("contains", "contains_key") and re.search(r"\.(messages|received_messages)\b", fmt(f.origin_of_operand(n_["args"][0]))): pass      # the flag IS a duplicate test
                    elif n_["k"] == "assign" and n_["rv"]["k"] == "bin":
                        cnd = t.norm_cond(f._origin_of_def(n_, 0))
                        okc = cnd[0] == "cmp" and ((cnd[1] == "Lt" and is_id(cnd[2]) and is_cur(cnd[3])) or (cnd[1] == "Gt" and is_cur(cnd[2]) and is_id(cnd[3])))
                        if not okc: good = False      # (`id < cursor` stored in the flag is a duplicate test; any other comparison is not)
                    else: good = False
                if good and f.defs().get(raw[1]): dup_edges.append(br["t_edge"]); grew = True
            if not grew: break
        targets = set()
        for c in t.sites(f):
            n = c.node
            if n["k"] == "call" and n["args"]:
                m_ = method_of(callee_name(n))
                a0 = fmt(t.arg(c, 0))
                if m_ in ("insert", "or_insert", "or_insert_with", "push_back", "push") and re.search(r"\.(messages|slices)\b", a0): targets.add(pos(c))
                if re.search(r"VacantEntry.*::insert$", callee_name(n)) and re.search(r"\.(messages|slices)\b", a0): targets.add(pos(c))
                if work_pat and re.search(work_pat, callee_name(n)): targets.add(pos(c))
                if re.search(r"ReceiveChannelReliable::process_message$", callee_name(n)): targets.add(pos(c))
            if n["k"] == "assign" and n["rv"]["k"] == "aggr" and (str(n["rv"].get("path") or "").endswith("ChannelError") or (str(n["rv"].get("path") or "").endswith("result::Result") and n["rv"].get("vname") == "Err")): targets.add(pos(c))
            if n["k"] == "call" and "from_residual" in callee_name(n): targets.add(pos(c))
        r.site(Site(f, 0, 0, f.blocks[0]["term"]), f"{short(fname)}: {len(dup_edges)} duplicate edges, {len(targets)} store/feed/refuse sites")
        ok, w = must_pass(f, (0, -1), targets, avoid_edges=set(dup_edges))
        if not ok:
            r.bad(f"{short(fname)}|silent-drop", _term_site(f, w), f"{short(fname)} can return Ok(()) (through bb{w}) for a message that is neither stored, fed to the reassembly, refused with an error nor recognised as a duplicate: its packet has already been acknowledged, so the sender releases it and it is never delivered")
    return r


def resend_scan_reached(t, rid):
    """MUST-PASS: every call of SendChannelReliable::get_packets_to_send examines the unacknowledged messages: each path from the entry to a
    return passes the iteration over unacked_messages. A shortcut that returns early from a remembered 'next transmission time' (or any other
    stored summary) skips messages whose own resend time has elapsed."""
    r = RuleResult(rid, "every path through SendChannelReliable::get_packets_to_send reaches the scan over unacked_messages (no early return from a cached deadline)", floor=0)
    f = t.fn("SendChannelReliable::get_packets_to_send")
    its = [c for c in t.sites(f) if c.node["k"] == "call" and c.node["args"] and method_of(callee_name(c.node)) in ("iter_mut", "iter", "values_mut", "values", "into_iter", "range_mut", "retain", "for_each") and re.search(r"\.unacked_messages\)*$", fmt(strip(t.arg(c, 0))))]
    if not its: r.samples.append("scan over unacked_messages not identified, rule not evaluated"); return r
    for c in its[:1]: r.site(c, "scan")
    # nothing to scan: the true edge of `unacked_messages.is_empty()` (or `len() == 0`) may leave directly
    empty_edges = set()
    for br in t.branches(f):
        if br["kind"] == "bool" and br["cond"][0] == "call" and method_of(br["cond"][1]) == "is_empty" and br["cond"][2] and re.search(r"\.unacked_messages\)*$", fmt(strip(br["cond"][2][0]))): empty_edges.add(br["t_edge"])
    is_len = lambda a: isinstance(strip(a), tuple) and strip(a)[0] == "call" and method_of(strip(a)[1]) == "len" and "unacked_messages" in fmt(a)
    empty_edges |= {e for e, br in rel_edges(t, f, is_len, lambda b: const_eval(b) == 0, "Eq")}
    ok, w = must_pass(f, (0, -1), {pos(c) for c in its}, avoid_edges=empty_edges)
    if not ok: r.bad("scan-skipped", _term_site(f, w), f"get_packets_to_send can return (through bb{w}) without looking at unacked_messages: a message whose resend_time has elapsed is not retransmitted in that tick")
    return r


def sent_record_removers(t, rid):
    """WHO-MAY-REMOVE: a record leaves sent_packets only when its packet is acknowledged (RenetClient::process_packet) or when it is older than the
    discard horizon (RenetClient::update). The record is the only link from an acknowledged sequence to the messages/slices the packet carried;
    evicting it earlier (a size cap, a clean-up in the send path) makes a later ack a no-op: the data is retransmitted although it was acked."""
    r = RuleResult(rid, "records are removed from sent_packets only by process_packet (ack) and update (horizon)", floor=0)
    for f in t.fns(r"^renet::remote_connection::"):
        for c in t.sites(f):
            n = c.node
            if n["k"] != "call" or not n["args"]: continue
            m_ = method_of(callee_name(n))
            if m_ not in ("remove", "remove_entry", "pop_first", "pop_last", "retain", "clear", "split_off", "drain", "truncate", "first_entry", "last_entry", "extract_if"): continue
            if not re.search(r"\.sent_packets\)*$", fmt(strip(resolved(t, t.arg(c, 0), f)))): continue
            g = owner_fn(t, f)
            r.site(c, f"{m_} in {short(g.path)}")
            if not re.search(r"RenetClient::(process_packet|update)$", g.path):
                r.bad(f"{short(g.path)}|{m_}", c, f"{short(g.path)} removes records from sent_packets ({m_}): an acknowledgement that arrives for an evicted record no longer reaches the ack handlers, the acknowledged data is retransmitted")
    return r


def challenge_sequence_use(t, rid):
    """USE: the sequence a connection Response carries is the nonce its challenge token was sealed with and nothing else: no branch decides on it
    (handshakes overlap, challenge sequences are global, so 'newer than the last redeemed one' is not a freshness test - it locks out an honest
    client that was challenged first and answered last)."""
    r = RuleResult(rid, "Response.token_sequence is only the nonce handed to ChallengeToken::decode: no branch compares it", floor=0)
    f = t.fn("NetcodeServer::process_packet_internal")
    uses = [c for c in t.calls(r"ChallengeToken::decode$", f)]
    for c in uses: r.site(c, "nonce of ChallengeToken::decode")
    for br in t.branches(f):
        if br["kind"] != "bool" or br["cond"][0] != "cmp": continue
        direct = [x for x in (br["cond"][2], br["cond"][3]) if fmt(strip(x)).endswith("as Response.token_sequence")]
        if direct:
            r.bad("branch-on-token-sequence", _term_site(f, br["bb"]), "a branch of process_packet_internal decides on the token_sequence of a connection Response: an honest client whose handshake overlapped with another one can be refused although its challenge is valid")
    return r
