# continuation of rules/wave5.py / wave6.py (same conventions)
import re
from sa.rules import *
from sa.rules import NEGATE, MIRROR
from rules.wave5 import _term_site, find_aggrs, TRUNCATING


def ack_collection_total(t, rid):
    """FULL-VISIT (acks): every sequence an incoming Ack packet covers that is still in sent_packets is collected in that call: the loops over the
    packet's ack ranges and over `sent_packets.range(range)` have no exit but exhaustion, and no truncating adaptor caps them. An ack that is
    processed only in part is lost for the rest: the peer forgets the ranges once its ack packet is confirmed, the sender retransmits what was
    acknowledged."""
    r = RuleResult(rid, "the collection of newly acknowledged sequences (over ack_ranges x sent_packets.range) runs to exhaustion: no break, no cap", floor=0)
    f0 = t.fn("RenetClient::process_packet")
    def is_src(o):
        txt = fmt(o)
        return bool(re.search(r"as Ack\.ack_ranges", txt) or re.search(r"::range\(&\**P1\(self\)\.sent_packets", txt))
    for f in fn_and_closures(t, f0):
        for c in t.sites(f):
            if c.node["k"] != "call" or not c.node["args"]: continue
            m_ = method_of(callee_name(c.node))
            a0 = t.arg(c, 0)
            if not is_src(resolved(t, a0, f)): continue
            if m_ in TRUNCATING and m_ not in ("find", "find_map", "position", "any", "all") and re.search(r"iter::|Iterator|Iter|Range", callee_name(c.node)):
                r.site(c, f"adaptor {m_}"); r.bad(f"truncated|{m_}", c, f"the traversal of the acknowledged sequences is wrapped in `{m_}`: part of an ack packet is ignored, and the peer will not announce those sequences again once its ack packet is confirmed")
            if m_ != "next": continue
            lp = innermost_loop(f, c.bb)
            if lp is None: continue
            head, body = lp
            r.site(c, "loop over acknowledged sequences")
            exits = {(x, s) for x in body for s in f.succ[x] if s not in body}
            legit = set()
            me = norm(f.call_origin(c.node))
            for br in t.branches(f):
                if br["kind"] == "discr" and br["bb"] in body and norm(strip(br["on"])) == me:
                    legit |= {(br["bb"], tgt) for tgt in list(br["targets"].values()) + [br["otherwise"]] if tgt not in body}
            # leaving an inner loop into the enclosing one through the inner iterator's exhaustion is legitimate; any other edge that leaves this loop
            extra = {e_ for e_ in exits - legit if f.reachable_from([e_[1]]) & set(f.returns)}
            # an exit that only reports an error for the whole packet (disconnect) is outside this clause
            extra = {e_ for e_ in extra if not any(re.search(r"disconnect_with_reason$", callee_name(x.node)) for x in t.sites(f) if x.node["k"] == "call" and x.bb in f.reachable_from([e_[1]]) and x.bb not in body and f.dominates(e_[1], x.bb))}
            if extra:
                x = sorted(extra)[0]
                r.bad("early-exit", _term_site(f, x[0]), f"the loop that collects the sequences acknowledged by an Ack packet can be left before its iterator is exhausted (edge bb{x[0]}->bb{x[1]}): the rest of the ack is dropped, and the peer forgets those ranges once its ack packet is confirmed, so acknowledged packets are retransmitted")
    return r


def matched_entry_untouched(t, rid):
    """MATCH => READ-ONLY: in find_or_add_connect_token_entry an entry whose MAC equals the incoming token's is only compared (its address decides),
    never written: the index of every element write comes from the empty/oldest search, not from the position of the match. Rewriting the
    matched entry (refreshing time and address) rebinds the token to whoever sent it last."""
    r = RuleResult(rid, "the connect-token entry that matches the incoming MAC is never rewritten (element writes use the empty/oldest index only)", floor=0)
    f0 = t.fn("NetcodeServer::find_or_add_connect_token_entry")
    for f in fn_and_closures(t, f0):
        is_mac = lambda a: fmt(strip(a)).rstrip(")").endswith(".mac") or ".mac" in fmt(a)[-12:]
        eqs = [e for e, br in rel_edges(t, f, is_mac, is_mac, "Eq")]
        if not eqs: continue
        def under_match(bb): return any(t.edge_dominates(f, e, bb) for e in eqs)
        def tainted_locals():
            out = set()
            for l, ds in f.defs().items():
                if any(under_match(d[0]) for d in ds) and l != 0: out.add(l)
            return out
        ml = tainted_locals()
        def from_match(o, depth=0):
            if depth > 30 or not isinstance(o, tuple): return False
            if o and o[0] in ("phi", "rec") and o[1] in ml: return True
            return any(from_match(x, depth + 1) for x in o if isinstance(x, tuple))
        def roots(l):
            """locals the value of local l is copied from (through moves, copies, projections, references)"""
            seen, st = set(), [l]
            while st:
                x = st.pop()
                if x in seen: continue
                seen.add(x)
                for d in f.defs().get(x, []):
                    n_ = d[2]
                    if n_["k"] != "assign": continue
                    rv = n_["rv"]
                    if rv["k"] == "use" and rv["op"]["k"] in ("copy", "move"): st.append(rv["op"]["place"]["local"])
                    elif rv["k"] in ("ref", "rawptr", "discr"): st.append(rv["place"]["local"])
                    elif rv["k"] == "cast" and rv["op"]["k"] in ("copy", "move"): st.append(rv["op"]["place"]["local"])
            return seen
        def idx_locals(place):
            return [pr["local"] for pr in place["proj"] if pr["k"] == "index"]
        for s in t.sites(f):
            n = s.node
            ils = []
            if n["k"] == "assign" and n["place"]["proj"] and "connect_token_entries" in fmt(t.place(s)): ils = idx_locals(n["place"])
            elif n["k"] == "call" and n["args"] and method_of(callee_name(n)) in ("replace", "insert", "get_or_insert", "take", "swap", "get_or_insert_with") and "connect_token_entries" in fmt(t.arg(s, 0)) and n["args"][0]["k"] in ("copy", "move"):
                # the receiver is a reference to an element: find the `&mut entries[i]` it was created from
                for x in roots(n["args"][0]["place"]["local"]):
                    for d in f.defs().get(x, []):
                        if d[2]["k"] == "assign" and d[2]["rv"]["k"] in ("ref", "rawptr"): ils += idx_locals(d[2]["rv"]["place"])
            if not ils: continue
            r.site(s, "element write")
            hit = under_match(s.bb)
            for il in ils:
                for x in roots(il):
                    if any(d[2]["k"] == "assign" and under_match(d[0]) for d in f.defs().get(x, [])): hit = True
            if hit:
                r.bad("match-written", s, "the connect-token entry found by MAC equality is written (its stored address/time replaced): after one refused attempt from another address the token is bound to that address and accepted from there")
    return r


def reply_behind_id_match(t, rid):
    """a connection Response whose challenge token was not issued for the pending session of that address gets no answer: every reply
    (PacketToSend) and every ClientConnected built after ChallengeToken::decode lies behind the equality of the challenge's client id with the
    pending session's (the F10 guard)."""
    r = RuleResult(rid, "every reply to a connection Response is behind `challenge.client_id == pending.client_id`", floor=0)
    p = t.fn("NetcodeServer::process_packet_internal")
    decs = list(t.calls(r"ChallengeToken::decode$", p))
    is_chal = lambda a: t.mentions_call(a, r"ChallengeToken::decode$") and fmt(a).rstrip(")").endswith("client_id")
    is_pend = lambda b: t.mentions_field(b, "pending_clients") and fmt(b).rstrip(")").endswith("client_id")
    eqs = [e for e, br in rel_edges(t, p, is_chal, is_pend, "Eq")]
    for variant in ("PacketToSend", "ClientConnected"):
        for s in t.aggrs("server::ServerResult", variant, p):
            if not any(p.dominates(d.bb, s.bb) for d in decs): continue
            r.site(s, variant)
            if not any(t.edge_dominates(p, e, s.bb) for e in eqs):
                r.bad(f"{variant}|no-id-match", s, f"a {variant} is produced for a connection Response on a path that has not established that the challenge was issued for this pending session: a Response carrying another session's challenge is answered")
    return r


def count_not_position(t, rid):
    """the address count written in front of a token's address list counts the occupied slots; it is not a search position (`position(is_none)`
    has no value when every slot is used, and a default of 0 then writes an empty list for a token with the maximum number of addresses)."""
    r = RuleResult(rid, "the address count of write_server_addresses is not derived from a search position", floor=0)
    f = t.fn("token::write_server_addresses")
    first = None
    for c in t.sites(f):
        if c.node["k"] == "call" and re.search(r"write_all$|write_u32|put_u32", callee_name(c.node)):
            first = c; break
    if first is None: return r
    r.site(first, fmt(t.args(first)[-1])[:70])
    v = t.args(first)[-1]
    if contains(v, lambda x: isinstance(x, tuple) and x and x[0] == "call" and method_of(x[1]) in ("position", "rposition", "find", "find_map")):
        r.bad("count-from-position", first, f"the address count is {fmt(v)[:90]}: a search position, undefined when no slot matches (a full list is written as empty)")
    return r
