# C05 Only a valid, unexpired, untampered connect token from its own address connects
import re
from sa.rules import *
from sa.rules import MIRROR, NEGATE
import rules.wave3 as W3
import rules.shared as shared
from rules.netcode_common import *

def is_param(o, name_pat):
    o = strip(o)
    return isinstance(o, tuple) and o[0] == "param" and re.search(name_pat, o[2] or "")

def rules(t):
    out = []
    h = t.fn("NetcodeServer::handle_connection_request")
    grow = list(t.effects("pending_clients", {"entry", "insert", "or_insert_with"}, h))
    grow_bbs = [s.bb for s in grow if method_of(callee_name(s.node)) in ("entry", "insert")]
    anchor = grow[0] if grow else None

    def dom_all(edge): return all(t.edge_dominates(h, edge, b) for b in grow_bbs)

    r = RuleResult("C05.a1", "pending insertion dominated by version check -> Err(InvalidVersion)", floor=1)
    for br, op, te, fe in t.find_cmp(h, lambda a: t.mentions_param(a) and "version" in fmt(a), lambda b: "NETCODE_VERSION_INFO" in fmt(b), {"Ne", "Eq"}):
        r.site(Site(h, br["bb"], 0, h.blocks[br["bb"]]["term"]), fmt(br["raw"])[:80])
        bad_edge, good_edge = (te, fe) if op == "Ne" else (fe, te)
        if not t.edge_returns_err(h, bad_edge, "InvalidVersion"): r.bad("err-edge", anchor, "version mismatch edge does not return Err(InvalidVersion)")
        if not dom_all(good_edge): r.bad("dom", anchor, "pending insertion not dominated by the version check")
    out.append(r)

    r = RuleResult("C05.a2", "pending insertion dominated by protocol id check -> Err(InvalidProtocolID)", floor=1)
    for br, op, te, fe in t.find_cmp(h, lambda a: is_param(a, "protocol"), lambda b: t.is_field(b, "protocol_id"), {"Ne", "Eq"}):
        r.site(Site(h, br["bb"], 0, h.blocks[br["bb"]]["term"]), fmt(br["raw"])[:80])
        bad_edge, good_edge = (te, fe) if op == "Ne" else (fe, te)
        if op not in ("Ne", "Eq"): r.bad("op", anchor, f"protocol comparison uses {op}")
        if not t.edge_returns_err(h, bad_edge, "InvalidProtocolID"): r.bad("err-edge", anchor, "protocol mismatch edge does not return Err(InvalidProtocolID)")
        if not dom_all(good_edge): r.bad("dom", anchor, "pending insertion not dominated by the protocol id check")
    out.append(r)

    r = RuleResult("C05.a3", "pending insertion dominated by expiry check now_secs >= expire -> Err(Expired) (operator pinned)", floor=1)
    for br, op, te, fe in t.find_cmp(h, lambda a: t.mentions_field(a, "current_time") and t.mentions_call(a, r"Duration::as_secs$"), lambda b: is_param(b, "expire"), None):
        r.site(Site(h, br["bb"], 0, h.blocks[br["bb"]]["term"]), fmt(br["raw"])[:80])
        if op != "Ge": r.bad("op", anchor, f"expiry test is `now {op} expire`, expected `now >= expire` -> expired")
        if not t.edge_returns_err(h, te, "Expired"): r.bad("err-edge", anchor, "expired edge does not return Err(Expired)")
        if not dom_all(fe): r.bad("dom", anchor, "pending insertion not dominated by the expiry check")
    out.append(r)

    r = RuleResult("C05.a4", "pending insertion dominated by Ok(PrivateConnectToken::decode(data, self.protocol_id, same expire, xnonce, self.connect_key))", floor=1)
    for c in t.calls(r"PrivateConnectToken::decode$", h):
        r.site(c)
        e = t.result_edges(h, c)
        if not e or not dom_all(e[0]): r.bad("dom", c, "pending insertion not dominated by a successful private token decode")
        a = t.args(c)
        if not is_param(a[0], "data"): r.bad("arg0", c, "decoded bytes are not the request's token data")
        if not t.is_field(a[1], "protocol_id"): r.bad("arg1", c, "AAD protocol id is not the server's own")
        if not is_param(a[2], "expire"): r.bad("arg2", c, "AAD expiry is not the request's expiry (the value checked must be the value authenticated)")
        if not is_param(a[3], "xnonce"): r.bad("arg3", c, "xnonce is not the request's")
        if not t.is_field(a[4], "connect_key"): r.bad("arg4", c, "key is not the server's private key")
    out.append(r)

    r = RuleResult("C05.a5", "host list check when secure -> Err(NotInHostList)", floor=1)
    sec = [b for b in t.branches(h) if b["kind"] == "bool" and t.is_field(b["raw"], "secure")]
    cl = [g for g in fn_and_closures(t, h) if g is not h]      # closures created in the function, including those of private helpers inlined into it
    # "hit" edges: the token lists one of this server's public addresses
    hits = []
    for br in t.find_callcond(h, r"Iterator::any$|::any$"):
        o = br["raw"]
        if t.mentions_call(o, r"PrivateConnectToken::decode$") and "server_addresses" in fmt(o): hits.append(br["t_edge"]); r.site(Site(h, br["bb"], 0, h.blocks[br["bb"]]["term"]), "any(..) over token addresses")
    for br in t.find_callcond(h, r"<impl \[T\]>::contains$|slice.*::contains$|Vec.*::contains$"):
        a = br["cond"][2]
        if len(a) == 2 and "public_addresses" in fmt(a[0]) and "server_addresses" in fmt(a[1]) and t.mentions_call(a[1], r"PrivateConnectToken::decode$"):
            hits.append(br["t_edge"]); r.site(Site(h, br["bb"], 0, h.blocks[br["bb"]]["term"]), "public_addresses.contains(token address)")
    # the same membership test written as a search: `addresses.iter().flatten().find(|a| public.contains(a)).ok_or(NotInHostList)?` / `position(..)`
    for c in t.calls(r"(Iterator|iter::\w+|Flatten\S*|Iter\S*)\S*::(find|position|find_map)$|::(find|position|find_map)$", h):
        o = t.arg(c, 0)
        if not (t.mentions_call(o, r"PrivateConnectToken::decode$") and "server_addresses" in fmt(o)): continue
        e = t.result_edges(h, c)
        if e: hits.append(e[0]); r.site(c, "find(..) over token addresses")
    s0 = Site(h, sec[0]["bb"], 0, h.blocks[sec[0]["bb"]]["term"]) if sec else None
    if not sec: r.bad("secure", None, "no branch on self.secure")
    elif not hits: r.bad("src", s0, "no test of the token's server addresses against self.public_addresses")
    else:
        avoid = set(hits) | {sec[0]["f_edge"]}
        reach = reachable_avoiding(h, 0, avoid)
        if any(b in reach for b in grow_bbs): r.bad("dom", s0, "pending insertion reachable on the secure path without a host-list hit")
        miss = reachable_avoiding(h, sec[0]["t_edge"][1], set(hits))
        errs = [a_ for a_ in t.aggrs("renetcode::error::NetcodeError", "NotInHostList", h) if a_.bb in miss] or [a_ for a_ in t.sites(h) if a_.node["k"] == "assign" and "NotInHostList" in fmt(t.stored(a_)) and a_.bb in miss]
        if not errs: r.bad("err-edge", s0, "host-list miss does not return Err(NotInHostList)")
        # membership is decided by equality of whole socket addresses (ip AND port)
        cmp_sock = cmp_other = 0
        for g in [h] + cl:
            for c in t.sites(g):
                n = c.node
                if n["k"] != "call": continue
                nm, sub = callee_name(n), n.get("substs") or ""
                if method_of(nm) in ("contains", "eq", "ne") and ("PartialEq" in nm or "contains" in nm):
                    involved = "public_addresses" in fmt(t.arg(c, 0)) or g is not h
                    if not involved: continue
                    whole = re.search(r"SocketAddr(?![A-Za-z0-9])", sub + " " + nm) is not None
                    if whole: cmp_sock += 1
                    else: cmp_other += 1        # any equality on a part of an address (IpAddr, Ipv4Addr, Ipv6Addr, SocketAddrV6 fields, port) decides membership on less than ip AND port
        if cmp_sock == 0 or cmp_other > 0: r.bad("host-list-eq", s0, "host-list membership is not decided by equality of whole SocketAddr values (ip and port): a token issued for another port / instance on the same IP is accepted")
    out.append(r)

    r = RuleResult("C05.a6", "token-to-address binding: find_or_add_connect_token_entry(addr, mac of data) true-edge dominates insertion", floor=1)
    for br in t.find_callcond(h, r"find_or_add_connect_token_entry$"):
        s = Site(h, br["bb"], 0, h.blocks[br["bb"]]["term"]); r.site(s)
        if not dom_all(br["t_edge"]): r.bad("dom", s, "pending insertion not dominated by the token-entry test")
        entry = br["cond"][2][1]
        txt = fmt(entry)
        if "P2(addr)" not in txt and "addr" not in txt: r.bad("addr", s, "token entry not bound to the source address")
    out.append(r)

    r = RuleResult("C05.b", "pending record built from the decoded token, keyed by the source address", floor=1)
    for s in t.aggrs(CONN, None, None):
        if "<impl" in s.fn.path and "clone" in s.fn.path: continue
        if is_log_or_derive(s.node["span"]): continue
        r.site(s)
        for fld in ("client_id", "send_key", "receive_key", "timeout_seconds", "user_data"):
            o = t.resolve_closure(t.field_of_aggr(s, fld), s.fn)
            if not (t.mentions_call(o, r"PrivateConnectToken::decode$") or "connect_token" in fmt(o)): r.bad(f"field|{fld}", s, f"pending.{fld} does not come from the decoded token: {fmt(o)[:60]}")
        if "addr" not in fmt(t.resolve_closure(t.field_of_aggr(s, "addr"), s.fn)): r.bad("field|addr", s, "pending.addr is not the source address")
    out.append(r)

    p = t.fn("NetcodeServer::process_packet_internal")
    fills = [s for s in t.sites(p) if s.node["k"] == "assign" and s.node["place"]["proj"] and s.node["place"]["proj"][-1]["k"] == "index" and t.mentions_field(t.place(s), "clients") and isinstance(t.stored(s), tuple) and t.stored(s)[0] == "aggr" and t.stored(s)[2] == "Some"]
    conn_aggr = list(t.aggrs("server::ServerResult", "ClientConnected", p))
    r = RuleResult("C05.c1", "slot fill / ClientConnected dominated by Ok(ChallengeToken::decode(.., &self.challenge_key)) and by a keyed decode of kind Response", floor=2)
    oks = ok_edges_of(t, p, r"ChallengeToken::decode$")
    for s in fills + conn_aggr:
        r.site(s)
        if not any(t.edge_dominates(p, e, s.bb) for e in oks): r.bad(f"dom|{s.node['k']}", s, "connection established without a successfully decoded challenge token")
    for c in t.calls(r"ChallengeToken::decode$", p):
        if not t.is_field(t.arg(c, 2), "challenge_key"): r.bad("key", c, "challenge token not opened with the server's challenge key")
    out.append(r)

    r = RuleResult("C05.c2", "connected session = the pending session removed for the packet's source address", floor=1)
    for s in fills:
        r.site(s)
        conn = t.stored(s)[3][0]
        if not (t.mentions_call(conn, r"::remove$") and t.mentions_field(conn, "pending_clients") and "addr" in fmt(conn)): r.bad("prov", s, f"inserted connection is not pending_clients.remove(&addr): {fmt(conn)[:80]}")
    out.append(r)

    r = RuleResult("C05.c3", "KEY-AGREE: id (and user data) checked against the challenge = id (and user data) of the connection inserted", floor=1)
    for s in fills:
        r.site(s)
        # equality guards between challenge token fields and pending fields dominating the fill
        def guard(field):
            is_chal = lambda a: t.mentions_call(a, r"ChallengeToken::decode$") and fmt(a).rstrip(")").endswith(field)
            is_pend = lambda b: t.mentions_field(b, "pending_clients") and fmt(b).rstrip(")").endswith(field)
            return any(t.edge_dominates(p, e, s.bb) for e, br in rel_edges(t, p, is_chal, is_pend, "Eq"))
        # the "id already connected" test: one of the id lookup helpers, or an inline scan comparing client_id, dominating the fill
        id_tests = [c for c in t.calls(r"find_client(_mut|_slot)?_by_id$|NetcodeServer::is_client_connected$", p) if p.dominates(c.bb, s.bb)]
        if not id_tests:
            for c in t.calls(r"Iterator::(any|position|find)$|::any$|::position$", p):
                mine = [g for g in fn_and_closures(t, p) if g is not p]      # closures created in p, including those of helpers inlined into p
                tagged = [g for g in mine if re.search(r"\{closure#\d+\}$", g.path) and re.search(r"\{closure#\d+\}$", g.path).group(0) in fmt(t.arg(c, 1))] or mine
                if p.dominates(c.bb, s.bb) and any("client_id" in fmt(g.origin_of_local(0)) or any("client_id" in fmt(br2["raw"]) for br2 in t.branches(g) if br2["kind"] == "bool") for g in tagged): id_tests.append(c)
        if not id_tests: r.bad("no-id-test", s, "slot fill not dominated by an already-connected test"); continue
        if method_of(callee_name(id_tests[0].node)) not in ("any", "position", "find"):
            # the fill must lie on an edge on which the lookup is KNOWN to have found nothing: `.is_some()` false / `.is_none()` true / matched on None /
            # `is_client_connected` false. A weakened test (`is_some_and(|c| ..)`, `map_or`, `filter`) lets a second session for a present id through.
            absent_e = []
            is_lookup = lambda o_: isinstance(strip(o_), tuple) and strip(o_)[0] == "call" and re.search(r"find_client(_mut|_slot)?_by_id$|NetcodeServer::is_client_connected$", strip(o_)[1])
            for br in t.branches(p):
                if br["kind"] == "bool" and br["cond"][0] == "call":
                    m_ = method_of(br["cond"][1]); a_ = br["cond"][2]
                    if m_ == "is_some" and a_ and is_lookup(a_[0]): absent_e.append(br["f_edge"])
                    elif m_ == "is_none" and a_ and is_lookup(a_[0]): absent_e.append(br["t_edge"])
                    elif m_ == "is_client_connected": absent_e.append(br["f_edge"])
                elif br["kind"] == "discr" and is_lookup(br["on"]):
                    absent_e += [(br["bb"], tgt) for v_, tgt in br["targets"].items() if v_ == 0]
                    if 0 not in br["targets"]: absent_e.append((br["bb"], br["otherwise"]))
            if not any(t.edge_dominates(p, e_, s.bb) for e_ in absent_e):
                r.bad("id-test-weakened", s, "the slot is filled on a path on which the id lookup is not known to have failed (the already-connected test is combined with another condition): a second session can be admitted for an id that is still in the table")
        tested = t.arg(id_tests[0], 1) if len(id_tests[0].node["args"]) > 1 else ("unknown",)
        if method_of(callee_name(id_tests[0].node)) in ("any", "position", "find"):
            cs = [t.closure_creator(g) for g in fn_and_closures(t, p) if g is not p and t.closure_creator(g) is not None]
            tested = ("closure-upvars", tuple(t.stored(c_) for c_ in cs if c_.fn is p))
        inserted_from_pending = True
        if t.mentions_call(tested, r"ChallengeToken::decode$") and not guard("client_id"):
            r.bad("id", s, "id tested for 'already connected' comes from the challenge token but the inserted connection's id comes from the pending session, and no equality guard relates them")
        if not guard("user_data"):
            ud = [x for x in t.stores(CONN, "user_data", p)]
            if ud: r.bad("user_data", s, "user data of the connected session is overwritten from the challenge token without an equality guard against the pending session")
    out.append(r)

    r = RuleResult("C05.d", "server keys and protocol id written only by the constructor; challenge sequence incremented before each challenge", floor=4)
    for fld in ("challenge_key", "connect_key", "protocol_id", "secure"):
        for s in t.stores(NS, fld): r.site(s); r.bad(f"write|{fld}", s, f"{fld} written outside the constructor")
        r.sites += 1
    for c in t.calls(r"Packet.*::generate_challenge$", h):
        st = [s for s in t.stores(NS, "challenge_sequence", h) if h.dominates(s.bb, c.bb)]
        if not st: r.bad("challenge_sequence", c, "challenge generated without a fresh challenge sequence")
    out.append(r)

    r = RuleResult("C05.e", "pending sessions are dropped once now_secs > expire", floor=1)
    u = t.fn("NetcodeServer::update")
    found = False
    for g in fn_and_closures(t, u):
        is_now = lambda a, g=g: t.mentions_field(resolved(t, a, g), "current_time") and "as_secs" in fmt(resolved(t, a, g))
        is_exp = lambda b: fmt(b).rstrip(")").endswith("expire_timestamp")
        for e, br in rel_edges(t, g, is_now, is_exp, "Gt"):
            found = True; r.site(Site(g, br["bb"], 0, g.blocks[br["bb"]]["term"]), fmt(br["raw"])[:80])
            st = [s for s in t.stores(CONN, "state", g) if s.bb in t.region_from(g, e) and "Disconnected" in fmt(t.stored(s))]
            if not st: r.bad("state", None, "expired pending session is not marked Disconnected")
        # the boundary is pinned: a test with another boundary (>=) on the same operands is a violation
        for rel in ("Ge",):
            for e, br in rel_edges(t, g, is_now, is_exp, rel):
                if not any(b2 is br for _, b2 in rel_edges(t, g, is_now, is_exp, "Gt")) and not any(b2 is br for _, b2 in rel_edges(t, g, is_now, is_exp, "Le")): r.bad("op", Site(g, br["bb"], 0, g.blocks[br["bb"]]["term"]), "pending expiry boundary changed (expected now_secs > expire_timestamp)")
    # the same test as the predicate of an adaptor over the pending sessions: `.values_mut().filter(|p| now_secs > p.expire_timestamp).for_each(|p| p.state = Disconnected)`
    for g in fn_and_closures(t, u):
        if g is u: continue
        o0 = strip(resolved(t, g.origin_of_local(0), g)); neg_ = False
        while isinstance(o0, tuple) and o0[0] == "un" and o0[1] == "Not": neg_ = not neg_; o0 = strip(o0[2])
        c0 = t.norm_cond(o0)
        if c0[0] != "cmp": continue
        is_now_g = lambda a: "as_secs" in fmt(resolved(t, a, g)) and "current_time" in fmt(resolved(t, a, g))
        is_exp_g = lambda b: fmt(b).rstrip(")").endswith("expire_timestamp")
        op_ = c0[1] if (is_now_g(c0[2]) and is_exp_g(c0[3])) else (MIRROR[c0[1]] if (is_now_g(c0[3]) and is_exp_g(c0[2])) else None)
        if op_ is None: continue
        if neg_: op_ = NEGATE[op_]
        found = True; r.site(Site(g, 0, 0, g.blocks[0]["term"]), "expiry predicate closure")
        if op_ != "Gt": r.bad("op", Site(g, 0, 0, g.blocks[0]["term"]), "pending expiry boundary changed (expected now_secs > expire_timestamp)")
        st = [s_ for g2 in fn_and_closures(t, u) for s_ in t.stores(CONN, "state", g2) if "Disconnected" in fmt(t.stored(s_))]
        if not st: r.bad("state", None, "expired pending session is not marked Disconnected")
    if not found: r.bad("missing", None, "no `now_secs > expire_timestamp` test on pending sessions in update()")
    if not list(t.effects("pending_clients", {"retain"}, u)): r.bad("retain", None, "no retain() dropping disconnected pending sessions")
    out.append(r)
    out.append(shared.aad_rule(t, "C05.f", "token"))
    # g: token reuse table: every stored entry is compared with the presented token's MAC
    r = RuleResult("C05.g", "token-reuse table: every occupied entry is compared with the presented token's MAC (no entry is skipped depending on other per-entry state); a match decides by address equality", floor=2)
    fa = t.fn("NetcodeServer::find_or_add_connect_token_entry")
    scope = [fa] + [g for g in t.fns(r"^renetcode::server::") if g.path.startswith(fa.path + "::{closure") or (t.closure_creator(g) is not None and t.closure_creator(g).fn is fa)]
    helpers = [c for c in t.sites(fa) if c.node["k"] == "call" and (c.node.get("resolved") or "").startswith("renetcode::server::") and "connect_token" in (c.node.get("resolved") or "")]
    for h in helpers:
        try: scope.append(t.fn(h.node["resolved"].split("::<")[0]))
        except Exception: pass
    found = False
    for g in scope:
        for c in t.sites(g):
            n = c.node
            if n["k"] != "call" or method_of(callee_name(n)) not in ("eq", "ne") or len(n["args"]) != 2: continue
            a0, a1 = fmt(resolved(t, t.arg(c, 0), g)), fmt(resolved(t, t.arg(c, 1), g))
            if not (a0.endswith(".mac") or ".mac" in a0[-12:]) or not (a1.endswith(".mac") or ".mac" in a1[-12:]): continue
            found = True; r.site(c, "mac comparison")
            lp = innermost_loop(g, c.bb)
            if lp is None:
                if g is fa: r.bad("mac-not-in-scan", c, "MAC comparison is not inside the scan over the entry table")
                else:
                    ok, w = must_pass(g, (0, -1), {pos(c)})
                    if not ok: r.bad("mac-conditional", c, "inside the per-entry closure the MAC comparison is skipped on some path")
                continue
            # the arm of the iteration that holds an occupied entry: switch on the element's discriminant inside the loop
            arms = [br for br in t.branches(g) if br["kind"] == "discr" and br["bb"] in lp[1] and re.search(r"as Some\.0(\.1)?$", fmt(br["on"])) and 1 in br["targets"] and g.dominates(br["bb"], c.bb)]
            start = (arms[-1]["bb"], len(g.blocks[arms[-1]["bb"]]["stmts"])) if arms else (lp[0], len(g.blocks[lp[0]]["stmts"]))
            avoid = {(arms[-1]["bb"], x) for v, x in arms[-1]["targets"].items() if v != 1} | ({(arms[-1]["bb"], arms[-1]["otherwise"])} if arms else set()) if arms else set()
            ok, w = must_pass(g, start, {pos(c)}, stops={(lp[0], 0)}, avoid_edges=avoid)
            if not ok: r.bad("mac-skipped", c, "an occupied entry can pass through the scan without being compared with the presented MAC: a token already used from another address is not recognised for that entry")
    if not found: r.bad("mac-missing", None, "no comparison of stored MAC and presented MAC found")
    adr = [c for g in scope for c in t.sites(g) if c.node["k"] == "call" and method_of(callee_name(c.node)) in ("eq", "ne") and len(c.node["args"]) == 2 and "address" in fmt(resolved(t, t.arg(c, 0), g))[-10:] and "address" in fmt(resolved(t, t.arg(c, 1), g))[-10:]]
    for c in adr: r.site(c, "address decision")
    if not adr: r.bad("addr-missing", None, "a MAC match is not decided by comparing the stored and the presenting address")
    out.append(r)
    out.append(W3.session_immutable(t, "C05.h"))
    return out

_rules_c05_w5 = rules
def rules(t):
    import rules.shared as shared
    out = _rules_c05_w5(t)
    shared.share(t, out, "C05.i", "a connect token is bound to the first address it is seen from on every path that answers it (also when the answer is ConnectionDenied): no reply leaves handle_connection_request before the token-reuse test", "C19", ("C19.h",))
    return out

_rules_C05_w5d = rules
def rules(t, *a, **kw):
    import rules.wave5 as W5
    out = _rules_C05_w5d(t, *a, **kw)
    out.append(W5.request_fields_prov(t, "C05.j"))
    out.append(W5.token_history_writers(t, "C05.k"))
    return out

_rules_C05_w7 = rules
def rules(t, *a, **kw):
    import rules.wave7 as W7
    out = _rules_C05_w7(t, *a, **kw)
    out.append(W7.matched_entry_untouched(t, "C05.l"))
    return out
