# C16 Wire formats: writer/reader table agreement (structure of the codecs), prefix/sequence coding
import re
from sa.rules import *
from sa import codec

def strip_src(L): return L

def rules(t):
    out = []
    F = t.F
    r = RuleResult("C16.a1", "renet Packet: tag table and field sequence of to_bytes agree with from_bytes for every variant", floor=5)
    W, R = codec.renet_packet_tables(F)
    for vname, (tag, we) in W.items():
        r.sites += 1
        if tag is None: r.bad(f"tag|{vname}", None, f"{vname}: writer does not start with a constant tag byte"); continue
        if tag not in R: r.bad(f"tag-unknown|{vname}", None, f"{vname}: tag {tag} is not decoded"); continue
        built, re_ = R[tag]
        if built != [vname]: r.bad(f"tag-variant|{vname}", None, f"tag {tag} written for {vname} but decoded as {built}")
        lw, lr = codec.language(we), codec.language(re_)
        r.samples.append(f"{vname} tag {tag}: W {codec.show_lang(lw)} | R {codec.show_lang(lr)}"[:240])
        if not codec.lang_included(lw, lr): r.bad(f"seq|{vname}", None, f"{vname}: written {codec.show_lang(lw)} but read {codec.show_lang(lr)}")
    for tag, (built, _) in R.items():
        if not any(tg == tag for tg, _ in W.values()): r.bad(f"reader-only|{tag}", None, f"tag {tag} is decoded as {built} but never written")
    out.append(r)
    r = RuleResult("C16.a2", "renetcode Packet: write and read agree for every packet kind; id() and from_u8 are inverse tables", floor=7)
    W, R = codec.netcode_packet_tables(F)
    for vname in W:
        r.sites += 1
        if vname == "Payload": continue  # remaining bytes, by construction
        lw, lr = codec.language(W[vname]), codec.language(R.get(vname, []))
        r.samples.append(f"{vname}: W {codec.show_lang(lw)} | R {codec.show_lang(lr)}"[:200])
        if lw != lr: r.bad(f"seq|{vname}", None, f"{vname}: written {codec.show_lang(lw)} but read {codec.show_lang(lr)}")
    # tag tables
    fu = t.fn("PacketType::from_u8"); names = t.variants_of("renetcode::packet::PacketType")
    for br in t.branches(fu):
        if br["kind"] == "int":
            for v, tgt in br["targets"].items():
                built = [s.node["rv"]["vname"] for s in t.aggrs("renetcode::packet::PacketType", None, fu) if s.bb == tgt]
                if built and built != [names.get(v)]: r.bad(f"from_u8|{v}", None, f"from_u8({v}) yields {built}, but {names.get(v)} has discriminant {v}")
            if sorted(br["targets"]) != sorted(names): r.bad("from_u8|coverage", None, f"from_u8 decodes {sorted(br['targets'])}, kinds are {sorted(names)}")
    pt = t.fn("packet::Packet::<'a>::packet_type"); pn = t.variants_of("renetcode::packet::Packet")
    for br in t.branches(pt):
        if br["kind"] == "discr":
            for v, tgt in br["targets"].items():
                built = [s.node["rv"]["vname"] for s in t.aggrs("renetcode::packet::PacketType", None, pt) if s.bb == tgt]
                if built and built != [pn.get(v)]: r.bad(f"packet_type|{pn.get(v)}", None, f"packet_type() maps {pn.get(v)} to {built}")
    out.append(r)
    r = RuleResult("C16.a3", "tokens: write/read agree (ConnectToken, PrivateConnectToken, ChallengeToken, address list)", floor=3)
    for wn, rn in (("token::ConnectToken::write", "token::ConnectToken::read"), ("token::PrivateConnectToken::write", "token::PrivateConnectToken::read"), ("packet::ChallengeToken::write", "packet::ChallengeToken::read")):
        we, re_ = codec.pair_exprs(F, wn, rn)
        lw, lr = codec.language(we), codec.language(re_)
        r.sites += 1; r.samples.append(f"{wn.split('::')[1]}: W {codec.show_lang(lw)}"[:240])
        if not codec.lang_included(lw, lr): r.bad(f"seq|{wn.split('::')[1]}", None, f"{wn}: written {codec.show_lang(lw)} but read {codec.show_lang(lr)}")
    out.append(r)
    r = RuleResult("C16.b", "prefix byte and sequence bytes: encode/decode are inverse; one sequence feeds prefix and body", floor=4)
    ep, dp = t.fn("packet::encode_prefix"), t.fn("packet::decode_prefix")
    eo, do = fmt(ep.origin_of_local(0)), fmt(dp.origin_of_local(0))
    r.sites += 2; r.samples.append(f"encode_prefix = {eo[:90]} ; decode_prefix = {do[:90]}")
    if not ("BitOr" in eo and "Shl" in eo and "sequence_bytes_required" in eo and re.search(r"Shl\w* 4", eo)): r.bad("encode_prefix", None, f"encode_prefix is {eo[:80]}, expected kind | (sequence_bytes_required(seq) << 4)")
    if not (re.search(r"BitAnd 15", do) and re.search(r"Shr\w* 4", do)): r.bad("decode_prefix", None, f"decode_prefix is {do[:80]}, expected (v & 0xF, v >> 4)")
    ws, rs = t.fn("packet::write_sequence"), t.fn("packet::read_sequence")
    for c in t.calls(r"Write.*::write$|write_all$", ws):
        r.sites += 1
        a = fmt(t.arg(c, 1))
        if not ("to_le_bytes" in a and "sequence_bytes_required" in a): r.bad("write_sequence", c, f"write_sequence writes {a[:80]}, expected to_le_bytes(seq)[..sequence_bytes_required(seq)]")
    for c in t.calls(r"from_le_bytes$", rs): r.sites += 1
    if not list(t.calls(r"from_le_bytes$", rs)): r.bad("read_sequence", None, "read_sequence does not decode little-endian")
    enc = t.fn("packet::Packet::<'a>::encode")
    pre = [fmt(t.arg(c, 1)) for c in t.calls(r"packet::encode_prefix$", enc)]; wsq = [fmt(t.arg(c, 1)) for c in t.calls(r"packet::write_sequence", enc)]
    if wsq and not any(w in pre for w in wsq): r.bad("encode-seq", None, f"prefix computed from {pre} but sequence bytes written from {wsq}")
    dec = t.fn("packet::Packet::<'a>::decode")
    for c in t.calls(r"packet::read_sequence", dec):
        if "decode_prefix" not in fmt(t.arg(c, 1)): r.bad("decode-len", c, "read_sequence length is not the prefix nibble")
    out.append(r)
    return out
