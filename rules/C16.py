# C16 Wire formats: writer/reader table agreement (structure of the codecs), prefix/sequence coding
import re
from sa.rules import *
import rules.wave3 as W3
import rules.shared as shared
from sa import codec

def strip_src(L): return L

def rules(t):
    out = []
    F = t.F
    r = RuleResult("C16.a1", "renet Packet: tag table and field sequence of to_bytes agree with from_bytes for every variant", floor=5)
    W, R = codec.renet_packet_tables(F)
    for vname, (tag, we) in W.items():
        r.sites += 1
        if tag is None: r.bad(f"tag|{vname}", None, f"{vname}: writer does not start with a constant tag byte"); continue
        if tag not in R: r.bad(f"tag-unknown|{vname}", None, f"{vname}: tag {tag} is not decoded"); continue
        built, re_ = R[tag]
        if built != [vname]: r.bad(f"tag-variant|{vname}", None, f"tag {tag} written for {vname} but decoded as {built}")
        lw, lr = codec.language(we), codec.language(re_)
        r.samples.append(f"{vname} tag {tag}: W {codec.show_lang(lw)} | R {codec.show_lang(lr)}"[:240])
        if not codec.lang_included(lw, lr): r.bad(f"seq|{vname}", None, f"{vname}: written {codec.show_lang(lw)} but read {codec.show_lang(lr)}")
    for tag, (built, _) in R.items():
        if not any(tg == tag for tg, _ in W.values()): r.bad(f"reader-only|{tag}", None, f"tag {tag} is decoded as {built} but never written")
    out.append(r)
    r = RuleResult("C16.a2", "renetcode Packet: write and read agree for every packet kind; id() and from_u8 are inverse tables", floor=7)
    W, R = codec.netcode_packet_tables(F)
    for vname in W:
        r.sites += 1
        if vname == "Payload": continue  # remaining bytes, by construction
        lw, lr = codec.language(W[vname]), codec.language(R.get(vname, []))
        r.samples.append(f"{vname}: W {codec.show_lang(lw)} | R {codec.show_lang(lr)}"[:200])
        if lw != lr: r.bad(f"seq|{vname}", None, f"{vname}: written {codec.show_lang(lw)} but read {codec.show_lang(lr)}")
    # tag tables
    fu = t.fn("PacketType::from_u8"); names = t.variants_of("renetcode::packet::PacketType")
    for br in t.branches(fu):
        if br["kind"] == "int":
            for v, tgt in br["targets"].items():
                built = [s.node["rv"]["vname"] for s in t.aggrs("renetcode::packet::PacketType", None, fu) if s.bb == tgt]
                if built and built != [names.get(v)]: r.bad(f"from_u8|{v}", None, f"from_u8({v}) yields {built}, but {names.get(v)} has discriminant {v}")
            if sorted(br["targets"]) != sorted(names): r.bad("from_u8|coverage", None, f"from_u8 decodes {sorted(br['targets'])}, kinds are {sorted(names)}")
    pt = t.fn("packet::Packet::<'a>::packet_type"); pn = t.variants_of("renetcode::packet::Packet")
    for br in t.branches(pt):
        if br["kind"] == "discr":
            for v, tgt in br["targets"].items():
                built = [s.node["rv"]["vname"] for s in t.aggrs("renetcode::packet::PacketType", None, pt) if s.bb == tgt]
                if built and built != [pn.get(v)]: r.bad(f"packet_type|{pn.get(v)}", None, f"packet_type() maps {pn.get(v)} to {built}")
    out.append(r)
    r = RuleResult("C16.a3", "tokens: write/read agree (ConnectToken, PrivateConnectToken, ChallengeToken, address list)", floor=3)
    for wn, rn in (("token::ConnectToken::write", "token::ConnectToken::read"), ("token::PrivateConnectToken::write", "token::PrivateConnectToken::read"), ("packet::ChallengeToken::write", "packet::ChallengeToken::read")):
        we, re_ = codec.pair_exprs(F, wn, rn)
        lw, lr = codec.language(we), codec.language(re_)
        r.sites += 1; r.samples.append(f"{wn.split('::')[1]}: W {codec.show_lang(lw)}"[:240])
        if not codec.lang_included(lw, lr): r.bad(f"seq|{wn.split('::')[1]}", None, f"{wn}: written {codec.show_lang(lw)} but read {codec.show_lang(lr)}")
    out.append(r)
    r = RuleResult("C16.b", "prefix byte and sequence bytes: encode/decode are inverse; one sequence feeds prefix and body", floor=4)
    ep, dp = t.fn("packet::encode_prefix"), t.fn("packet::decode_prefix")
    eo, do = fmt(ep.origin_of_local(0)), fmt(dp.origin_of_local(0))
    r.sites += 2; r.samples.append(f"encode_prefix = {eo[:90]} ; decode_prefix = {do[:90]}")
    if not ("BitOr" in eo and "Shl" in eo and "sequence_bytes_required" in eo and re.search(r"Shl\w* 4", eo)): r.bad("encode_prefix", None, f"encode_prefix is {eo[:80]}, expected kind | (sequence_bytes_required(seq) << 4)")
    if not (re.search(r"BitAnd 15", do) and re.search(r"Shr\w* 4", do)): r.bad("decode_prefix", None, f"decode_prefix is {do[:80]}, expected (v & 0xF, v >> 4)")
    ws, rs = t.fn("packet::write_sequence"), t.fn("packet::read_sequence")
    for c in t.calls(r"Write.*::write$|write_all$", ws):
        r.sites += 1
        a = fmt(t.arg(c, 1))
        if not ("to_le_bytes" in a and "sequence_bytes_required" in a): r.bad("write_sequence", c, f"write_sequence writes {a[:80]}, expected to_le_bytes(seq)[..sequence_bytes_required(seq)]")
    for c in t.calls(r"from_le_bytes$", rs): r.sites += 1
    if not list(t.calls(r"from_le_bytes$", rs)): r.bad("read_sequence", None, "read_sequence does not decode little-endian")
    enc = t.fn("packet::Packet::<'a>::encode")
    pre = [fmt(t.arg(c, 1)) for c in t.calls(r"packet::encode_prefix$", enc)]; wsq = [fmt(t.arg(c, 1)) for c in t.calls(r"packet::write_sequence", enc)]
    if wsq and not any(w in pre for w in wsq): r.bad("encode-seq", None, f"prefix computed from {pre} but sequence bytes written from {wsq}")
    dec = t.fn("packet::Packet::<'a>::decode")
    for c in t.calls(r"packet::read_sequence", dec):
        if "decode_prefix" not in fmt(t.arg(c, 1)): r.bad("decode-len", c, "read_sequence length is not the prefix nibble")
    out.append(r)
    return out


# explicit refusals of the renet packet reader (beyond running out of bytes), each with the reason why the writer never emits such a value.
# key = (tag arm, Err variant, operator with the decoded value on the left, constant | "var" | "-")
READER_REFUSALS = {
    (2, "InvalidNumSlices", "Eq", 0): "writer: num_slices = div_ceil(len, SLICE_SIZE) of a message longer than SLICE_SIZE (C03.b)",
    (2, "InvalidNumSlices", "Gt", 1000000): "accepted reader limit: messages above 1.2 GB are not transportable (documented limit, not a regression)",
    (2, "EmptySlice", "is_empty", "-"): "writer: every slice is message[start..end] with start < end (C03.b)",
    (2, "EmptySlice", "Eq", 0): "same test spelled `payload.len() == 0` / `match payload.len() { 0 => .. }`",
    (2, "SliceSizeAboveLimit", "Gt", "SLICE_SIZE"): "writer: end - start <= SLICE_SIZE (C03.b)",
    (3, "InvalidNumSlices", "Eq", 0): "as for tag 2",
    (3, "InvalidNumSlices", "Gt", 1000000): "as for tag 2",
    (4, "InvalidAckRange", "Lt", "var"): "writer: ranges are non-empty, sorted and disjoint (size = end-1-start >= 0, gap >= 0); three structural tests",
    ("other", "InvalidPacketType", "-", "-"): "unknown tag",
}


def reader_refusals(t):
    f = t.fn("renet::packet::Packet::from_bytes")
    S = t.F.consts["renet::packet::SLICE_SIZE"]["val"]
    r = RuleResult("C16.e", "the packet reader refuses nothing the writer can emit: every explicit refusal in from_bytes is a vetted one (or a count bound not below the sender's cap)", floor=5)
    # tag arms
    arms = {}
    for br in t.branches(f):
        if br["kind"] == "int" and "get_u8" in fmt(br["on"]):
            for v, tgt in br["targets"].items(): arms[v] = (br["bb"], tgt)
            arms["other"] = (br["bb"], br["otherwise"])
    def arm_of(bb):
        for v, e in arms.items():
            if t.edge_dominates(f, e, bb): return v
        return None
    # the sender-side cap on ack ranges (read from add_pending_ack)
    ap = t.fn("RenetClient::add_pending_ack")
    caps = [const_eval(br["cond"][3]) for br, op, te, fe in t.find_cmp(ap, lambda a: "::len(" in fmt(a) and t.mentions_field(a, "pending_acks"), lambda b: const_eval(b) is not None, None) if op == "Gt"]
    cap = max([c for c in caps if c is not None], default=None)
    # loop counts of the Ack arm (`for _ in 0..n`)
    seen = {}
    for b in f.blocks:
        if b["i"] not in f.reach: continue
        for k, s in enumerate(b["stmts"]):
            if s["k"] == "assign" and s["place"]["local"] == 0 and not s["place"]["proj"] and s["rv"]["k"] == "aggr" and s["rv"].get("vname") == "Err":
                o = f._origin_of_def(s, 0)
                m = re.search(r"SerializationError::(\w+)", fmt(o))
                errv = m.group(1) if m else "?"
                arm = arm_of(b["i"])
                # the branch edges that lead here (an `a || b` refusal has one Err block entered from two tests): walk back through
                # blocks that only jump, up to the conditional branches
                conds = []
                bmap = {br["bb"]: br for br in t.branches(f) if br["kind"] == "bool"}
                dmap = {br["bb"]: br for br in t.branches(f) if br["kind"] == "discr" and "checked_sub" in fmt(br["on"])}
                imap = {br["bb"]: br for br in t.branches(f) if br["kind"] == "int" and "::len(" in fmt(br["on"])}
                csub = False; ivals = []
                work, seenb = [b["i"]], set()
                while work:
                    x = work.pop()
                    if x in seenb: continue
                    seenb.add(x)
                    for p_ in f.pred[x]:
                        if p_ in bmap:
                            br = bmap[p_]
                            if br["t_edge"][1] == x: conds.append((br, True))
                            elif br["f_edge"][1] == x: conds.append((br, False))
                        elif p_ in imap:
                            ivals += [v_ for v_, tgt_ in imap[p_]["targets"].items() if tgt_ == x]
                        elif p_ in dmap:
                            # `a.checked_sub(b)` matched on None: the refusal means a < b (same as the explicit `if a < b { return Err }`)
                            dbr = dmap[p_]
                            if dbr["targets"].get(0, dbr["otherwise"]) == x: csub = True
                        elif f.blocks[p_]["term"]["k"] == "goto" and all(z["k"] != "assign" or not z["place"]["proj"] for z in f.blocks[p_]["stmts"]): work.append(p_)
                site = Site(f, b["i"], k, s)
                if ivals and not conds:
                    for v_ in ivals:
                        key = (arm, errv, "Eq", v_); r.site(site, str(key))
                        if key not in READER_REFUSALS: r.bad(f"refusal|{arm}|{errv}|Eq|{v_}", site, f"reader refusal not in the vetted table: arm {arm}, {errv} when a decoded length == {v_}")
                    continue
                if csub and not conds:
                    key = (arm, errv, "Lt", "var")
                    r.site(site, str(key) + " (checked_sub)")
                    if key not in READER_REFUSALS: r.bad(f"refusal|{arm}|{errv}|Lt|var", site, f"reader refusal not in the vetted table: arm {arm}, {errv} on a failed checked_sub")
                    continue
                if arm == "other" or not conds:
                    key = (arm, errv, "-", "-")
                    r.site(site, str(key))
                    if key not in READER_REFUSALS: r.bad(f"refusal|{arm}|{errv}|unconditional", site, f"new reader refusal {errv} in arm {arm}")
                    continue
                for br, pol in conds:
                    c = br["cond"]
                    if c[0] == "cmp":
                        op, a, b_ = c[1], c[2], c[3]
                        ca, cb = const_eval(a), const_eval(b_)
                        if ca is not None and cb is None: op, a, b_, ca, cb = MIRROR[op], b_, a, cb, ca
                        if not pol: op = NEGATE[op]
                        kc = "var" if cb is None else ("SLICE_SIZE" if cb == S else cb)
                        key = (arm, errv, op, kc)
                        subj = a
                    elif c[0] == "call" and method_of(c[1]) == "is_empty" and pol: key = (arm, errv, "is_empty", "-"); subj = c[2][0]
                    elif c[0] == "call" and method_of(c[1]) == "len" and not pol: key = (arm, errv, "Eq", 0); subj = c[2][0]       # `match x.len() { 0 => refuse, .. }`
                    else: key = (arm, errv, fmt(br["raw"])[:40], "-"); subj = None
                    r.site(site, str(key))
                    if key in READER_REFUSALS: continue
                    # a bound on the number of ack ranges that does not cut below what the sender emits is fine
                    if arm == 4 and isinstance(key[3], int) and cap is not None and subj is not None and "get_varint" in fmt(subj) and key[2] in ("Gt", "Ge"):
                        first_refused = key[3] + 1 if key[2] == "Gt" else key[3]
                        if first_refused > cap - 1: continue
                        r.bad(f"refusal|4|{errv}|{key[2]}|{key[3]}", site, f"the reader refuses ack packets with {first_refused} or more remaining ranges, but the sender emits up to {cap} ranges ({cap - 1} remaining): a full ack packet no longer decodes")
                        continue
                    # an explicit guard on the packet type byte in front of the dispatch: refusing a tag above every tag the writer emits is the
                    # catch-all arm spelled as a comparison
                    if errv == "InvalidPacketType" and subj is not None and "get_u8" in fmt(subj) and isinstance(key[3], int) and key[2] in ("Gt", "Ge"):
                        tags_w = [tg for tg, _ in codec.renet_packet_tables(t.F)[0].values() if tg is not None]
                        first_refused = key[3] + 1 if key[2] == "Gt" else key[3]
                        if tags_w and first_refused > max(tags_w): continue
                    r.bad(f"refusal|{arm}|{errv}|{key[2]}|{key[3]}", site, f"reader refusal not in the vetted table: arm {arm}, {errv} when value {key[2]} {key[3]} - the writer may emit such packets (round trip broken) unless shown otherwise")
    return r

_rules_c16 = rules
def rules(t):
    out = _rules_c16(t)
    out.append(reader_refusals(t))
    out.append(shared.range_algebra(t, "C16.f"))
    rr = RuleResult("C16.g", "an ack packet carries the newest ranges: every growth of pending_acks is followed by the trim to the cap (shared with C13.a1)", floor=1)
    import rules.C13 as C13
    for x in C13.rules(t):
        if x.id == "C13.a1":
            rr.sites += x.sites
            for v in x.violations: rr.bad(v.key, v.site, v.msg)
    out.append(rr)
    out.append(W3.wire_narrowing(t, "C16.h"))
    out.append(W3.decoder_append_only(t, "C16.i"))
    out.append(W3.reader_identity(t, "C16.j"))
    import rules.netsize as NS_
    out.append(NS_.decoder_floor_rule(t, "C16.k"))
    return out

_rules_C16_sw = rules
def rules(t, *a, **kw):
    import rules.wave5 as W5
    out = _rules_C16_sw(t, *a, **kw)
    out.append(W5.size_window(t, "C16.l"))
    return out

_rules_C16_w5d = rules
def rules(t, *a, **kw):
    import rules.wave5 as W5
    out = _rules_C16_w5d(t, *a, **kw)
    out.append(W5.address_codec_identity(t, "C16.m"))
    return out

_rules_C16_w6 = rules
def rules(t, *a, **kw):
    import rules.wave6 as W6
    out = _rules_C16_w6(t, *a, **kw)
    out.append(W6.stale_index(t, "C16.n"))
    out.append(W6.ack_record_value(t, "C16.o"))
    return out

_rules_C16_w7 = rules
def rules(t, *a, **kw):
    import rules.wave7 as W7
    out = _rules_C16_w7(t, *a, **kw)
    out.append(W7.count_not_position(t, "C16.p"))
    return out


_rules_C16_bw = rules
def rules(t, *a, **kw):
    import rules.bytewidth as BW
    out = _rules_C16_bw(t, *a, **kw)
    out.append(BW.byte_width_rule(t, "C16.q"))
    return out
