# C10 Netcode connection table: unique ids, unique addresses, bounded by max_clients
import re
from sa.rules import *
import rules.wave3 as W3
import rules.shared as shared
from rules.netcode_common import *
import rules.C05 as C05

def slot_stores(t, f=None):
    for s in t.sites(f):
        n = s.node
        if n["k"] == "assign" and n["place"]["proj"] and n["place"]["proj"][-1]["k"] == "index" and t.mentions_field(t.place(s), "clients") and s.fn.path.startswith("renetcode::server"):
            yield s

def rules(t):
    out = []
    p = t.fn("NetcodeServer::process_packet_internal")
    fills = [s for s in slot_stores(t) if fmt(t.stored(s)).startswith("option::Option::Some")]
    clears = [s for s in slot_stores(t) if fmt(t.stored(s)).startswith("option::Option::None")]
    takes = [c for c in t.calls(r"Option<T>::take$|<T>::take$") if c.fn.path.startswith("renetcode::server") and t.mentions_field(t.arg(c, 0), "clients")]
    r = RuleResult("C10.a1", "exactly one slot-fill site; id agreement (KEY-AGREE, shared with C05.c3)", floor=1)
    for s in fills: r.site(s)
    if len(fills) != 1: r.bad("count", fills[1] if len(fills) > 1 else None, f"{len(fills)} slot-fill sites (expected exactly one, in the response path)")
    for v in [v for rr in C05.rules(t) if rr.id == "C05.c3" for v in rr.violations]: r.bad(v.key.split("|", 1)[1], v.site, v.msg)
    out.append(r)
    r = RuleResult("C10.a2", "slot fill only when the source address is not connected; connection address = pending address", floor=1)
    for s in fills:
        r.site(s); f = s.fn
        ok = False
        for br in t.branches(f):
            if br["kind"] == "discr" and re.search(r"find_client_mut_by_addr\(.*P2\(addr\)\)$", fmt(br["on"])):
                none_edge = (br["bb"], br["otherwise"]) if 1 in br["targets"] else (br["bb"], br["targets"].get(0))
                if none_edge[1] is not None and t.edge_dominates(f, none_edge, s.bb): ok = True
        if not ok: r.bad("addr-guard", s, "slot fill not dominated by 'no connected client has this address'")
    for s in t.stores(CONN, "addr"): r.bad("addr-write", s, "Connection.addr written after creation")
    out.append(r)
    r = RuleResult("C10.b", "slot index is a free slot; clients array replaced only by the constructor / limit setter; request-time capacity test", floor=2)
    for s in fills:
        r.site(s)
        idx = [pr for pr in s.node["place"]["proj"] if pr["k"] == "index"][0]
        o = s.fn.origin_of_local(idx["local"])
        free = t.mentions_call(o, r"::position$")
        if not free:
            # an explicit scan: the fill is behind `clients[i].is_none()` for the same i
            for br in t.find_callcond(s.fn, r"Option.*::is_none$|<T>::is_none$"):
                a0 = strip(br["cond"][2][0])
                if isinstance(a0, tuple) and a0[0] == "index" and "clients" in fmt(a0[1]) and stable(a0[2]) == stable(o) and t.edge_dominates(s.fn, br["t_edge"], s.bb): free = True
        if not free: r.bad("free-slot", s, f"the filled slot is not shown to be free (position(is_none) / clients[i].is_none()): {fmt(o)[:60]}")
    for s in t.stores(NS, "clients"):
        if not s.fn.path.endswith(("::new", "::set_max_clients")): r.bad(f"clients-write|{s.fn.path}", s, "clients array replaced outside new/set_max_clients")
    cr = shared.capacity_rule(t, "C10.b")
    r.sites += cr.sites
    for v in cr.violations: r.bad(v.key.split("|", 1)[1], v.site, v.msg)
    out.append(r)
    r = RuleResult("C10.c1", "every ClientDisconnected names a session whose slot was just cleared, and every clear yields exactly one ClientDisconnected", floor=5)
    for s in t.aggrs("server::ServerResult", "ClientDisconnected"):
        if not s.fn.path.startswith("renetcode::server"): continue
        r.site(s); f = s.fn
        cl = [c for c in clears if c.fn is f] + [c for c in takes if c.fn is f]
        if not any(f.dominates(c.bb, s.bb) for c in cl): r.bad(f"{f.path}|no-clear", s, "ClientDisconnected reported without clearing the slot")
    for c in clears + takes:
        f = c.fn
        ev = {s.bb for s in t.aggrs("server::ServerResult", "ClientDisconnected", f)}
        from rules.C17 import all_paths_pass
        if not all_paths_pass(f, c.bb, ev - {c.bb}) and c.bb not in ev:
            # `let Some(client) = self.clients[slot].take() else { return None }`: on the None edge of the take nothing was cleared
            e_ = t.result_edges(f, c) if c.node["k"] == "call" else None
            if e_ and e_[0] != e_[1]:
                tg_ = {(b_, 0) for b_ in ev}
                if must_pass(f, (e_[0][1], -1), tg_)[0] or e_[0][1] in ev: continue
            r.bad(f"{f.path}|clear-without-event", c, "slot cleared on a path that does not report ClientDisconnected")
    out.append(r)
    r = RuleResult("C10.c2", "ClientConnected is reported together with the slot fill", floor=1)
    for s in t.aggrs("server::ServerResult", "ClientConnected", p):
        r.site(s)
        if not any(p.dominates(fl.bb, s.bb) for fl in fills): r.bad("no-fill", s, "ClientConnected without slot fill")
    out.append(r)
    r = RuleResult("C10.d", "id lookups compare the stored client id with the requested id", floor=3)
    for name in ("find_client_mut_by_id", "find_client_by_id", "find_client_slot_by_id"):
        top = t.fn("renetcode::server::" + name)
        r.site(Site(top, 0, 0, top.blocks[0]["term"]), name)
        cm = []
        def scan(f):
            out_ = [br["cond"] for br in t.branches(f) if br["kind"] == "bool" and br["cond"][0] == "cmp" and "client_id" in fmt(br["raw"])]
            c0 = strip(f.origin_of_local(0))
            while isinstance(c0, tuple) and c0[0] == "un" and c0[1] == "Not": c0 = c0[2]
            ret = t.norm_cond(c0)
            if ret[0] == "cmp" and "client_id" in fmt(c0): out_.append(ret)
            return out_
        # the helper itself, the closures it creates, and the closures those create (`position(|slot| slot.as_ref().is_some_and(|c| c.client_id == id))`)
        fs = [g for g in t.fns() if g.path == top.path or g.path.startswith(top.path + "::{closure")]
        for g in fs: cm += scan(g)
        delegates = [c for g in fs for c in t.calls(r"renetcode::server::find_client(_mut|_slot)?_by_id$", g)]
        if delegates and not cm: continue          # defined through another id lookup, which is checked on its own
        if not cm or any(c_[1] not in ("Eq", "Ne") for c_ in cm): r.bad(f"{name}|cmp", None, f"{name} does not compare client_id for equality")
    out.append(r)
    r = RuleResult("C10.e", "slots are written only at the fill and the clears", floor=1)
    known = {(x.fn.path, x.bb, x.idx) for x in fills + clears}
    for s in list(slot_stores(t)):
        r.site(s)
        if (s.fn.path, s.bb, s.idx) not in known: r.bad(f"{s.fn.path}|other", s, f"unexpected slot write {fmt(t.stored(s))[:40]}")
    out.append(r)
    out.append(shared.slots_match_limit(t, "C10.f"))
    out.append(W3.index_space(t, "C10.g"))
    return out

_rules_C10_w5d = rules
def rules(t, *a, **kw):
    import rules.wave5 as W5
    out = _rules_C10_w5d(t, *a, **kw)
    out.append(W5.no_stored_slot_index(t, "C10.h"))
    return out

_rules_C10_w5e = rules
def rules(t, *a, **kw):
    import rules.wave5 as W5
    out = _rules_C10_w5e(t, *a, **kw)
    out.append(W5.lookup_key_only(t, "C10.i"))
    out.append(W5.free_slot_only(t, "C10.j"))
    return out
