# BYTE-WIDTH (C16.q, C17.k): `sequence_bytes_required(s) = n` implies `s < 256^n`, for every u64 s.
#
# The netcode packet header carries only the low n bytes of the 64-bit sequence (write_sequence: `seq.to_le_bytes()[..n]`), the reader zero-extends
# them, and the *full* sequence is the AEAD nonce. If n bytes do not hold s, the receiver rebuilds a different nonce than the one the datagram was
# sealed with: encode -> decode is not the identity (C16) and an authentic datagram is refused (C04/C17 "conversely" clauses).
#
# Decided statically by a *partitioned abstract interpretation* of the function's MIR: the input space [0, 2^64) is cut into cells at every power
# of two and at every integer constant of the function body (c, c+1, its lowest set bit, its bit length), so that inside one cell every comparison
# against a constant and every `& mask` with a contiguous byte mask has one answer; in each cell the body is interpreted with the parameter as an
# interval and everything else concrete (loops are unrolled by the interpretation itself: the loop state is concrete), forking where a branch is
# not decided. No input is ever run: a cell stands for up to 2^63 values. If the body uses an operation the interpreter does not model the rule
# is *not decided* (recorded in the evidence, never reported).
import re
from sa.rules import *

M64 = (1 << 64) - 1


class Unsupported(Exception):
    pass


def _iv(lo, hi=None): return ("int", lo, lo if hi is None else hi)


def _bitand(a, b):
    (_, alo, ahi), (_, blo, bhi) = a, b
    if alo == ahi and blo == bhi: return _iv(alo & blo)
    if blo == bhi: x, m = (alo, ahi), blo
    elif alo == ahi: x, m = (blo, bhi), alo
    else: return _iv(0, min(ahi, bhi))
    if m == 0: return _iv(0)
    l = (m & -m).bit_length() - 1; h = m.bit_length() - 1
    contiguous = (m >> l) + 1 == 1 << (h - l + 1)
    lo, hi = x
    if hi < (1 << l): return _iv(0)
    if contiguous and lo >= (1 << l) and hi < (1 << (h + 1)): return _iv(1 << l, hi)       # x with its low l bits cleared is still >= 2^l
    if contiguous and l == 0 and hi <= m: return _iv(lo, hi)
    return _iv(0, min(hi, m))


def _cmp(op, a, b):
    (_, alo, ahi), (_, blo, bhi) = a, b
    def tri(t, f): return _iv(1) if t else (_iv(0) if f else _iv(0, 1))
    if op == "Eq": return tri(alo == ahi == blo == bhi, ahi < blo or bhi < alo)
    if op == "Ne": return tri(ahi < blo or bhi < alo, alo == ahi == blo == bhi)
    if op == "Lt": return tri(ahi < blo, alo >= bhi)
    if op == "Le": return tri(ahi <= blo, alo > bhi)
    if op == "Gt": return tri(alo > bhi, ahi <= blo)
    if op == "Ge": return tri(alo >= bhi, ahi < blo)
    raise Unsupported("cmp " + op)


def _width(ty): return ty.get("w", 64) if isinstance(ty, dict) and ty.get("k") == "int" else 64


class Interp:
    def __init__(self, f, steps=20000):
        self.f, self.budget = f, steps
        self.returns = []

    # ---- places / operands
    def _read(self, env, place):
        v = env.get(place["local"])
        for p in place["proj"]:
            if v is None: raise Unsupported("read of undefined value")
            k = p["k"]
            if k == "deref":
                if v[0] != "ref": raise Unsupported("deref of non-ref")
                v = self._read(env, v[1])
            elif k == "downcast": continue
            elif k == "field":
                if v[0] in ("agg", "tuple"): v = v[-1][p["i"]]
                else: raise Unsupported("field of " + v[0])
            else: raise Unsupported("projection " + k)
        if v is None: raise Unsupported("read of undefined value")
        return v

    def _write(self, env, place, val):
        if not place["proj"]: env[place["local"]] = val; return
        # resolve through a leading deref chain to the base place, then rebuild the aggregate along field projections
        base = {"local": place["local"], "proj": []}; proj = list(place["proj"])
        while proj and proj[0]["k"] == "deref":
            r = self._read(env, base)
            if r[0] != "ref": raise Unsupported("store through non-ref")
            base = r[1]; proj = proj[1:]
            if base["proj"]: proj = list(base["proj"]) + proj; base = {"local": base["local"], "proj": []}
        def put(v, pr):
            if not pr: return val
            p = pr[0]
            if p["k"] == "downcast": return put(v, pr[1:])
            if p["k"] == "field" and v is not None and v[0] in ("agg", "tuple"):
                fs = list(v[-1]); fs[p["i"]] = put(fs[p["i"]], pr[1:]); return v[:-1] + (fs,)
            raise Unsupported("store projection " + p["k"])
        env[base["local"]] = put(env.get(base["local"]), proj)

    def _op(self, env, o):
        if o["k"] == "const":
            v = o.get("val")
            if isinstance(v, bool): return _iv(int(v))
            if isinstance(v, int): return _iv(v)
            if isinstance(o.get("ty"), dict) and o["ty"].get("k") == "tuple": return ("tuple", [])
            if isinstance(o.get("ty"), dict) and o["ty"].get("k") == "bool": return _iv(1 if str(o.get("s")) == "true" else 0)
            raise Unsupported("constant " + str(o.get("s"))[:30])
        return self._read(env, o["place"])

    def _bin(self, op, a, b, w):
        if a[0] != "int" or b[0] != "int": raise Unsupported("bin on non-int")
        ov = op.endswith("WithOverflow"); base = op.replace("WithOverflow", "").replace("Unchecked", "")
        mx = (1 << w) - 1
        if base in ("Eq", "Ne", "Lt", "Le", "Gt", "Ge"): return _cmp(base, a, b)
        (_, alo, ahi), (_, blo, bhi) = a, b
        if base == "BitAnd": r = _bitand(a, b)
        elif base == "BitOr":
            if alo == ahi and blo == bhi: r = _iv(alo | blo)
            else: r = _iv(max(alo, blo), min(mx, (1 << max(ahi.bit_length(), bhi.bit_length())) - 1))
        elif base == "Shr":
            if blo != bhi: raise Unsupported("variable shift")
            r = _iv(alo >> blo, ahi >> blo)
        elif base == "Shl":
            if blo != bhi: raise Unsupported("variable shift")
            r = _iv(alo << blo, ahi << blo)
            if r[2] > mx: r = _iv(0, mx) if not (alo == ahi) else _iv((alo << blo) & mx)
        elif base == "Add": r = _iv(alo + blo, ahi + bhi)
        elif base == "Sub": r = _iv(alo - bhi, ahi - blo)
        elif base == "Mul": r = _iv(alo * blo, ahi * bhi)
        elif base == "Div":
            if blo <= 0: raise Unsupported("division by possibly zero")
            r = _iv(alo // bhi, ahi // blo)
        elif base == "Rem":
            if blo != bhi or blo <= 0: raise Unsupported("remainder")
            r = _iv(alo % blo) if alo == ahi else (_iv(alo % blo, ahi % blo) if ahi - alo < blo and alo % blo <= ahi % blo else _iv(0, blo - 1))
        else: raise Unsupported("bin " + op)
        if ov:
            over = r[1] < 0 or r[2] > mx
            sure = r[2] < 0 or r[1] > mx
            return ("tuple", [r if not over else _iv(0, mx), _iv(1) if sure else (_iv(0, 1) if over else _iv(0))])
        if r[1] < 0 or r[2] > mx:
            if base in ("Add", "Sub", "Mul"): raise Unsupported("wrapping arithmetic")
        return r

    def _rv(self, env, rv, dst_ty):
        k = rv["k"]
        if k == "use": return self._op(env, rv["op"])
        if k == "bin": return self._bin(rv["op"], self._op(env, rv["a"]), self._op(env, rv["b"]), _width(dst_ty) if not rv["op"].endswith("WithOverflow") and rv["op"] not in ("Eq", "Ne", "Lt", "Le", "Gt", "Ge") else self._opw(env, rv["a"]))
        if k == "cast":
            v = self._op(env, rv["op"])
            if v[0] != "int": raise Unsupported("cast of non-int")
            w = _width(rv.get("ty")); mx = (1 << w) - 1
            if v[1] < 0: raise Unsupported("cast of negative")
            return v if v[2] <= mx else (_iv(v[1] & mx) if v[1] == v[2] else _iv(0, mx))
        if k == "aggr":
            fs = [self._op(env, x) for x in rv["fields"]]
            return ("tuple", fs) if rv.get("ak") == "tuple" else ("agg", rv.get("path"), rv.get("variant"), rv.get("vname"), fs)
        if k == "ref": return ("ref", rv["place"])
        if k == "discr":
            v = self._read(env, rv["place"])
            if v[0] != "agg": raise Unsupported("discriminant of non-aggregate")
            return _iv(v[2])
        if k == "un":
            v = self._op(env, rv["op"])
            if rv.get("op_") == "Not" or rv.get("un") == "Not" or rv.get("uop") == "Not":
                if v[1] == v[2] and v[2] in (0, 1): return _iv(1 - v[1])
                if (v[1], v[2]) == (0, 1): return v
            raise Unsupported("unary")
        raise Unsupported("rvalue " + k)

    def _opw(self, env, o):
        if o["k"] == "const": return _width(o.get("ty"))
        ty = self.f.locals[o["place"]["local"]]["ty"] if not o["place"]["proj"] else None
        return _width(ty)

    # ---- calls
    def _call(self, env, term):
        name = term.get("resolved") or term.get("callee") or ""
        m = method_of(name)
        args = [self._op(env, a) for a in term["args"]]
        if m == "into_iter" and len(args) == 1: return args[0]
        if m == "next" and "Range" in name and "Inclusive" not in name:
            if args[0][0] != "ref": raise Unsupported("next on non-ref")
            rng = self._read(env, args[0][1])
            if rng[0] != "agg" or len(rng[-1]) != 2: raise Unsupported("range shape")
            s, e = rng[-1]
            if s[1] != s[2] or e[1] != e[2]: raise Unsupported("non-constant range")
            if s[1] < e[1]:
                self._write(env, args[0][1], rng[:-1] + ([_iv(s[1] + 1), e],))
                return ("agg", "std::option::Option", 1, "Some", [_iv(s[1])])
            return ("agg", "std::option::Option", 0, "None", [])
        if m in ("leading_zeros", "trailing_zeros") and len(args) == 1 and args[0][0] == "int":
            w = self._opw(env, term["args"][0]) if term["args"][0]["k"] == "const" or not term["args"][0]["place"]["proj"] else 64
            _, lo, hi = args[0]
            if m == "leading_zeros": return _iv(w - hi.bit_length(), w - lo.bit_length())
            if lo == hi: return _iv(w if lo == 0 else (lo & -lo).bit_length() - 1)
            return _iv(0, w)
        if m in ("min", "max") and len(args) == 2 and args[0][0] == args[1][0] == "int":
            f_ = min if m == "min" else max
            return _iv(f_(args[0][1], args[1][1]), f_(args[0][2], args[1][2]))
        if m == "div_ceil" and len(args) == 2 and args[1][1] == args[1][2] and args[1][1] > 0:
            d = args[1][1]; return _iv(-(-args[0][1] // d), -(-args[0][2] // d))
        if m == "ilog2" and len(args) == 1 and args[0][1] > 0: return _iv(args[0][1].bit_length() - 1, args[0][2].bit_length() - 1)
        if m == "checked_ilog2" and len(args) == 1 and args[0][1] > 0: return ("agg", "std::option::Option", 1, "Some", [_iv(args[0][1].bit_length() - 1, args[0][2].bit_length() - 1)])
        if m == "saturating_sub" and len(args) == 2: return _iv(max(args[0][1] - args[1][2], 0), max(args[0][2] - args[1][1], 0))
        if m in ("from", "into", "try_from") and len(args) == 1 and args[0][0] == "int" and m != "try_from": return args[0]
        raise Unsupported("call " + short(name))

    # ---- driver
    def run(self, env0):
        work = [(0, dict(env0))]
        while work:
            bb, env = work.pop()
            while True:
                self.budget -= 1
                if self.budget < 0: raise Unsupported("step budget exhausted")
                b = self.f.blocks[bb]
                for s in b["stmts"]:
                    if s["k"] != "assign": continue
                    loc = s["place"]["local"]
                    self._write(env, s["place"], self._rv(env, s["rv"], self.f.locals[loc]["ty"] if not s["place"]["proj"] else None))
                t = b["term"]; k = t["k"]
                if k == "goto": bb = t["target"]; continue
                if k == "return": self.returns.append(env.get(0)); break
                if k == "unreachable": break
                if k == "assert":
                    c = self._op(env, t["cond"]); exp = 1 if t["expected"] else 0
                    if c[0] != "int": raise Unsupported("assert cond")
                    if c[1] == c[2] and c[1] != exp: break               # this path panics: not a return
                    bb = t["target"]; continue
                if k == "switch":
                    v = self._op(env, t["on"])
                    if v[0] != "int": raise Unsupported("switch on non-int")
                    tg = [(val, tgt) for val, tgt in t["targets"]]
                    if v[1] == v[2]:
                        nxt = next((tgt for val, tgt in tg if val == v[1]), t.get("otherwise"))
                        if nxt is None: break
                        bb = nxt; continue
                    cands = [tgt for val, tgt in tg if v[1] <= val <= v[2]]
                    if t.get("otherwise") is not None and (v[2] - v[1] + 1) > len(cands): cands.append(t["otherwise"])
                    for c_ in cands[1:]: work.append((c_, dict(env)))
                    bb = cands[0]; continue
                if k == "call":
                    r = self._call(env, t)
                    self._write(env, t["dest"], r)
                    if t.get("target") is None: break
                    bb = t["target"]; continue
                if k == "drop": bb = t["target"]; continue
                raise Unsupported("terminator " + k)
        return self.returns


def _constants(f):
    out = set()
    def walk(x):
        if isinstance(x, dict):
            if x.get("k") == "const" and isinstance(x.get("val"), int) and not isinstance(x.get("val"), bool): out.add(x["val"])
            for v in x.values(): walk(v)
        elif isinstance(x, list):
            for v in x: walk(v)
    for b in f.blocks: walk(b["stmts"]); walk(b["term"])
    return out


def cells(f):
    cuts = {0, 1 << 64}
    for k in range(65): cuts.add(1 << k)
    for c in _constants(f):
        if c <= 0 or c > M64: continue
        for x in (c, c + 1, c & -c, 1 << c.bit_length()): cuts.add(x)
    cuts = sorted(x for x in cuts if 0 <= x <= 1 << 64)
    return [(a, b - 1) for a, b in zip(cuts, cuts[1:])]


def byte_width_rule(t, rid):
    r = RuleResult(rid, "BYTE-WIDTH: for every 64-bit sequence s, sequence_bytes_required(s) bytes hold s (s < 256^n): the bytes on the wire rebuild the sequence that was sealed in the nonce (partitioned abstract interpretation of the function body, one cell per magnitude class / constant)", floor=0)
    try: f = t.fn("renetcode::packet::sequence_bytes_required")
    except Exception: r.samples.append("not evaluated: sequence_bytes_required not found"); return r
    if f.argc != 1: r.samples.append("not evaluated: unexpected signature"); return r
    cs = cells(f)
    bad, n_ret = [], 0
    try:
        for lo, hi in cs:
            it = Interp(f)
            rets = it.run({1: _iv(lo, hi)})
            if not rets: continue
            for v in rets:
                if v is None or v[0] != "int": raise Unsupported("non-integer result")
                n_ret += 1
                need = (hi.bit_length() + 7) // 8
                if v[1] < need: bad.append((lo, hi, v[1], v[2], need))
    except Unsupported as ex:
        r.samples.append(f"not evaluated: the body of sequence_bytes_required uses an operation the byte-width interpreter does not model ({ex})")
        return r
    except Exception as ex:     # the interpreter met a MIR shape it was not written for: not decided (never a report)
        r.samples.append(f"not evaluated: byte-width interpreter gave up ({type(ex).__name__}: {str(ex)[:80]})"); return r
    r.sites += len(cs)
    r.samples.append(f"{len(cs)} input cells covering [0, 2^64), {n_ret} abstract returns, all with 256^n > max(cell)" if not bad else f"{len(cs)} input cells, {len(bad)} with too few bytes")
    for lo, hi, nlo, nhi, need in bad[:4]:
        site = Site(f, 0, 0, f.blocks[0]["term"])
        r.bad(f"too-few-bytes|{need}", site, f"sequence_bytes_required returns {nlo if nlo == nhi else f'{nlo}..{nhi}'} for sequences in [{lo:#x}, {hi:#x}], which need {need} bytes: the sequence rebuilt from the wire differs from the one sealed in the nonce, so a genuine datagram does not decode (encode -> decode is not the identity; the authentic packet is refused)")
    return r
