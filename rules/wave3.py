# rules added after the third seeding wave (seeds E/F): each states a structural necessary condition of a property clause that the earlier
# rule set did not cover. They are instantiated from the property files (C01.k, C03.i, ...), several properties sharing one clause.
import re
from sa.rules import *

RC = "remote_connection::RenetClient"
TRUNC = ("take", "skip", "step_by", "take_while", "skip_while", "filter", "filter_map", "flatten", "flat_map", "rev", "chain", "zip", "peekable", "map_while", "fuse", "skip_while")


def casts(t, f):
    """(site, source int type, target int type) of the integer casts of f"""
    for s in t.sites(f):
        n = s.node
        if n["k"] != "assign" or n["rv"]["k"] != "cast" or n["rv"].get("ck") != "IntToInt": continue
        op = n["rv"]["op"]; dst = n["rv"]["ty"]
        src = None
        if op["k"] in ("copy", "move") and not op["place"]["proj"]: src = f.locals[op["place"]["local"]]["ty"]
        elif op["k"] == "const": src = op.get("ty")
        if isinstance(src, dict) and src.get("k") == "int" and isinstance(dst, dict) and dst.get("k") == "int": yield s, src, dst


def const_value(t, name_pat):
    for c in ("renet", "renetcode", "renet_netcode"):
        for k, v in (t.F.raw.get(c, {}).get("consts", {}) if hasattr(t.F, "raw") else {}).items():
            if re.search(name_pat, k): return v
    return None


def wire_narrowing(t, rid):
    """C01-F / C03-F: a value is narrowed (`as u8`, `as u16`) on its way into the wire format. Allowed only for a count of packed messages, whose
    bound is the packing threshold (every message costs at least one byte of it), and then only to a width that holds that bound."""
    r = RuleResult(rid, "WIRE-WIDTH: Packet::to_bytes narrows no identifier, index or length; a message count is narrowed only to a width that holds SLICE_SIZE (the packing bound)", floor=8)
    f = t.fn("renet::packet::Packet::to_bytes")
    slice_size = 1200
    for s in t.sites():
        if s.node["k"] == "assign" and "SLICE_SIZE" in fmt(t.stored(s)) and const_eval(t.stored(s)) is not None: slice_size = const_eval(t.stored(s)); break
    for s, src, dst in casts(t, f):
        r.site(s)
        if dst["w"] >= src["w"]: continue
        o = t.stored(s)
        txt = fmt(o)
        if re.search(r"::len\(", txt) and re.search(r"as Small(Un)?[Rr]eliable\.messages\)$", txt):
            if 2 ** dst["w"] <= slice_size: r.bad(f"count-width|u{dst['w']}", s, f"message count written as u{dst['w']}: a packet can carry up to SLICE_SIZE = {slice_size} one-byte messages, the count wraps and the receiver drops (but acks) the rest")
            continue
        r.bad(f"narrowed|{stable(o)[:60]}", s, f"{txt[:80]} is narrowed from {src['w']} to {dst['w']} bits in the wire format: distinct values collide on the wire")
    return r


def emit_once(t, rid):
    """C03-E: the accumulator of small messages is handed to a packet by value (moved / taken), or cleared right after a copy was emitted"""
    r = RuleResult(rid, "EMIT-ONCE: the batch of small messages put into a packet is moved out of the accumulator (mem::take / move), or the accumulator is cleared before anything else is emitted", floor=4)
    for f in t.fns(r"channel::(un)?reliable::SendChannel(Unr|R)eliable::get_packets_to_send$"):
        for a in list(t.aggrs("renet::packet::Packet", "SmallUnreliable", f)) + list(t.aggrs("renet::packet::Packet", "SmallReliable", f)):
            r.site(a)
            m = t.field_of_aggr(a, "messages")
            txt = fmt(m)
            if "clone" in txt.lower() and not re.search(r"mem::(take|replace)", txt):
                # the accumulator survives: it must be emptied on every path before the next emission / return
                acc = None
                n = a.node["rv"]
                clears = [pos(c) for c in t.calls(r"::clear$|mem::take$|mem::replace$|Vec.*::drain$", f)]
                ok, w = must_pass(f, pos(a), set(clears), stops=[pos(x) for x in list(t.aggrs("renet::packet::Packet", None, f)) if pos(x) != pos(a)])
                if not ok: r.bad(f"{f.path}|copied-batch", a, "a copy of the accumulated small messages is emitted and the accumulator is not emptied before the next packet is built / the function returns: the same messages leave twice")
    return r


def _draw_site(f, op, at=(0, 0)):
    """block of the call that produced operand `op` (read at program point `at`), following copies, array elements and array-repeat expressions"""
    for _ in range(12):
        if op["k"] not in ("copy", "move"): return None
        ds = f.defs_at(op["place"]["local"], at[0], at[1])
        ds = [d for d in ds if d[2]["k"] in ("assign", "call")]
        if len(ds) != 1: return None
        bb, idx, d = ds[0]
        at = (bb, idx)
        if d["k"] == "call": return (bb, callee_name(d))
        rv = d["rv"]
        if rv["k"] in ("use", "cast"): op = rv["op"]; continue
        if rv["k"] == "repeat": op = rv["op"]; continue
        if rv["k"] == "aggr" and len(rv["fields"]) >= 1 and len({str(x) for x in rv["fields"]}) == 1: op = rv["fields"][0]; continue
        return None
    return None


def key_distinct(t, rid):
    """C04-E: the two session keys of a connect token come from two independent draws"""
    r = RuleResult(rid, "KEY-DISTINCT: client_to_server_key and server_to_client_key of a generated token are two separate random draws (nothing in nonce or AAD separates the directions)", floor=1)
    f = t.fn("PrivateConnectToken::generate")
    for a in t.aggrs("renetcode::token::PrivateConnectToken", None, f):
        rv = a.node["rv"]
        names = rv.get("fnames") or []
        if "client_to_server_key" not in names or "server_to_client_key" not in names: continue
        r.site(a)
        d1 = _draw_site(f, rv["fields"][names.index("client_to_server_key")], pos(a))
        d2 = _draw_site(f, rv["fields"][names.index("server_to_client_key")], pos(a))
        rnd = lambda d: d is not None and re.search(r"generate_random_bytes|fill_bytes|getrandom|OsRng", d[1])
        if not rnd(d1) or not rnd(d2): r.bad("not-a-draw", a, "a session key of the generated token is not (provably) the result of its own random draw")
        elif d1[0] == d2[0]: r.bad("same-draw", a, "both session keys are copies of one random draw: a datagram sealed by an endpoint opens on its own receive path (reflection), and the reflected sequence poisons the replay window")
    return r


def session_immutable(t, rid):
    """C05-F: what a session inherited from the token that opened it is never rewritten"""
    r = RuleResult(rid, "WRITERS: the token-derived fields of a netcode session (client_id, keys, user_data, expire_timestamp, timeout_seconds, addr) are set when the session is created and never stored again", floor=1)
    fields = ("client_id", "send_key", "receive_key", "expire_timestamp", "timeout_seconds", "addr")   # user_data: rewritten behind an equality guard, rule C05.c3
    n_cons = len(list(t.aggrs("renetcode::server::Connection", None)))
    r.sites += n_cons
    for fld in fields:
        for s in t.stores("server::Connection", fld):
            r.site(s)
            r.bad(f"{s.fn.path}|{fld}", s, f"Connection.{fld} is overwritten in {short(s.fn.path)}: an existing (pending) session takes over a property of a different token" + (": its lifetime is extended beyond the expiry of the token that opened it" if fld == "expire_timestamp" else ""))
    return r


def ack_lookup_range(t, rid):
    """C06-E / C15-F: the sent-packet lookup of the ack handler uses the decoded range itself"""
    r = RuleResult(rid, "PROV: sent_packets.range(..) in the ack handler is called with a decoded ack range unchanged (half-open, validated start < end by the decoder): not widened, clamped or rebuilt", floor=1)
    f = t.fn("RenetClient::process_packet")
    for g in fn_and_closures(t, f):
        for c in t.calls(r"BTreeMap.*::range$|btree.*::range$", g):
            if not t.mentions_field(resolved(t, t.arg(c, 0), g), "sent_packets"): continue
            r.site(c)
            a = resolved(t, t.arg(c, 1), g)
            txt = fmt(a)
            if isinstance(strip(a), tuple) and strip(a)[0] == "param" and "{closure" in g.path:
                # the range is the closure's own parameter: it is an element of whatever the adaptor the closure is passed to iterates over
                tag = re.search(r"\{closure#\d+\}$", g.path).group(0)
                par = owner_fn(t, g)
                feeds = [x for x in t.sites(par) if x.node["k"] == "call" and any(tag in fmt(y) for y in t.args(x)[1:]) and re.search(r"ack_ranges|Ack\.", fmt(t.arg(x, 0)))]
                if feeds: continue
            if (isinstance(a, tuple) and a[0] == "aggr") or re.search(r"\.(start|end)\b", txt) or re.search(r"Range(Inclusive|From|To)?.*::new\(", txt): r.bad(f"{f.path}|rebuilt-range", c, f"the lookup range is rebuilt ({txt[:90]}): an inclusive or clamped bound acknowledges a packet outside the decoded range, or inverts the range (BTreeMap::range panics when start > end)")
            elif not re.search(r"ack_ranges|Ack\.", txt): r.bad(f"{f.path}|foreign-range", c, f"the lookup range is not an element of the decoded ack ranges: {txt[:90]}")
    return r


def sign_cast(t, rid):
    """C07-E: a signed token field is made unsigned only behind a sign test"""
    r = RuleResult(rid, "SIGN-CAST: a signed value taken from a connect token (timeout_seconds) is cast to an unsigned type only where `> 0` / `>= 0` has been established for it", floor=2)
    for f in t.fns(r"^renetcode::"):
        if "{closure" in f.path or "::tests::" in f.path: continue
        for c in t.calls(r"TryFrom<.*>>::try_from$|::try_from$|TryInto.*::try_into$", f):
            if t.mentions_field(t.arg(c, 0), "timeout_seconds"): r.site(c, "checked conversion")
        for s, src, dst in casts(t, f):
            if not src["s"] or dst["s"]: continue
            o = t.stored(s)
            if not t.mentions_field(o, "timeout_seconds"): continue
            r.site(s)
            same = lambda a: t.mentions_field(a, "timeout_seconds")
            zero = lambda b: const_eval(b) == 0
            edges = [e for e, br in rel_edges(t, f, same, zero, "Gt")] + [e for e, br in rel_edges(t, f, same, zero, "Ge")]
            if not any(t.edge_dominates(f, e, s.bb) for e in edges):
                r.bad(f"{f.path}|unguarded", s, f"timeout_seconds (i32, chosen by whoever wrote the token) is cast to u{dst['w']} without an established `> 0`: a negative timeout becomes ~2^64 seconds and `last_packet_received_time + timeout` panics")
    return r


def decoder_append_only(t, rid):
    """C08-F: the ack decoder never edits a range it already decoded"""
    r = RuleResult(rid, "the ack decoder only appends the ranges it decodes (one push per (gap, size) pair); it never rewrites a range decoded earlier", floor=1)
    f = t.fn("renet::packet::Packet::from_bytes")
    pushes = [c for c in t.calls(r"Vec.*::push$", f) if "Range" in (c.node.get("substs") or "") or "Range" in fmt(t.arg(c, 1))]
    for c in pushes: r.site(c)
    for c in t.calls(r"::(last_mut|iter_mut|get_mut|first_mut|index_mut|pop|truncate|remove|retain|insert)$", f):
        a0 = fmt(t.arg(c, 0))
        sub = (c.node.get("substs") or "")
        if "Range" in sub or "Range" in a0:
            r.bad(f"{f.path}|edits-range|{method_of(callee_name(c.node))}", c, f"Packet::from_bytes calls {method_of(callee_name(c.node))} on the decoded ack ranges: a decoded range is rewritten/merged, so the decoded set differs from the encoded one (e.g. a gap of one missing sequence is acknowledged)")
    return r


def index_space(t, rid):
    """C10-E / C19-F: slot indices and table scans"""
    r = RuleResult(rid, "INDEX-SPACE / FULL-SCAN: lookups over the client slots and the connect-token history enumerate the table itself (no filtering / truncating adaptor between the table and `enumerate`, none around the scan)", floor=3)
    for f in t.fns(r"^renetcode::server::"):
        if "::tests::" in f.path: continue
        for c in t.calls(r"Iterator::enumerate$|::enumerate$", f):
            recv = t.arg(c, 0)
            txt = fmt(recv)
            if not re.search(r"clients|connect_token_entries|P1\(clients\)", txt): continue
            r.site(c)
            bad = [m for m in TRUNC if re.search(r"(::|>)" + m + r"\(", txt)]
            if bad: r.bad(f"{owner_fn(t, f).path}|enumerate-after|{bad[0]}", c, f"`enumerate` is applied after `{bad[0]}`: the index counts the surviving elements, not the position in the table it is later used to index")
        # adaptors applied on top of an enumerate over a table (truncated scan)
        for c in t.calls(r"Iterator::(take|skip|step_by|take_while|skip_while)$", f):
            txt = fmt(t.arg(c, 0))
            if re.search(r"enumerate\(", txt) and re.search(r"clients|connect_token_entries", txt):
                r.site(c)
                r.bad(f"{owner_fn(t, f).path}|truncated-scan|{method_of(callee_name(c.node))}", c, f"the scan over the table is cut by `{method_of(callee_name(c.node))}`: entries beyond the window are neither matched nor considered for eviction (a recorded connect token is forgotten while the table has room)")
    return r


def broadcast_total(t, rid):
    """C11-F: a broadcast has no refusal path"""
    r = RuleResult(rid, "MUST-PASS: every path through broadcast_message / broadcast_message_except reaches the iteration over the connections (no early return depending on the excluded id or anything else)", floor=2)
    for f in t.fns(r"^renet::server::RenetServer::broadcast_message(_except)?$"):
        its = [c for c in t.calls(r"::(iter_mut|values_mut|iter|keys|values)$|IntoIterator>::into_iter$", f) if t.mentions_field(t.arg(c, 0), "connections")]
        fwd = [c for c in t.calls(r"RenetServer::broadcast_message(_except)?$", f)]
        tg = its + fwd
        for c in tg: r.site(c)
        if not tg: r.bad(f"{f.path}|no-loop", None, "no iteration over self.connections"); continue
        ok, w = must_pass(f, (0, -1), {pos(c) for c in tg})
        if not ok: r.bad(f"{f.path}|early-return", tg[0], f"{short(f.path)} can return before iterating over the connections: the broadcast is suppressed for every client on that path")
    return r


def event_fifo(t, rid):
    """C12-F: server events leave in the order they were queued"""
    r = RuleResult(rid, "FIFO: RenetServer.events is filled at one end and drained from the other (push_back/pop_front), so a connect is always reported before the matching disconnect", floor=3)
    ins, outs = set(), set()
    IN = {"push_back": "back", "push": "back", "push_front": "front", "insert": "any"}
    OUT = {"pop_front": "front", "pop_back": "back", "pop": "back", "remove": "any", "swap_remove": "any", "swap_remove_back": "any", "swap_remove_front": "any"}
    for f in t.fns(r"^renet::server::RenetServer::"):
        for c in t.sites(f):
            if c.node["k"] != "call" or not c.node["args"]: continue
            if not t.mentions_field(t.arg(c, 0), "events"): continue
            m = method_of(callee_name(c.node))
            if m in IN: ins.add(IN[m]); r.site(c)
            elif m in OUT:
                end = OUT[m]
                if m == "remove" and len(c.node["args"]) > 1 and const_eval(t.arg(c, 1)) == 0: end = "front"
                outs.add(end); r.site(c)
                if end == "any": r.bad(f"{f.path}|out-{m}", c, f"events are taken out with `{m}`: not first-in first-out")
    if not ins or not outs: r.bad("shape", None, "event queue producers/consumer not found")
    elif ins & outs & {"back", "front"}: r.bad("lifo", None, f"events are queued at the {sorted(ins)} and taken from the {sorted(outs)}: last-in first-out, a ClientDisconnected can be reported before the ClientConnected it belongs to")
    elif "any" in ins: r.bad("insert", None, "events are inserted at arbitrary positions")
    return r


def packets_append_only(t, rid):
    """C13-E: a packet that was closed is not grown afterwards"""
    r = RuleResult(rid, "a packer only appends packets to its output: a packet that was closed under the size threshold is never reopened and grown", floor=2)
    for f in t.fns(r"channel::(un)?reliable::SendChannel(Unr|R)eliable::get_packets_to_send$|RenetClient::get_packets_to_send$"):
        n = 0
        for c in t.sites(f):
            if c.node["k"] != "call" or not c.node["args"]: continue
            sub = c.node.get("substs") or ""
            m = method_of(callee_name(c.node))
            a0 = fmt(t.arg(c, 0))
            if "packet::Packet" not in sub and "Packet" not in a0: continue
            if m in ("push", "extend", "append", "extend_from_slice"): r.site(c); n += 1
            elif m in ("last_mut", "iter_mut", "get_mut", "first_mut", "index_mut") and re.search(r"(^|[\[ ,])(renet::)?packet::Packet", sub):
                r.site(c); r.bad(f"{f.path}|reopens|{m}", c, f"{short(f.path)} takes a mutable reference into the packets already produced ({m}): a packet closed at the threshold can be grown past the size the counted bytes allow")
    return r


def budget_fail_stays(t, rid, which):
    """C14-F / C15-E: running out of tick budget for one message does not end the scan of the queue"""
    r = RuleResult(rid, "the `budget < needed` edge of a send loop leads to the next message (continue / leave the inner slice loop), never out of the message loop or the function: later messages are still examined (dropped whole on unreliable channels; small due messages still flushed on reliable ones)", floor=2)
    pats = {"unreliable": r"channel::unreliable::SendChannelUnreliable::get_packets_to_send$", "reliable": r"channel::reliable::SendChannelReliable::get_packets_to_send$"}
    for kind in which:
        f = t.fn(pats[kind].replace("$", "").split("::")[-2] + "::get_packets_to_send")
        is_budget = lambda a: "available_bytes" in fmt(a) or "P2(" in fmt(a) and "available" in fmt(a)
        anyv = lambda b: True
        edges = [(e, br) for e, br in rel_edges(t, f, is_budget, anyv, "Lt")]
        loops = natural_loops(f)
        if not loops: r.bad(f"{f.path}|no-loop", None, "no message loop"); continue
        outer = max(loops, key=lambda hb: len(hb[1]))
        for e, br in edges:
            if br["bb"] not in outer[1]: continue
            s = Site(f, br["bb"], 0, f.blocks[br["bb"]]["term"]); r.site(s)
            # from the fail edge, the loop head must be reachable without leaving the outer loop, and no path may leave the loop before reaching the head
            seen, st, leaves = set(), [e[1]], False
            while st:
                x = st.pop()
                if x in seen: continue
                seen.add(x)
                if x not in outer[1]:
                    if f.reachable_from([x]) & set(f.returns): leaves = True; break      # (an `unreachable` block of a desugared `for` is not an exit)
                    continue
                if x == outer[0]: continue
                st.extend(f.succ[x])
            if leaves: r.bad(f"{f.path}|leaves-loop", s, f"when the tick budget does not cover a message, {short(f.path)} leaves the message loop (break/return): the messages behind it are not examined in this tick" + ("; small messages already selected are charged and time-stamped but never put into a packet" if kind == "reliable" else "; they stay queued instead of being dropped, and a smaller message that would fit is not sent"))
    return r


def reader_identity(t, rid):
    """C16-F: the token address reader builds the address from the bytes, it does not normalise it"""
    r = RuleResult(rid, "CODEC-ID: read_server_addresses constructs each address from the bytes it read through constructors only (no value-changing call such as to_canonical / to_ipv4_mapped in the data path)", floor=2)
    f = t.fn("token::read_server_addresses")
    ctor = re.compile(r"(::new|::from|::into|::from_[a-z0-9_]+|::try_from|::try_into|::read_[a-z0-9_]+|::read_exact|Try.*::branch|::from_residual|::deref(_mut)?|::as_(mut|ref)|::next|::into_iter|::iter_mut|::take|::unwrap)$")
    for g in fn_and_closures(t, f):
        for c in t.sites(g):
            if c.node["k"] != "call": continue
            nm = re.sub(r"::<[^>]*>", "", callee_name(c.node))
            if re.search(r"std::net::|core::net::", nm):
                r.site(c)
                if not ctor.search(nm): r.bad(f"{f.path}|transform|{method_of(nm)}", c, f"the reader passes the decoded address through `{method_of(nm)}`: ConnectToken::write -> read is no longer the identity (and the server's host-list comparison sees a different address than the one sealed)")
    return r


def nonce_counter_use(t, rid):
    """C18-F: counters that exist to make nonces unique do not decide admission"""
    r = RuleResult(rid, "the server-wide challenge/global sequence counters are only incremented and used as nonces; no branch compares them (a handshake's progress does not depend on how many other handshakes the server has seen)", floor=2)
    for f in t.fns(r"^renetcode::server::NetcodeServer::"):
        if "::tests::" in f.path: continue
        for s_ in list(t.stores("server::NetcodeServer", "challenge_sequence", f)) + list(t.stores("server::NetcodeServer", "global_sequence", f)): r.site(s_)
        for br in t.branches(f):
            if br["kind"] != "bool" or br["cond"][0] != "cmp": continue
            raw = br["raw"]
            isctr = lambda o: re.search(r"\.(challenge_sequence|global_sequence)$", fmt(strip(o))) is not None
            if isctr(br["cond"][2]) or isctr(br["cond"][3]):
                txt = fmt(raw)
                s = Site(f, br["bb"], 0, f.blocks[br["bb"]]["term"]); r.site(s)
                r.bad(f"{f.path}|compared", s, f"{short(f.path)} branches on the server-wide sequence counter ({txt[:80]}): a response to any but the newest challenge is refused, so two overlapping handshakes (or one duplicated request) starve each other although slots are free")
    return r


def replies_behind_token_gate(t, rid):
    """C19-E: every datagram answered on the request path is behind the token-reuse test"""
    r = RuleResult(rid, "every reply of handle_connection_request (challenge or denial) is dominated by the true edge of find_or_add_connect_token_entry: a connect token replayed from another address is never answered", floor=2)
    h = t.fn("NetcodeServer::handle_connection_request")
    gates = [br["t_edge"] for br in t.find_callcond(h, r"find_or_add_connect_token_entry$")]
    reps = list(t.aggrs("renetcode::server::ServerResult", "PacketToSend", h))
    for a in reps:
        r.site(a)
        if not any(t.edge_dominates(h, e, a.bb) for e in gates): r.bad(f"{h.path}|ungated-reply", a, "a reply is sent on a path that has not passed the token-reuse test: on that path the same token answers from any source address (reflection to addresses that never asked)")
    if not gates: r.bad("no-gate", None, "no token-reuse test")
    return r


def client_state_machine(t, rid, clause):
    """C18-E / C20-F: what a packet kind that is NOT covered by the replay protection may do to the client's state machine.
    clause "timer":     such a kind refreshes last_packet_received_time only on an arm that leaves the set of states it fires in
                        (so a captured copy cannot fire the arm again and postpone the timeout for ever);
    clause "connected": such a kind never changes the state of a Connected client (a stale or replayed handshake packet cannot end a healthy session)."""
    from rules.netcode_common import decode_sites, variants_at, replay_protected_kinds, enum_variants_at, NC
    descr = {"timer": "REPLAY-SAFE (client): a packet kind outside the replay protection refreshes the client's timeout only on an arm whose target state is outside the states the arm fires in",
             "connected": "a packet kind outside the replay protection never changes the state of a Connected client"}[clause]
    r = RuleResult(rid, descr, floor=2)
    f = t.fn("NetcodeClient::process_packet")
    prot = replay_protected_kinds(t)
    is_state = lambda o: re.search(r"P1\(self\)\.state$", fmt(strip(o))) is not None
    ST = "renetcode::client::ClientState"
    decs = decode_sites(t, f)
    state_stores = list(t.stores(NC, "state", f))
    if clause == "timer":
        for s in t.stores(NC, "last_packet_received_time", f):
            kinds = set()
            for d in decs: kinds |= set(variants_at(t, f, d, s.bb))
            r.site(s)
            unprot = sorted(k for k in kinds if k not in prot)
            if not unprot: continue
            S = enum_variants_at(t, f, is_state, ST, s.bb)
            arm = [x for x in state_stores if f.dominates(x.bb, s.bb) or f.dominates(s.bb, x.bb)]
            tgt = set()
            for x in arm:
                o = strip(t.stored(x))
                if isinstance(o, tuple) and o[0] == "aggr": tgt.add(o[2])
            if not arm or (tgt & S): r.bad(f"{f.path}|replayable-refresh|{'+'.join(unprot)}", s, f"{unprot} (not replay protected) refresh last_packet_received_time in states {sorted(S)} and leave the client in {sorted(tgt) or 'the same state'}: a captured copy fires the same arm again, so replayed packets postpone the client's timeout for ever (it never gives up on a silent server / never moves to the next address)")
    else:
        for x in state_stores:
            kinds = set()
            for d in decs: kinds |= set(variants_at(t, f, d, x.bb))
            r.site(x)
            unprot = sorted(k for k in kinds if k not in prot)
            if not unprot: continue
            S = enum_variants_at(t, f, is_state, ST, x.bb)
            if "Connected" in S: r.bad(f"{f.path}|connected-left|{'+'.join(unprot)}", x, f"{unprot} (not replay protected, valid for the whole life of the token) can change the state of a Connected client: a stale or replayed handshake packet ends a healthy session while the server keeps it")
    return r
