# C16.k (found through a sub-agent's side remark, defect F17): the netcode decoder's size refusal against the sizes the encoder can produce.
#   encoder minimum = 1 (prefix) + min(sequence_bytes_required) + min(body over the encrypted packet kinds) + NETCODE_MAC_BYTES
#   decoder refusal = the constant K of the entry guard `buffer.len() < K -> Err(PacketTooSmall)` of Packet::decode
# A datagram the encoder can produce must not be refused for its size: K <= encoder minimum. (The opposite direction - the decoder accepts
# shorter input than anything authentic - is harmless: the later `len < read_pos + MAC` test and the tag check decide.)
import re
from sa.rules import *


def _interval(t, f, o, depth=0):
    """(lo, hi) of an integer origin built from constants, + - * / >> on intervals, leading/trailing_zeros of a 64-bit value, `map_or(default, ..)` of
    an Option (only the default is known: lower bound when the closure result cannot be below it is not assumed - returns None unless both sides
    resolve), min/max; None when not resolvable"""
    o = strip(o)
    if depth > 12 or not isinstance(o, tuple): return None
    c = const_eval(o)
    if c is not None: return (c, c)
    if o[0] == "field" and str(o[2]) == "0": return _interval(t, f, o[1], depth + 1)      # (a OpWithOverflow b).0
    if o[0] == "bin":
        a, b = _interval(t, f, o[2], depth + 1), _interval(t, f, o[3], depth + 1)
        if a is None or b is None: return None
        op = o[1].replace("WithOverflow", "").replace("Unchecked", "")
        if op == "Add": return (a[0] + b[0], a[1] + b[1])
        if op == "Sub": return (max(a[0] - b[1], 0), max(a[1] - b[0], 0))
        if op == "Mul": return (a[0] * b[0], a[1] * b[1])
        if op == "Div" and b[0] > 0: return (a[0] // b[1], a[1] // b[0])
        if op == "Shr": return (a[0] >> b[1], a[1] >> b[0])
        return None
    if o[0] == "call":
        m_ = method_of(o[1])
        if m_ in ("leading_zeros", "trailing_zeros", "count_ones", "count_zeros"): return (0, 64)
        if m_ in ("min", "max") and len(o[2]) == 2:
            a, b = _interval(t, f, o[2][0], depth + 1), _interval(t, f, o[2][1], depth + 1)
            if a is None or b is None: return None
            return (min(a[0], b[0]), min(a[1], b[1])) if m_ == "min" else (max(a[0], b[0]), max(a[1], b[1]))
        if m_ in ("map_or", "map_or_else", "unwrap_or") and len(o[2]) >= 2:
            d = _interval(t, f, o[2][1], depth + 1)
            if d is None: return None
            if m_ == "unwrap_or": return None
            # the closure's result: resolve the closure body's return origin
            tag = re.search(r"\{closure#\d+\}", fmt(o[2][-1]))
            gs = [g for g in t.fns() if tag and g.path.startswith(f.path + "::") and g.path.endswith(tag.group(0))]
            if not gs: return None
            c_ = _interval(t, gs[0], gs[0].origin_of_local(0), depth + 1)
            if c_ is None: return None
            return (min(d[0], c_[0]), max(d[1], c_[1]))
    if o[0] == "param": return (0, (1 << 64) - 1)
    if o[0] == "phi":
        xs = [_interval(t, f, a, depth + 1) for a in o[2]]
        if any(x is None for x in xs): return None
        return (min(x[0] for x in xs), max(x[1] for x in xs))
    return None


def min_return(t, fname):
    """smallest value an integer function can return, from the constants / simple expressions assigned to its return place (bounded search:
    constants, `C - i` with a `0..n` loop index, `max(c, ..)`); None when not resolvable"""
    f = t.fn(fname)
    vals = []
    for bb, k, s in f.defs1(0) if hasattr(f, "defs1") else f.defs().get(0, []):
        if s["k"] != "assign": return None
        o = strip(f._origin_of_def(s, 0))
        v = const_eval(o)
        if v is not None: vals.append(v); continue
        txt = fmt(o)
        m = re.match(r"^\((\d+) SubWithOverflow .*\)\.0$", txt)
        if m and isinstance(o, tuple):
            # `8 - i` with i drawn from a constant range: find the range's end
            ends = [const_eval(a[3][1]) for a in (strip(t.stored(x)) for x in t.sites(f) if x.node["k"] == "assign") if isinstance(a, tuple) and a[0] == "aggr" and str(a[1]).endswith("Range") and len(a[3]) == 2]
            ends = [e for e in ends if e is not None]
            if ends: vals.append(int(m.group(1)) - (max(ends) - 1)); continue
        iv = _interval(t, f, o)
        if iv is not None: vals.append(iv[0]); continue
        mm = re.search(r"(Ord|cmp)::max\(", txt)
        if mm:
            cs = [const_eval(a) for a in (o[2] if o[0] == "call" else [])]
            cs = [c for c in cs if c is not None]
            if cs: vals.append(max(cs)); continue
        return None
    return min(vals) if vals else None


def decoder_floor_rule(t, rid):
    from sa import codec
    r = RuleResult(rid, "SIZE-FLOOR: the size below which Packet::decode refuses a datagram is not larger than the smallest datagram Packet::encode can produce (prefix + fewest sequence bytes + empty body + tag)", floor=1)
    d = t.fn("renetcode::packet::Packet::<'a>::decode")
    mac = t.F.consts.get("renetcode::NETCODE_MAC_BYTES", {}).get("val", 16)
    is_len = lambda a: isinstance(strip(a), tuple) and strip(a)[0] == "call" and method_of(strip(a)[1]) == "len" and "buffer" in fmt(a)
    ks = []
    for e, br in rel_edges(t, d, is_len, lambda b: const_eval(b) is not None, "Lt"):
        if not d.dominates(br["bb"], br["bb"]) or any(p_ not in (0,) and not d.dominates(br["bb"], p_) for p_ in []): pass
        # only the entry guard: the test block is reached from the entry without any other branch
        if len([x for x in d.reach if d.dominates(x, br["bb"]) and d.blocks[x]["term"]["k"] == "switch" and x != br["bb"]]) > 0: continue
        k = const_eval(br["cond"][3]) if is_len(br["cond"][2]) else const_eval(br["cond"][2])
        if k is not None: ks.append((k, br)); r.site(Site(d, br["bb"], 0, d.blocks[br["bb"]]["term"]), f"entry guard len < {k}")
    try: sizes = codec.netcode_packet_sizes(t.F)
    except Exception as ex: sizes = {}
    enc = {n: v for n, v in sizes.items() if n != "ConnectionRequest" and v is not None}
    body_min = min((v[0] if isinstance(v, (tuple, list)) else v) for v in enc.values()) if enc else None
    seq_min = min_return(t, "renetcode::packet::sequence_bytes_required")
    r.samples.append(f"encoder: prefix 1 + sequence bytes >= {seq_min} + body >= {body_min} + tag {mac}; decoder entry guards: {[k for k, _ in ks]}")
    if body_min is None or seq_min is None:
        # the encoder's sizes could not be read from this spelling of the code: not decided (the boundary itself is also guarded by the
        # O-engine obligations of the decoder); recorded in the evidence, not reported
        r.samples.append(f"not evaluated: smallest encoded datagram not resolvable (sequence bytes {seq_min}, body {body_min})"); return r
    enc_min = 1 + seq_min + body_min + mac
    for k, br in ks:
        if k > enc_min:
            r.bad(f"{d.path}|refuses-own-output", Site(d, br["bb"], 0, d.blocks[br["bb"]]["term"]), f"Packet::decode refuses datagrams shorter than {k} bytes, but Packet::encode produces {enc_min}-byte datagrams (a packet without body sealed with a sequence that needs {seq_min} sequence byte(s)): encode -> decode is not the identity for them")
    return r
