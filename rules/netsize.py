# C16.k (found through a sub-agent's side remark, defect F17): the netcode decoder's size refusal against the sizes the encoder can produce.
#   encoder minimum = 1 (prefix) + min(sequence_bytes_required) + min(body over the encrypted packet kinds) + NETCODE_MAC_BYTES
#   decoder refusal = the constant K of the entry guard `buffer.len() < K -> Err(PacketTooSmall)` of Packet::decode
# A datagram the encoder can produce must not be refused for its size: K <= encoder minimum. (The opposite direction - the decoder accepts
# shorter input than anything authentic - is harmless: the later `len < read_pos + MAC` test and the tag check decide.)
import re
from sa.rules import *


def min_return(t, fname):
    """smallest value an integer function can return, from the constants / simple expressions assigned to its return place (bounded search:
    constants, `C - i` with a `0..n` loop index, `max(c, ..)`); None when not resolvable"""
    f = t.fn(fname)
    vals = []
    for bb, k, s in f.defs1(0) if hasattr(f, "defs1") else f.defs().get(0, []):
        if s["k"] != "assign": return None
        o = strip(f._origin_of_def(s, 0))
        v = const_eval(o)
        if v is not None: vals.append(v); continue
        txt = fmt(o)
        m = re.match(r"^\((\d+) SubWithOverflow .*\)\.0$", txt)
        if m and isinstance(o, tuple):
            # `8 - i` with i drawn from a constant range: find the range's end
            ends = [const_eval(a[3][1]) for a in (strip(t.stored(x)) for x in t.sites(f) if x.node["k"] == "assign") if isinstance(a, tuple) and a[0] == "aggr" and str(a[1]).endswith("Range") and len(a[3]) == 2]
            ends = [e for e in ends if e is not None]
            if ends: vals.append(int(m.group(1)) - (max(ends) - 1)); continue
        mm = re.search(r"(Ord|cmp)::max\(", txt)
        if mm:
            cs = [const_eval(a) for a in (o[2] if o[0] == "call" else [])]
            cs = [c for c in cs if c is not None]
            if cs: vals.append(max(cs)); continue
        return None
    return min(vals) if vals else None


def decoder_floor_rule(t, rid):
    from sa import codec
    r = RuleResult(rid, "SIZE-FLOOR: the size below which Packet::decode refuses a datagram is not larger than the smallest datagram Packet::encode can produce (prefix + fewest sequence bytes + empty body + tag)", floor=1)
    d = t.fn("renetcode::packet::Packet::<'a>::decode")
    mac = t.F.consts.get("renetcode::NETCODE_MAC_BYTES", {}).get("val", 16)
    is_len = lambda a: isinstance(strip(a), tuple) and strip(a)[0] == "call" and method_of(strip(a)[1]) == "len" and "buffer" in fmt(a)
    ks = []
    for e, br in rel_edges(t, d, is_len, lambda b: const_eval(b) is not None, "Lt"):
        if not d.dominates(br["bb"], br["bb"]) or any(p_ not in (0,) and not d.dominates(br["bb"], p_) for p_ in []): pass
        # only the entry guard: the test block is reached from the entry without any other branch
        if len([x for x in d.reach if d.dominates(x, br["bb"]) and d.blocks[x]["term"]["k"] == "switch" and x != br["bb"]]) > 0: continue
        k = const_eval(br["cond"][3]) if is_len(br["cond"][2]) else const_eval(br["cond"][2])
        if k is not None: ks.append((k, br)); r.site(Site(d, br["bb"], 0, d.blocks[br["bb"]]["term"]), f"entry guard len < {k}")
    try: sizes = codec.netcode_packet_sizes(t.F)
    except Exception as ex: sizes = {}
    enc = {n: v for n, v in sizes.items() if n != "ConnectionRequest" and v is not None}
    body_min = min((v[0] if isinstance(v, (tuple, list)) else v) for v in enc.values()) if enc else None
    seq_min = min_return(t, "renetcode::packet::sequence_bytes_required")
    r.samples.append(f"encoder: prefix 1 + sequence bytes >= {seq_min} + body >= {body_min} + tag {mac}; decoder entry guards: {[k for k, _ in ks]}")
    if body_min is None or seq_min is None: r.bad("unresolved", None, f"cannot establish the smallest encoded datagram (sequence bytes {seq_min}, body {body_min})"); return r
    enc_min = 1 + seq_min + body_min + mac
    for k, br in ks:
        if k > enc_min:
            r.bad(f"{d.path}|refuses-own-output", Site(d, br["bb"], 0, d.blocks[br["bb"]]["term"]), f"Packet::decode refuses datagrams shorter than {k} bytes, but Packet::encode produces {enc_min}-byte datagrams (a packet without body sealed with a sequence that needs {seq_min} sequence byte(s)): encode -> decode is not the identity for them")
    return r
