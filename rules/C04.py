# C04 Netcode payloads: only authentic ones surface, each at most once (anti-replay) — structural clauses
import re
from sa.rules import *
import rules.wave3 as W3
import rules.shared as shared
from rules.netcode_common import *
from rules.oblcommon import obl_rule

def rules(t):
    out = []
    d = t.fn("packet::Packet::<'a>::decode")
    dscope = fn_and_closures(t, d)
    dec = list(t.calls(r"crypto::dencrypted_in_place$", d)); adv = list(t.calls(r"ReplayProtection::advance_sequence$", d))
    chk_all = [(c, g) for g in dscope for c in t.calls(r"ReplayProtection::already_received$", g)]
    chk = [c for c, g in chk_all if g is d]
    chk_closures = [g for c, g in chk_all if g is not d]
    r = RuleResult("C04.a1", "replay window is consulted before decrypting: already_received() true-edge returns Err(DuplicatedSequence) and decrypt is behind its false edge", floor=1)
    for c, g_ in chk_all:
        r.site(c)
        # the branch that consumes the answer: on the call itself, or on an adaptor (`map_or(false, |w| w.already_received(seq))`) fed with the closure that makes the call
        brs = [br for br in t.branches(d) if br["kind"] == "bool" and (t.mentions_call(br["raw"], r"already_received$") or any(short(g2.path).split("::")[-1] in fmt(br["raw"]) and "closure" in fmt(br["raw"]) for g2 in chk_closures))]
        ok = False
        for br in brs:
            if t.edge_returns_err(d, br["t_edge"], "DuplicatedSequence") and all(not (x.bb in d.reachable_from([br["t_edge"][1]]) and x.bb not in d.reachable_from([br["f_edge"][1]])) for x in dec): ok = True
        # decrypt must not be reachable from the check's call block without passing the branch
        if not brs: r.bad("no-branch", c, "result of already_received() is not branched on")
        elif not ok: r.bad("err-edge", c, "already-received edge does not return Err(DuplicatedSequence)")
        if not all(d.dominates(c.bb, x.bb) or not d.reachable_from([c.bb]).__contains__(x.bb) for x in dec): pass
        # ordering: every path from entry to decrypt that passes a window-carrying state passes the check: check dominates decrypt on the window=Some paths;
        # structural form: the check call is reachable before decrypt and not after it
        if g_ is d and any(c.bb in d.reachable_from([x.node["target"]]) for x in dec): r.bad("order", c, "window check happens after decryption")
    out.append(r)
    r = RuleResult("C04.a2", "window advances only after a successful decrypt", floor=1)
    for a in adv:
        r.site(a)
        oks = [t.result_edges(d, x)[0] for x in dec if t.result_edges(d, x)]
        if not any(t.edge_dominates(d, e, a.bb) for e in oks): r.bad("dom", a, "advance_sequence not dominated by the decrypt Ok-edge")
    out.append(r)
    r = RuleResult("C04.a3", "one sequence value feeds window check, nonce, advance and the returned sequence", floor=3)
    seqs = [resolved(t, t.arg(c, 1), g) for c, g in chk_all] + [t.arg(c, 1) for c in adv] + [t.arg(x, 1) for x in dec]
    for c in [c for c, g in chk_all] + adv + dec: r.site(c)
    if len({repr(norm(s)) for s in seqs}) != 1: r.bad("agree", chk[0] if chk else None, "window check / decrypt nonce / advance use different sequence values: " + " | ".join(sorted({fmt(s)[:50] for s in seqs})))
    if seqs and not t.mentions_call(seqs[0], r"read_sequence$"): r.bad("src", None, "sequence is not the value read from the packet")
    out.append(r)
    r = RuleResult("C04.b", "replay protection covers KeepAlive, Payload and Disconnect", floor=1)
    f = t.fn("PacketType::apply_replay_protection")
    names = t.variants_of("renetcode::packet::PacketType")
    covered = set()
    for br in t.branches(f):
        if br["kind"] == "discr":
            r.site(Site(f, br["bb"], 0, f.blocks[br["bb"]]["term"]))
            # which edges lead to `true`
            def leads_true(bb):
                for s in f.blocks[bb]["stmts"]:
                    if s["k"] == "assign" and s["place"]["local"] == 0 and s["rv"]["k"] == "use" and s["rv"]["op"]["k"] == "const": return s["rv"]["op"]["val"] == 1
                return None
            for v, tgt in br["targets"].items():
                if leads_true(tgt): covered.add(names.get(v))
            if leads_true(br["otherwise"]): covered |= {n for v, n in names.items() if v not in br["targets"]}
    for need in ("KeepAlive", "Payload", "Disconnect"):
        if need not in covered: r.bad(f"missing|{need}", None, f"{need} packets are not replay protected (covered: {sorted(covered)})")
    out.append(r)
    r = RuleResult("C04.c", "keyed decode sites pass the replay window of the same session as the key", floor=3)
    for s in [x for f in (t.fn("NetcodeServer::process_packet_internal"), t.fn("NetcodeClient::process_packet")) for x in decode_sites(t, f)]:
        if not keyed(t, s): continue
        r.site(s)
        key, win = t.arg(s, 2), t.arg(s, 3)
        if not (isinstance(win, tuple) and win[0] == "aggr" and win[2] == "Some"): r.bad(f"{s.fn.path}|window-none", s, "keyed decode without replay window"); continue
        kroot = re.sub(r"\.(receive_key|connect_token\.server_to_client_key)\}?$", "", fmt(key[3][0]).lstrip("&*"))
        wroot = re.sub(r"\.replay_protection\}?$", "", fmt(win[3][0]).lstrip("&*"))
        if kroot != wroot: r.bad(f"{s.fn.path}|root", s, f"key and window belong to different objects: {kroot[:50]} vs {wroot[:50]}")
    out.append(r)
    r = RuleResult("C04.d", "payload surfaces only for a keyed decode of kind Payload in Connected state, attributed to the same connection", floor=1)
    p = t.fn("NetcodeServer::process_packet_internal")
    for s in t.aggrs("server::ServerResult", "Payload", p):
        r.site(s)
        cid = fmt(t.field_of_aggr(s, "client_id")); pay = fmt(t.field_of_aggr(s, "payload"))
        if "find_client_mut_by_addr" not in cid: r.bad("attrib", s, "payload not attributed to the connection found by source address")
        if "as Payload" not in pay or "decode" not in pay: r.bad("src", s, "surfaced bytes are not the decoded Payload packet's")
        st = [br for br in t.branches(p) if br["kind"] == "discr" and fmt(br["on"]).endswith(".state")]
        by_switch = any(t.edge_dominates(p, (br["bb"], br["targets"].get(2)), s.bb) for br in st if 2 in br["targets"])
        by_eq = any(t.edge_dominates(p, e, s.bb) for e, br in rel_edges(t, p, lambda a: fmt(strip(a)).endswith(".state"), lambda b: "ConnectionState::Connected" in fmt(b), "Eq"))
        if not (by_switch or by_eq): r.bad("state", s, "payload surfaced outside ConnectionState::Connected")
    c = t.fn("NetcodeClient::process_packet")
    for s in [x for x in t.aggrs("std::option::Option", "Some", c) if x.node["place"]["local"] == 0]:
        r.site(s)
        if "as Payload" not in fmt(t.stored(s)): r.bad("client-src", s, "client surfaces something else than the decoded payload")
    out.append(r)
    a = t.fn("ReplayProtection::advance_sequence")
    r = RuleResult("C04.g", "every accepted sequence is recorded in the window: advance_sequence stores the sequence into received_packet[seq % N] on every path; most_recent only grows", floor=2)
    rec = [s for s in t.sites(a) if s.node["k"] == "assign" and s.node["place"]["proj"] and s.node["place"]["proj"][-1]["k"] in ("index", "cindex") and "received_packet" in fmt(t.place(s))]
    for s in rec:
        r.site(s, fmt(t.place(s))[-50:])
        if fmt(strip(t.stored(s))) != "P2(sequence)": r.bad("value", s, f"window slot set to {fmt(t.stored(s))[:40]}, not the accepted sequence")
        if not re.search(r"\[\(P2\(sequence\) Rem 256\)\]$|\[\(P2\(sequence\) Rem \d+\)\]$", fmt(t.place(s))): r.bad("slot", s, f"window slot index is {fmt(t.place(s))[-40:]}, not sequence % window size")
    ok, w = must_pass(a, (0, -1), {pos(s) for s in rec})
    if not ok: r.bad("skipped", Site(a, 0, 0, a.blocks[0]["term"]), "advance_sequence can return without recording the sequence in received_packet: a packet accepted behind the newest one could be accepted again")
    for s in t.stores("ReplayProtection", "most_recent_sequence", a):
        r.site(s)
        g = list(t.find_cmp(a, lambda x: fmt(strip(x)) == "P2(sequence)", lambda y: t.is_field(y, "most_recent_sequence"), None))
        implies_ge = any((op in ("Gt", "Ge") and t.edge_dominates(a, te, s.bb)) or (op in ("Lt", "Le") and t.edge_dominates(a, fe, s.bb)) for br, op, te, fe in g)
        # any spelling of the same fact (`match sequence.cmp(&newest) { Greater => .. }`, negations, materialised booleans)
        is_seq = lambda x: fmt(strip(x)) == "P2(sequence)"; is_mr = lambda y: t.is_field(y, "most_recent_sequence") or fmt(strip(y)).endswith(".most_recent_sequence")
        implies_ge = implies_ge or any(t.edge_dominates(a, e, s.bb) for rel_ in ("Gt", "Ge") for e, _br in rel_edges(t, a, is_seq, is_mr, rel_))
        is_max = isinstance(strip(t.stored(s)), tuple) and strip(t.stored(s))[0] == "call" and method_of(strip(t.stored(s))[1]) == "max" and "most_recent_sequence" in fmt(t.stored(s)) and "P2(sequence)" in fmt(t.stored(s))
        if is_max: continue
        if fmt(strip(t.stored(s))) != "P2(sequence)" or not implies_ge: r.bad("recent", s, "most_recent_sequence can decrease (store not behind a test implying sequence >= most_recent_sequence)")
    ar = t.fn("ReplayProtection::already_received")
    idx = [fmt(o) for br in t.branches(ar) if br["kind"] == "bool" for o in [br["raw"]] if "received_packet" in fmt(o)]
    for i_ in idx:
        if "(P2(sequence) Rem 256)" not in i_: r.bad("slot-read", None, f"already_received reads another slot than sequence % 256: {i_[:80]}")
    out.append(r)
    # window membership: already_received(seq) is true exactly for `seq + N <= most_recent` (too old) or `slot[seq % N] >= seq` (seen), with an
    # EMPTY slot meaning "not seen". Every value the function returns is justified by one of these tests on the right operands.
    r = RuleResult("C04.i", "replay window membership: `true` only behind `seq + 256 <= most_recent` or `slot[seq % 256] >= seq`; `false` only behind an EMPTY slot or `slot < seq`", floor=2)
    ar = t.fn("ReplayProtection::already_received")
    def is_slot(x): return "received_packet[(P2(sequence) Rem 256)]" in fmt(x)
    def is_seq(x): return fmt(strip(x)) == "P2(sequence)"
    def is_recent(x): return fmt(strip(x)).endswith("most_recent_sequence")
    def is_old(x): return "P2(sequence)" in fmt(x) and "256" in fmt(x) and ("saturating_add" in fmt(x) or "AddWithOverflow" in fmt(x) or "checked_add" in fmt(x))
    def classify(op, a, b):
        """meaning of `a op b` being TRUE: 'old' / 'seen' / 'not-old' / 'not-seen' / 'empty' / 'not-empty' / None"""
        for (x, y, o) in ((a, b, op), (b, a, MIRROR[op])):
            if is_old(x) and is_recent(y): return {"Le": "old", "Gt": "not-old"}.get(o)
            if is_slot(x) and is_seq(y): return {"Ge": "seen", "Lt": "not-seen"}.get(o)
            if is_slot(x) and const_eval(y) == (1 << 64) - 1: return {"Eq": "empty", "Ne": "not-empty"}.get(o)
        return None
    NEG = {"old": "not-old", "not-old": "old", "seen": "not-seen", "not-seen": "seen", "empty": "not-empty", "not-empty": "empty"}
    facts_edges = []
    for br in t.branches(ar):
        if br["kind"] == "bool" and br["cond"][0] == "cmp":
            m = classify(br["cond"][1], br["cond"][2], br["cond"][3])
            r.site(Site(ar, br["bb"], 0, ar.blocks[br["bb"]]["term"]), f"{m}: {fmt(br['raw'])[:70]}")
            if m: facts_edges += [(br["t_edge"], m), (br["f_edge"], NEG[m])]
            else: r.bad(f"window-test|{br['cond'][1]}|{fmt(br['cond'][2])[-30:]}|{fmt(br['cond'][3])[-30:]}", Site(ar, br["bb"], 0, ar.blocks[br["bb"]]["term"]), f"unrecognised window test {fmt(br['raw'])[:90]}: membership must be decided by `seq + 256 <= most_recent`, `slot == EMPTY`, `slot >= seq` only")
    EMPTYV = (1 << 64) - 1
    for br in t.branches(ar):
        if br["kind"] == "int" and is_slot(br["on"]) and EMPTYV in br["targets"]:
            r.site(Site(ar, br["bb"], 0, ar.blocks[br["bb"]]["term"]), "match slot { EMPTY => .. }")
            facts_edges.append(((br["bb"], br["targets"][EMPTYV]), "empty"))
            if len(br["targets"]) == 1: facts_edges.append(((br["bb"], br["otherwise"]), "not-empty"))
    def known_at(bb): return {m for e, m in facts_edges if t.edge_dominates(ar, e, bb)}
    for b in ar.blocks:
        if b["i"] not in ar.reach: continue
        for k, st in enumerate(b["stmts"]):
            if st["k"] == "assign" and st["place"]["local"] == 0 and not st["place"]["proj"]:
                o = ar._origin_of_def(st, 0); site = Site(ar, b["i"], k, st); kn = known_at(b["i"])
                neg = False
                while isinstance(o, tuple) and o[0] == "un" and o[1] == "Not": neg = not neg; o = o[2]
                if isinstance(o, tuple) and o[0] == "const":
                    val = bool(o[1]) != neg
                    if val and not ({"old", "seen"} & kn): r.bad("true-unjustified", site, f"already_received returns true without `seq + 256 <= most_recent` or `slot[seq % 256] >= seq` having been established (known here: {sorted(kn)}): genuine packets inside the window are rejected")
                    if not val and not ({"empty", "not-seen"} & kn): r.bad("false-unjustified", site, f"already_received returns false without an EMPTY slot or `slot < seq` having been established (known: {sorted(kn)}): a replayed packet can be accepted")
                    if not val and "not-old" not in kn: r.bad("false-old", site, "already_received can return false for a sequence more than 256 behind the newest one")
                elif isinstance(o, tuple) and o[0] == "bin" and o[1] in MIRROR:
                    m = classify(o[1], o[2], o[3])
                    if neg and m: m = NEG[m]
                    if m not in ("seen", "old"): r.bad("expr-unjustified", site, f"already_received returns the value of {fmt(o)[:80]}, which is not one of the window tests")
                    elif m == "seen" and not ({"not-empty"} & kn or True): pass
                else:
                    r.bad("ret-shape", site, f"already_received returns {fmt(o)[:60]}: not a window test")
    out.append(r)
    r, d = obl_rule("C04.f", "OBL: replay window arithmetic cannot overflow or index out of range", "netcode", floor=1, select=lambda s_: "replay_protection" in s_["fn"])
    out.append(r)
    out.append(shared.aad_rule(t, "C04.e", "packet"))
    out.append(shared.aead_open_rule(t, "C04.h"))
    out.append(W3.key_distinct(t, "C04.j"))
    rr_ = RuleResult("C04.k", "a sender never seals two packets with one sequence number: the receiver's replay window would refuse the second, genuine, packet (shared with C17.c2)", floor=1)
    import rules.C17 as _SRC
    for x_ in _SRC.rules(t):
        if x_.id == "C17.c2":
            rr_.sites += x_.sites
            for v_ in x_.violations: rr_.bad(v_.key, v_.site, v_.msg)
    out.append(rr_)
    return out

_rules_C04_sw = rules
def rules(t, *a, **kw):
    import rules.wave5 as W5
    out = _rules_C04_sw(t, *a, **kw)
    out.append(W5.size_window(t, "C04.l"))
    return out


_rules_C04_bw = rules
def rules(t, *a, **kw):
    import rules.bytewidth as BW
    out = _rules_C04_bw(t, *a, **kw)
    out.append(BW.byte_width_rule(t, "C04.m"))
    return out
