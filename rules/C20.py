# C20 UDP netcode transport keeps message and handshake layers in lock-step — glue structure only
import re
from sa.rules import *
import rules.wave3 as W3

def rules(t):
    out = []
    r = RuleResult("C20.a", "every ServerResult produced in the transport is handed to handle_server_result", floor=4)
    for f in t.fns(r"^renet_netcode::server::"):
        for c in t.sites(f):
            n = c.node
            if n["k"] != "call": continue
            dt = f.locals[n["dest"]["local"]]["ty"] if not n["dest"]["proj"] else None
            if not dt or dt.get("k") != "adt" or not dt["path"].endswith("ServerResult"): continue
            r.site(c, short(callee_name(n)))
            me = f.call_origin(n)
            used = [h for h in t.calls(r"handle_server_result$", f) if norm(t.arg(h, 0)) == norm(me)]
            if not used: r.bad(f"{f.path}|{method_of(callee_name(n))}", c, f"result of {short(callee_name(n))} is dropped: connect/disconnect/payload would not reach the message layer")
    out.append(r)
    r = RuleResult("C20.b", "handle_server_result maps each netcode result to its message-layer action with the same client id", floor=5)
    h = t.fn("renet_netcode::server::handle_server_result")
    names = t.variants_of("renetcode::server::ServerResult")
    want = {"ClientConnected": r"RenetServer::add_connection$", "ClientDisconnected": r"RenetServer::remove_connection$", "Payload": r"RenetServer::process_packet_from$"}
    main = sorted([br for br in t.branches(h) if br["kind"] == "discr" and "P1(server_result)" in fmt(br["on"])], key=lambda b_: -len(b_["targets"]))[:1]
    for br in main:
        for v, tgt in br["targets"].items():
            nm = names.get(v); r.site(Site(h, tgt, 0, h.blocks[tgt]["term"]), nm or "")
            others = [x for w, x in br["targets"].items() if w != v] + [br["otherwise"]]
            reg = h.reachable_from([tgt]) - set().union(*[h.reachable_from([o]) for o in others if o != tgt])
            if nm in want:
                cs = [c for c in t.calls(want[nm], h) if c.bb in reg]
                if not cs: r.bad(f"arm|{nm}", None, f"{nm} is not forwarded to {want[nm]}")
                else:
                    idarg = fmt(t.arg(cs[0], 2 if nm == "Payload" else 1))
                    if f"as {nm}.client_id" not in idarg and f"as {nm}.0" not in idarg and "client_id" not in idarg: r.bad(f"arm|{nm}|id", cs[0], f"{nm}: forwarded id is {idarg[:50]}")
            for wn, pat in want.items():
                if wn != nm and [c for c in t.calls(pat, h) if c.bb in reg]: r.bad(f"arm|{nm}|extra|{wn}", None, f"{nm} arm also performs the action of {wn}")
        missing = [n for n in want if n not in [names.get(v) for v in br["targets"]]]
        for m in missing: r.bad(f"arm-missing|{m}", None, f"no arm for {m}")
    out.append(r)
    r = RuleResult("C20.c", "disconnects are pushed down (renet -> netcode) and up (netcode -> renet); status is mirrored", floor=5)
    u = t.fn("NetcodeServerTransport::update")
    d = [c for c in t.calls(r"NetcodeServer::disconnect$", u)]
    for c in d:
        r.site(c)
        if "disconnections_id" not in fmt(t.arg(c, 1)): r.bad("down-src", c, "server transport does not disconnect the ids reported by RenetServer::disconnections_id()")
    if not d: r.bad("down-missing", None, "renet-level disconnects are not pushed to the netcode server")
    uc = [c for c in t.calls(r"NetcodeServer::update_client$", u)]
    for c in uc:
        r.site(c)
        if "clients_id" not in fmt(t.arg(c, 1)): r.bad("tick-src", c, "update_client not driven by netcode clients_id()")
    if not uc: r.bad("tick-missing", None, "netcode clients are not ticked (timeouts/keep-alives)")
    cu = t.fn("NetcodeClientTransport::update")
    up = [c for c in t.calls(r"RenetClient::disconnect_due_to_transport$", cu)]
    for c in up: r.site(c)
    if not up: r.bad("up-missing", None, "netcode-level disconnect is not pushed to the RenetClient")
    # push-up on every path: once the netcode client reports a disconnect reason, the RenetClient is marked disconnected before update returns
    for c in t.calls(r"NetcodeClient::disconnect_reason$", cu):
        e = t.result_edges(cu, c)
        if not e: continue
        start = (e[0][0], len(cu.blocks[e[0][0]]["stmts"]))
        ok, w = must_pass(cu, start, {pos(x) for x in up}, avoid_edges={e[1]} if e[0][1] != e[1][1] else set())
        if not ok: r.bad("up-conditional", c, "the netcode layer reports a disconnect but on some path the RenetClient is not marked disconnected (disconnect_due_to_transport is skipped): the message layer stays connecting/connected while the session is over")
    dn = [c for c in t.calls(r"NetcodeClient::disconnect$", cu)]
    for c in dn: r.site(c)
    if not dn: r.bad("client-down-missing", None, "RenetClient disconnect is not pushed to the netcode client")
    mir = [c for c in t.calls(r"RenetClient::set_connected$|RenetClient::set_connecting$", cu)]
    for c in mir: r.site(c)
    if len(mir) < 2: r.bad("mirror", None, "connection status is not mirrored into the RenetClient")
    out.append(r)
    r = RuleResult("C20.d", "payloads cross the layers unchanged: netcode payload -> process_packet; get_packets_to_send -> generate_payload_packet", floor=4)
    for c in t.calls(r"RenetClient::process_packet$", cu):
        r.site(c)
        if "NetcodeClient::process_packet" not in fmt(t.arg(c, 1)): r.bad("client-in", c, "client feeds something else than the netcode payload into the message layer")
    sp = t.fn("NetcodeClientTransport::send_packets")
    for c in t.calls(r"NetcodeClient::generate_payload_packet$", sp):
        r.site(c)
        if "get_packets_to_send" not in fmt(t.arg(c, 1)): r.bad("client-out", c, "client seals something else than the message layer's packets")
    ss = t.fn("NetcodeServerTransport::send_packets")
    for c in t.calls(r"NetcodeServer::generate_payload_packet$", ss):
        r.site(c)
        if "get_packets_to_send" not in fmt(t.arg(c, 2)): r.bad("server-out", c, "server seals something else than the message layer's packets")
        if fmt(t.arg(c, 1)) not in fmt(t.arg(c, 2)): r.bad("server-out-id", c, "packets of one client are sealed for another id")
    for c in t.calls(r"RenetServer::process_packet_from$", t.fn("renet_netcode::server::handle_server_result")): r.site(c)
    out.append(r)
    r = RuleResult("C20.e", "client transport: every datagram the netcode client produces (disconnect, payload, handshake/keep-alive) is handed to the socket on every path; disconnect_all walks the netcode server's own client table", floor=5)
    import rules.C09 as C09
    for f in t.fns(r"^renet_netcode::client::NetcodeClientTransport::(update|send_packets|disconnect)$"):
        sends = list(t.calls(r"UdpSocket::send_to$", f))
        for c in t.calls(r"NetcodeClient::(disconnect|generate_payload_packet|update)$", f):
            r.site(c, short(callee_name(c.node)))
            me = fmt(f.call_origin(c.node))
            mine = [x for x in sends if me[:60] in fmt(t.arg(x, 1)) or me[:60] in fmt(t.arg(x, 2))]
            e = t.result_edges(f, c)
            if not e: r.bad(f"{f.path}|{method_of(callee_name(c.node))}|unchecked", c, "result of the netcode call is not matched"); continue
            start = (e[0][0], len(f.blocks[e[0][0]]["stmts"]))
            avoid = {e[1]} if e[0][1] != e[1][1] else set()
            ok, w = must_pass(f, start, {pos(x) for x in mine}, avoid_edges=avoid)
            if not ok: r.bad(f"{f.path}|{method_of(callee_name(c.node))}|not-sent", c, f"the datagram produced by {short(callee_name(c.node))} is not sent on every path: the peer never learns (e.g. a disconnect during the handshake leaves a half-open session on the server)")
    da = t.fn("NetcodeServerTransport::disconnect_all")
    for c in t.calls(r"NetcodeServer::disconnect$", da):
        r.site(c, "disconnect_all")
        if not re.search(r"NetcodeServer::clients_id\(&\*?P1\(self\)\.netcode_server\)", fmt(t.arg(c, 1))): r.bad("disconnect_all|src", c, f"disconnect_all disconnects the ids of {fmt(t.arg(c,1))[:80]}, not of the netcode server's own client table: sessions the message layer already dropped stay open")
    if not list(t.calls(r"NetcodeServer::disconnect$", da)): r.bad("disconnect_all|missing", None, "disconnect_all does not disconnect netcode sessions")
    out.append(r)
    import rules.shared as shared
    out.append(shared.slots_match_limit(t, "C20.f"))
    rr_ = RuleResult("C20.g", "one netcode session per client id: the slot fill is behind the already-connected test on the id (shared with C10.a1 / C05.c3)", floor=1)
    import rules.C10 as _SRC
    for x_ in _SRC.rules(t):
        if x_.id == "C10.a1":
            rr_.sites += x_.sites
            for v_ in x_.violations: rr_.bad(v_.key, v_.site, v_.msg)
    out.append(rr_)
    out.append(W3.client_state_machine(t, "C20.h", "connected"))
    return out

_rules_c20_w5 = rules
def rules(t):
    import rules.shared as shared
    out = _rules_c20_w5(t)
    shared.share(t, out, "C20.j", "one damaged or forged datagram does not cut a healthy session off: advance_sequence only behind the decrypt Ok-edge", "C04", ("C04.a2",))
    return out

_rules_c20_w5b = rules
def rules(t):
    import rules.wave5 as W5
    out = _rules_c20_w5b(t)
    out.append(W5.confirm_kinds(t, "C20.i"))
    return out

_rules_C20_sw = rules
def rules(t, *a, **kw):
    import rules.wave5 as W5
    out = _rules_C20_sw(t, *a, **kw)
    out.append(W5.size_window(t, "C20.k"))
    return out

_rules_C20_w6 = rules
def rules(t, *a, **kw):
    import rules.wave6 as W6
    out = _rules_C20_w6(t, *a, **kw)
    out.append(W6.client_refresh_total(t, "C20.l"))
    return out


def disconnect_emits(t, rid):
    """DISCONNECT => DATAGRAM: a disconnect decided by the application ends the session on the peer too only if the peer is told: every path
    through NetcodeClient::disconnect (which makes the client Disconnected whatever state it was in - the server may already hold a session
    while the client is still waiting for the first keep-alive) seals a Disconnect packet; the server's disconnect(id) does so for every
    client it removes from the table."""
    r = RuleResult(rid, "every path through NetcodeClient::disconnect seals a Disconnect packet (also before the handshake completed); NetcodeServer::disconnect seals one for the client it removes", floor=0)
    f = t.fn("NetcodeClient::disconnect")
    enc = [c for c in t.calls(r"Packet.*::encode$", f) if "Disconnect" in fmt(t.arg(c, 0))]
    if not enc: r.samples.append("NetcodeClient::disconnect: encode of Packet::Disconnect not resolved: not decided")
    else:
        r.site(enc[0], "client")
        ok, w = must_pass(f, (0, -1), {pos(x) for x in enc})
        if not ok: r.bad("client|no-datagram", enc[0], f"NetcodeClient::disconnect can return (through bb{w}) without sealing a Disconnect packet: the client is Disconnected, the server keeps the session (connected in both server tables, no ClientDisconnected event) until its timeout")
    g = t.fn("NetcodeServer::disconnect")
    enc = [c for c in t.calls(r"Packet.*::encode$", g) if "Disconnect" in fmt(t.arg(c, 0))]
    takes = [c for c in t.calls(r"Option.*::take$", g) if "clients" in fmt(t.arg(c, 0))]
    for c in takes:
        r.site(c, "server")
        ok, w = must_pass(g, pos(c), {pos(x) for x in enc})
        if enc and not ok: r.bad("server|no-datagram", c, f"NetcodeServer::disconnect removes a client and can return (through bb{w}) without sealing a Disconnect packet for it")
    return r


_rules_C20_w8 = rules
def rules(t, *a, **kw):
    out = _rules_C20_w8(t, *a, **kw)
    out.append(disconnect_emits(t, "C20.m"))
    return out


def timeout_always_evaluated(t, rid):
    """TIMEOUT-TOTAL: a session whose peer went silent ends on both sides only if the server looks at the clock on *every* update: in
    NetcodeServer::update_client every path on which the slot holds a client reaches the timeout test (`timeout_seconds > 0 && last_packet_received_time
    + timeout < current_time`) and the test of the Disconnected state that removes the client - no earlier exit (e.g. "no keep-alive due")."""
    r = RuleResult(rid, "NetcodeServer::update_client evaluates the timeout and the Disconnected clean-up on every call for an occupied slot (no early exit before them)", floor=0)
    f = t.fn("NetcodeServer::update_client")
    somes = []
    for br in t.branches(f):
        if br["kind"] == "discr" and re.match(r"^\**P1\(self\)\.clients\[", fmt(br["on"])):
            tg = [x for v, x in br["targets"].items() if v == 1]
            if tg: somes.append(tg[0])
    tests = []
    for br in t.branches(f):
        if br["kind"] != "bool" or br["cond"][0] != "cmp": continue
        txt = fmt(br["cond"][2]) + " " + fmt(br["cond"][3])
        if "clients[" not in txt: continue
        if "timeout_seconds" in txt and "last_packet_received_time" not in txt: tests.append(("timeout", br))
        elif "last_packet_received_time" in txt: tests.append(("timeout", br))
        elif ".state" in txt: tests.append(("state", br))
    kinds = {k for k, _ in tests}
    if not somes or kinds != {"timeout", "state"}:
        r.samples.append(f"not evaluated: anchors not resolved (occupied-slot edges {len(somes)}, tests {sorted(kinds)})"); return r
    # the slot being emptied counts as the clean-up having been reached (`if timed_out || state == Disconnected` skips the state test when the
    # timeout already decided)
    clears = set()
    for x in t.sites(f):
        n = x.node
        if n["k"] == "assign" and n["place"]["proj"] and "clients[" in fmt(t.place(x)) and fmt(t.stored(x)).endswith("Option::None{}"): clears.add(pos(x))
        elif n["k"] == "call" and n["args"] and method_of(callee_name(n)) == "take" and "clients[" in fmt(t.arg(x, 0)): clears.add(pos(x))
    for kind in ("timeout", "state"):
        tg = {(br["bb"], len(f.blocks[br["bb"]]["stmts"])) for k, br in tests if k == kind} | (clears if kind == "state" else set())
        for sb in somes:
            r.sites += 1
            ok, w = must_pass(f, (sb, -1), tg)
            if not ok:
                site = Site(f, w, 0, f.blocks[w]["term"])
                r.bad(f"skips|{kind}", site, f"NetcodeServer::update_client can return (through bb{w}) for a connected client without evaluating the {'timeout' if kind == 'timeout' else 'Disconnected clean-up'}: a client that went silent while the application keeps sending to it is never timed out - the session stays in both server tables forever while the client ended its side")
    return r


_rules_C20_w9 = rules
def rules(t, *a, **kw):
    out = _rules_C20_w9(t, *a, **kw)
    out.append(timeout_always_evaluated(t, "C20.n"))
    return out
