import os, re
from sa.rules import *
from sa import obl as OBL

HERE = os.path.dirname(os.path.dirname(os.path.abspath(__file__)))

class FakeSite:
    def __init__(self, file, line): self.file, self.line = file, line
    def loc(self): return f"{self.file}:{self.line}"

SKIP = [0]     # > 0 while a property module is evaluated only to share one of its structural rules with another property (rules.shared.module_rules)

def obl_rule(rid, descr, scope, floor, select=lambda s: True):
    if os.environ.get("VERIF_DEV_SKIP_OBL") or SKIP[0]:   # development only (tools/seedmatrix.py fast mode): never set by ./check
        r = RuleResult(rid, descr + " [SKIPPED in dev mode]", floor=0); r.counts = {}
        return r, dict(sites=[], wall_s=0)
    facts_dir = os.environ.get("FACTS")
    d = OBL.run_scope(facts_dir, scope)
    vet = OBL.load_vetted(os.path.join(HERE, "tables", "vetted.jsonl"))
    r = RuleResult(rid, descr, floor=floor)
    n_ok = n_vet = n_int = 0
    vet_c = {v.get("ckey") for v in vet.values() if v.get("ckey")} | {v.get("skey") for v in vet.values() if v.get("skey")}
    vet_g = {v.get("gkey") for v in vet.values() if v.get("gkey")}      # kind|subject, any function
    vet_f = {v.get("fkey") for v in vet.values() if v.get("fkey")}      # function|kind
    for s in d["sites"]:
        if not select(s): continue
        r.sites += 1
        if s["ok"]: n_ok += 1; continue
        coarse_ok = not s["kind"].startswith("panic")     # an explicit panic is vetted by its message only
        sk = s.get("skey") or ""
        gk = "|".join(sk.split("|")[1:]) if sk.count("|") >= 2 else None
        fk = "|".join(sk.split("|")[:2]) if sk.count("|") >= 2 else None
        if s["key"] in vet or (coarse_ok and (s.get("ckey") in vet_c or s.get("skey") in vet_c or gk in vet_g or fk in vet_f)): n_vet += 1; continue
        if not s.get("tainted", True):
            # not input-dependent: an invariant of the library's own state (map membership, own counters, loop indices over own containers).
            # C06/C07 quantify over the bytes handed in; such operations are counted as "not decided" instead of reported.
            n_int += 1; continue
        r.bad(s.get("ckey") or s["key"], FakeSite(s["file"], s["line"]), f"undischarged input-dependent obligation [{s['kind']}] {s['descr'][:140]} (operands: {s['key'].split('|', 2)[-1][:120]})")
    r.samples.append(f"obligations {r.sites}: discharged by the engine {n_ok}, vetted {n_vet}, internal (not input-dependent, not decided) {n_int}, open {len(r.violations)}; fixpoint {d['wall_s']} s")
    r.counts = dict(obligations=r.sites, discharged=n_ok, vetted=n_vet, internal=n_int)
    return r, d
