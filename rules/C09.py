# C09 Channel memory budgets: never exceeded, never leaked, fully returned after drain — structural clauses
import re
from sa.rules import *
from sa.rules import MIRROR, NEGATE

SR, SU = "channel::reliable::SendChannelReliable", "channel::unreliable::SendChannelUnreliable"
RR, RU = "channel::reliable::ReceiveChannelReliable", "channel::unreliable::ReceiveChannelUnreliable"
PAIRS = [(SR, ["unacked_messages"]), (SU, ["unreliable_messages"]), (RR, ["messages", "slices"]), (RU, ["messages", "slices"])]
GROWM = {"insert", "push_back", "push", "or_insert_with"}
SHRINKM = {"remove", "pop_front", "pop_first", "pop", "drain"}

def counter_stores(t, adt):
    """stores to memory_usage_bytes as (site, kind, amount): the stored value is decomposed as `usage (+|-) a (+|-) b ..`, one entry per term
    (`usage = usage - reserved + len` is a release of `reserved` and an addition of `len` in one statement)"""
    def terms(o, sign, out):
        o = strip(o)
        if isinstance(o, tuple) and o[0] == "field" and str(o[2]) == "0" and isinstance(strip(o[1]), tuple) and strip(o[1])[0] == "bin": o = strip(o[1])
        if isinstance(o, tuple) and o[0] == "bin" and (o[1].startswith("Add") or o[1].startswith("Sub")):
            terms(o[2], sign, out)
            rs = sign if o[1].startswith("Add") else -sign
            r_ = strip(o[3])
            # a parenthesised sub-expression on the right keeps its own structure only if it mentions the counter; otherwise it is one amount
            if isinstance(r_, tuple) and "memory_usage_bytes" in fmt(r_): terms(o[3], rs, out)
            else: out.append((rs, o[3]))
        else:
            out.append((sign, o))
        return out
    for s in t.stores(adt, "memory_usage_bytes"):
        o = t.stored(s)
        ts = terms(o, 1, [])
        base = [x for sg, x in ts if fmt(strip(x)).endswith("memory_usage_bytes")]
        rest = [(sg, x) for sg, x in ts if not fmt(strip(x)).endswith("memory_usage_bytes")]
        if not base or not rest:
            yield s, "init", None
            continue
        for sg, x in rest: yield s, ("add" if sg > 0 else "sub"), x

def vacant_insert_sites(t, f, container):
    """VacantEntry::insert on an entry obtained from `container`"""
    for c in t.calls(r"VacantEntry.*::insert$", f):
        if t.mentions_field(t.arg(c, 0), container): yield c

def rules(t):
    out = []
    r = RuleResult("C09.a", "PAIR: container growth/shrink and memory_usage_bytes move together; the released amount is the removed element's own size", floor=17)
    for adt, containers in PAIRS:
        fns = {s.fn.path: s.fn for s, _, _ in counter_stores(t, adt)}
        stores = list(counter_stores(t, adt))
        used = set()
        for cont in containers:
            grows = [g for g in t.effects(cont, GROWM) if (adt.split("::")[-1] in g.fn.path)] + [g for f in fns.values() for g in vacant_insert_sites(t, f, cont)]
            shrinks = [g for g in t.effects(cont, SHRINKM) if (adt.split("::")[-1] in g.fn.path)]
            for g in grows:
                f = g.fn
                cand = [(s, a) for s, k, a in stores if s.fn is f and k == "add" and (f.dominates(s.bb, g.bb) or f.dominates(g.bb, s.bb))]
                if method_of(callee_name(g.node)) == "or_insert_with":
                    # grow-if-absent: the reservation sits behind `!container.contains_key(key)` and flows into the or_insert_with
                    for s, k, a in stores:
                        if s.fn is f and k == "add" and g.bb in f.reachable_from([s.bb]):
                            if any(t.rooted_at_field(br["cond"][2][0], cont) and t.edge_dominates(f, br["f_edge"], s.bb) for br in t.find_callcond(f, r"::contains_key$")): cand.append((s, a))
                r.site(g, f"grow {cont}")
                if not cand: r.bad(f"{f.path}|grow|{cont}", g, f"{cont} grows without memory_usage_bytes += size"); continue
                for s, a in cand: used.add((s.fn.path, s.bb, s.idx))
            for g in shrinks:
                f = g.fn
                cand = [(s, a) for s, k, a in stores if s.fn is f and k == "sub" and (f.dominates(s.bb, g.bb) or f.dominates(g.bb, s.bb))]
                r.site(g, f"shrink {cont}")
                if not cand:
                    # the release sits behind a merge of several removal arms (`let m = match order { A => take_a(..), B => take_b(..) }?; usage -= m.len()`):
                    # every path from this removal's Some/Ok edge to the return passes a release (the same test as C09.f)
                    subs_f = [(s_, a_) for s_, k_, a_ in stores if s_.fn is f and k_ == "sub"]
                    e_ = t.result_edges(f, g)
                    start_ = (e_[0][0], len(f.blocks[e_[0][0]]["stmts"])) if e_ else pos(g)
                    avoid_ = {(e_[1][0], e_[1][1])} if e_ and e_[0][1] != e_[1][1] else set()
                    if subs_f and must_pass(f, start_, {pos(s_) for s_, _ in subs_f} | err_exits(f), avoid_edges=avoid_)[0]:
                        for s_, _ in subs_f: used.add((s_.fn.path, s_.bb, s_.idx))
                        continue
                if not cand: r.bad(f"{f.path}|shrink|{cont}", g, f"{cont} shrinks without memory_usage_bytes -= size"); continue
                for s, a in cand:
                    used.add((s.fn.path, s.bb, s.idx))
                    if a is not None and not t.mentions_field(a, cont) and cont in ("slices", "messages", "unacked_messages", "unreliable_messages"):
                        # amount must come from the stored element, not from the current call's parameters
                        if t.mentions_param(a) and not any(t.mentions_field(a, c2) for c2 in containers):
                            r.bad(f"{f.path}|release-from-param|{cont}", s, f"released amount is taken from the incoming packet, not from the stored element: {fmt(a)[:70]}")
        for s, k, a in stores:
            if k == "init": continue
            r.site(s, k)
            if (s.fn.path, s.bb, s.idx) not in used: r.bad(f"{s.fn.path}|unpaired|{k}", s, f"memory_usage_bytes {k} not paired with a container change: {fmt(a)[:60] if a else ''}")
    out.append(r)

    r = RuleResult("C09.b", "every increase of memory_usage_bytes is behind `usage + x > max -> refuse` on the same x", floor=7)
    for adt, _ in PAIRS:
        for s, k, a in counter_stores(t, adt):
            if k != "add": continue
            f = s.fn
            # exempt: exact size re-added right after releasing the reservation (re-size pair)
            resub = [x for x, k2, a2 in counter_stores(t, adt) if x.fn is f and k2 == "sub" and f.dominates(x.bb, s.bb) and a2 is not None and "num_slices" in fmt(a2)]
            if resub and "SliceConstructor::process_slice" in fmt(a): continue
            r.site(s)
            ok = False
            def usage_plus(x):
                xs = strip(x)
                if not (t.mentions_field(x, "memory_usage_bytes") and "AddWithOverflow" in fmt(x)): return False
                if a is None: return True
                if not (isinstance(xs, tuple) and xs[0] == "field" and isinstance(xs[1], tuple) and xs[1][0] == "bin"): return False
                l_, r_ = xs[1][2], xs[1][3]     # addition commutes: `usage + x` or `x + usage`
                return (norm(r_) == norm(a) and "memory_usage_bytes" in fmt(l_)) or (norm(l_) == norm(a) and "memory_usage_bytes" in fmt(r_))
            # the store lies on an edge where `usage + x <= max` is known (however the test is written: `> max -> refuse`, `<= max -> accept`, negations)
            for e, br in rel_edges(t, f, usage_plus, lambda y: t.is_field(y, "max_memory_usage_bytes"), "Le"):
                if t.edge_dominates(f, e, s.bb): ok = True
            if not ok: r.bad(f"{f.path}|unguarded|{fmt(a)[:40] if a else ''}", s, "memory_usage_bytes increased without the budget test on the same amount")
    out.append(r)

    r = RuleResult("C09.c", "SIBLING: process_slice consults every duplicate-detection store that process_message consults, before reserving", floor=1)
    pm, ps = t.fn("ReceiveChannelReliable::process_message"), t.fn("ReceiveChannelReliable::process_slice")
    def consulted(f, site_bbs):
        got = set()
        unordered_targets = []
        names = t.variants_of("channel::reliable::ReliableOrder")
        for br in t.branches(f):
            if br["kind"] == "discr" and fmt(br["on"]).endswith("reliable_order"):
                for v, tgt in br["targets"].items():
                    if names.get(v) == "Unordered": unordered_targets.append(tgt)
                if "Unordered" not in [names.get(v) for v in br["targets"]]: unordered_targets.append(br["otherwise"])
        for br in t.branches(f):
            if br["kind"] != "bool": continue
            txt = fmt(br["raw"])
            for store in ("oldest_pending_message_id", "received_messages", "messages"):
                if not re.search(r"\b" + store + r"\b", txt): continue
                if all(f.dominates(br["bb"], b) for b in site_bbs): got.add(store)
                elif store == "received_messages" and unordered_targets:
                    # variant-scoped store: the test must sit on every path through the Unordered arm
                    ok = True
                    for u in unordered_targets:
                        seen, st = set(), [u]
                        while st:
                            x = st.pop()
                            if x in seen or x == br["bb"]: continue
                            seen.add(x); st.extend(f.succ[x])
                        if any(b in seen for b in site_bbs): ok = False
                    if ok: got.add(store)
        for c in t.calls(r"BTreeMap.*::entry$", f):
            if t.mentions_field(t.arg(c, 0), "messages") and any(f.dominates(c.bb, b) for b in site_bbs): got.add("messages")
        return got
    grow_pm = [g.bb for g in t.effects("messages", {"insert"}, pm)] + [g.bb for g in vacant_insert_sites(t, pm, "messages")]
    need = set()
    for b in grow_pm: need |= consulted(pm, [b])
    reserve = [s.bb for s, k, a in counter_stores(t, RR) if s.fn is ps and k == "add"] + [g.bb for g in t.effects("slices", {"entry"}, ps)]
    have = consulted(ps, reserve) if reserve else set()
    r.sites = len(reserve)
    r.samples.append(f"process_message consults {sorted(need)}; process_slice consults {sorted(have)} before reserving")
    for m in sorted(need - have):
        r.bad(f"missing|{m}", Site(ps, reserve[0], 0, ps.blocks[reserve[0]]["term"]) if reserve else None, f"process_slice reserves reassembly memory without consulting `{m}` (process_message does): slices of an already received message create an entry that is never released")
    out.append(r)

    r = RuleResult("C09.d", "stale unreliable fragments: update() discards on every unreliable receive channel; 3 s predicate; both maps shrink with the same key", floor=1)
    u = t.fn("RenetClient::update")
    dc = []
    for g in fn_and_closures(t, u):
        for c in t.calls(r"discard_incomplete_old_slices$", g):
            dc.append(c); r.site(c)
            recv = fmt(t.arg(c, 0))
            if "{closure" in g.path:
                # `self.receive_unreliable_channels.values_mut().for_each(|channel| channel.discard_incomplete_old_slices(now))`: the receiver is the closure's
                # parameter, i.e. an element of what the adaptor iterates over
                tag = re.search(r"\{closure#\d+\}$", g.path).group(0)
                feeds = [x for x in t.sites(owner_fn(t, g)) if x.node["k"] == "call" and any(tag in fmt(y) for y in t.args(x)[1:])]
                recv = " ".join(fmt(t.arg(x, 0)) for x in feeds)
            if not ("receive_unreliable_channels" in recv and ("values_mut" in recv or "iter_mut" in recv)): r.bad("recv", c, "discard not applied to every unreliable receive channel")
    if not dc: r.bad("missing", None, "update() does not discard stale fragments")
    d = t.fn("ReceiveChannelUnreliable::discard_incomplete_old_slices")
    # the staleness predicate, however it is spelled: removal only on edges where `now - last >= H` holds (H a constant), i.e. not on `< H`
    is_age_ = lambda a: ("Duration" in fmt(a) and ("::sub(" in fmt(a) or " Sub " in fmt(a))) and "current_time" in fmt(a)
    any_ = lambda b: True
    stale_e = [e for e, br in rel_edges(t, d, is_age_, any_, "Ge")]
    fresh_e = [e for e, br in rel_edges(t, d, is_age_, any_, "Lt")]
    for g2 in fn_and_closures(t, d):
        if g2 is d: continue
        o0 = strip(resolved(t, g2.origin_of_local(0), g2)); neg_ = False
        while isinstance(o0, tuple) and o0[0] == "un" and o0[1] == "Not": neg_ = not neg_; o0 = strip(o0[2])
        c0 = t.norm_cond(o0)
        if c0[0] == "cmp" and (is_age_(c0[2]) or is_age_(c0[3])):
            op_ = c0[1] if is_age_(c0[2]) else MIRROR[c0[1]]
            if neg_: op_ = NEGATE[op_]
            r.site(Site(g2, 0, 0, g2.blocks[0]["term"]), "predicate closure"); stale_e.append(("closure", op_))
    for x in [br for e, br in rel_edges(t, d, is_age_, any_, "Ge")] + [br for e, br in rel_edges(t, d, is_age_, any_, "Lt")]: r.site(Site(d, x["bb"], 0, d.blocks[x["bb"]]["term"]), "staleness test")
    weird = [br for rel_ in ("Gt", "Le") for e, br in rel_edges(t, d, is_age_, any_, rel_) if not any(b2 is br for r2 in ("Ge", "Lt") for e2, b2 in rel_edges(t, d, is_age_, any_, r2))]
    if (not stale_e and not fresh_e) or weird or any(isinstance(e, tuple) and e and e[0] == "closure" and e[1] not in ("Ge", "Lt") for e in stale_e): r.bad("pred", None, "stale-fragment predicate changed (expected now - last >= 3 s)")
    # both maps shrink with the same key: a removal on one map is matched by a removal on the other in the same iteration (remove / remove_entry / pop_first)
    def shr(fld):
        out_ = [x for x in t.effects(fld, {"remove", "remove_entry", "pop_first"}, d)]
        out_ += [x for x in t.calls(r"OccupiedEntry.*::(remove|remove_entry)$", d) if fld in fmt(t.arg(x, 0))]
        return out_
    rs_, rt_ = shr("slices"), shr("slices_last_received")
    keyed = lambda xs: [fmt(t.arg(x, 1)) for x in xs if len(x.node["args"]) > 1]
    same_keys = bool(rs_) and bool(rt_) and (keyed(rs_) == keyed(rt_) or any(re.search(r"remove_entry|pop_first|OccupiedEntry", callee_name(x.node)) for x in rt_) and all(re.search(r"remove_entry\(|pop_first\(|first_entry\(", k_) for k_ in keyed(rs_)))
    if not same_keys: r.bad("keys", None, "slices and slices_last_received are not shrunk with the same key")
    out.append(r)

    r = RuleResult("C09.e", "who may write memory_usage_bytes (closed list)", floor=10)
    allowed = {SR: ("new", "send_message", "process_message_ack", "process_slice_message_ack"), SU: ("new", "send_message", "get_packets_to_send"),
               RR: ("new", "process_message", "process_slice", "receive_message"), RU: ("new", "process_message", "process_slice", "discard_incomplete_old_slices", "receive_message")}
    for adt, fnames in allowed.items():
        for s in t.stores(adt, "memory_usage_bytes"):
            r.site(s)
            if s.fn.path.rsplit("::", 1)[-1] not in fnames: r.bad(f"{s.fn.path}", s, f"{short(s.fn.path)} writes memory_usage_bytes")
    out.append(r)
    return out


def err_exits(f):
    """program points that build the function's Err result (explicit `Err(..)` into _0 or `?` propagation): a channel function returning Err
    makes the caller drop the whole connection, so accounting on those paths is exempt"""
    pts = set()
    for b in f.blocks:
        if b["i"] not in f.reach: continue
        for k, s in enumerate(b["stmts"]):
            if s["k"] == "assign" and s["place"]["local"] == 0 and not s["place"]["proj"] and s["rv"]["k"] == "aggr" and s["rv"].get("vname") == "Err": pts.add((b["i"], k))
        tm = b["term"]
        if tm["k"] == "call" and "from_residual" in callee_name(tm):
            d_ = tm["dest"]["local"]
            # straight into the return place, or into the return value of an inlined helper that is handed on unchanged (`_0 = move d`, or `?` again)
            fwd = d_ == 0 or any(s2["k"] == "assign" and s2["place"]["local"] == 0 and not s2["place"]["proj"] and s2["rv"]["k"] == "use" and s2["rv"]["op"]["k"] in ("copy", "move") and s2["rv"]["op"]["place"]["local"] == d_ and not s2["rv"]["op"]["place"]["proj"] for _bb, _k, s2 in f.sites())
            if not fwd:
                # `helper(..)?` in the caller: the helper's Err result goes through Try::branch + from_residual once more
                for _bb, _k, s2 in f.sites():
                    if s2["k"] == "call" and callee_name(s2).endswith("Try>::branch") and s2["args"] and s2["args"][0]["k"] in ("copy", "move") and s2["args"][0]["place"]["local"] == d_: fwd = True
            if fwd: pts.add((b["i"], len(b["stmts"])))
    return pts


def pair_paths(t):
    """C09.f: PAIR on every path. (1) after an element left an accounted container, memory_usage_bytes is decreased on every path before the
    function returns or handles the next element; (2) after memory_usage_bytes was increased, the accounted container grows on every Ok path."""
    r = RuleResult("C09.f", "PAIR on every path: each removal from an accounted container is followed (or preceded in the same iteration) by the release on all paths; each reservation is followed by the growth on all Ok paths", floor=17)
    for adt, containers in PAIRS:
        stores = list(counter_stores(t, adt))
        tag = adt.split("::")[-1]
        for cont in containers:
            shr_sites = []
            for g in [g for g in t.effects(cont, SHRINKM) if tag in g.fn.path]:
                if method_of(callee_name(g.node)) == "drain":
                    # `for m in self.queue.drain(..)`: the elements leave one by one, at the iterator's `next`
                    nx = [c_ for c_ in t.calls(r"::next$", g.fn) if "Drain" in callee_name(c_.node) + (c_.node.get("substs") or "") and "::drain(" in fmt(t.arg(c_, 0)) and cont in fmt(t.arg(c_, 0))]
                    shr_sites += nx or [g]
                else: shr_sites.append(g)
            for g in shr_sites:
                f = g.fn
                subs = [s for s, k, a in stores if s.fn is f and k == "sub"]
                r.site(g, f"shrink {cont}")
                lp = innermost_loop(f, g.bb)
                before = [s for s in subs if f.dominates(s.bb, g.bb) and (s.bb != g.bb or s.idx < g.idx) and (lp is None or s.bb in lp[1])]
                if before: continue
                e = t.result_edges(f, g)
                start = (e[0][0], len(f.blocks[e[0][0]]["stmts"])) if e else pos(g)
                avoid = {(e[1][0], e[1][1])} if e and e[0][1] != e[1][1] else set()
                ok, w = must_pass(f, start, {pos(s) for s in subs} | err_exits(f), stops={pos(g)}, avoid_edges=avoid)
                if not ok: r.bad(f"{f.path}|shrink-path|{cont}", g, f"an element removed from {cont} is not released from memory_usage_bytes on every path (a path reaches {'the next iteration' if w == g.bb else 'the return'} without `memory_usage_bytes -= size`): accounted memory leaks")
        # reservations
        for s, k, a in stores:
            if k != "add": continue
            f = s.fn
            grows = []
            for cont in containers:
                grows += [g for g in t.effects(cont, GROWM, f)] + list(vacant_insert_sites(t, f, cont))
            r.site(s, "reserve")
            if any(f.dominates(g.bb, s.bb) and (g.bb != s.bb or g.idx < s.idx) for g in grows): continue
            ok, w = must_pass(f, pos(s), {pos(g) for g in grows} | err_exits(f))
            if not ok: r.bad(f"{f.path}|reserve-path", s, "memory_usage_bytes is increased but on some Ok path nothing is stored in the accounted container: the reservation is never released")
    return r

_rules_c09 = rules
def rules(t):
    out = _rules_c09(t)
    out.append(pair_paths(t))
    return out


def slices_shape(t):
    """C09.g: reassembly reservations. (1) the amount released for a `slices` element has the shape of the reservation, `<element>.num_slices * SLICE_SIZE`
    (directly or through a workspace accessor returning exactly that); (2) in the reliable channel the reservation is released before the exact
    size is re-added by process_message (otherwise the message is counted twice at the budget test); (3) CO-UPDATE of the unreliable timestamp map:
    a key enters `slices_last_received` only after the same key has a constructor in `slices`, and both maps are shrunk together."""
    S = t.F.consts["renet::packet::SLICE_SIZE"]["val"]
    r = RuleResult("C09.g", "reassembly reservation: released amount = stored element's num_slices * SLICE_SIZE; released before the exact size is re-added; slices_last_received only holds keys of slices", floor=7)
    def is_reservation_shape(a, depth=0):
        txt = fmt(a)
        if re.search(r"\.num_slices MulWithOverflow " + str(S) + r"\)\.0$", txt): return True
        a_ = strip(a)
        if isinstance(a_, tuple) and a_[0] == "call" and depth < 2:
            try: g = t.fn(a_[1].split("::<")[0])
            except Exception: return False
            return is_reservation_shape(g.origin_of_local(0), depth + 1)
        return False
    for adt in (RR, RU):
        for s, k, a in counter_stores(t, adt):
            f = s.fn
            if k != "sub" or a is None: continue
            near_slices = [g for g in t.effects("slices", SHRINKM, f)] + [g for g in t.calls(r"SliceConstructor::process_slice$", f)]
            if not near_slices or "Bytes::len" in fmt(a) or "<T, A>::len" in fmt(a) and "num_slices" not in fmt(a): continue
            if "message" in fmt(a) and "num_slices" not in fmt(a) and "slices" not in fmt(a): continue
            r.site(s, f"release {fmt(a)[-50:]}")
            if not is_reservation_shape(a): r.bad(f"{f.path}|release-shape", s, f"the amount released for a reassembly entry is {fmt(a)[-70:]}, not the reserved `num_slices * SLICE_SIZE` of the stored element: the difference stays accounted forever (or wraps)")
    # (2) reliable: release dominates the re-adding call
    ps = t.fn("ReceiveChannelReliable::process_slice")
    subs = [s for s, k, a in counter_stores(t, RR) if s.fn is ps and k == "sub"]
    for c in t.calls(r"ReceiveChannelReliable::process_message$", ps):
        r.site(c, "re-add by process_message")
        if not any(ps.dominates(s.bb, c.bb) and (s.bb != c.bb or s.idx < c.idx) for s in subs): r.bad(f"{ps.path}|readd-before-release", c, "the completed message is handed to process_message (budget test + exact size added) before the reservation is released: it is counted twice and a message that fits the budget disconnects the connection")
    # (3) CO-UPDATE of slices_last_received
    for f in t.fns(r"^renet::channel::unreliable::ReceiveChannelUnreliable::"):
        for c in t.effects("slices_last_received", {"insert"}, f):
            r.site(c, "timestamp insert")
            key = t.arg(c, 1)
            have = [g for g in t.effects("slices", {"entry", "or_insert_with", "insert"}, f) if same(t.arg(g, 1), key) or fmt(t.arg(g, 1)) == fmt(key)]
            absent_e, present_e = map_key_edges(t, f, "slices", lambda k_: same(k_, key) or fmt(strip(k_)) == fmt(strip(key)))
            holds = must_fact(f, gen_points=[(g.bb, g.idx + 1) for g in have], gen_edges=present_e + [(g.bb, x_) for g in have for x_ in f.succ[g.bb] if g.node["k"] == "call" and g.node.get("target") == x_], kill_points=[pos(g) for g in t.effects("slices", {"remove"}, f)])
            if not any(f.dominates(g.bb, c.bb) for g in have) and not holds(c.bb, c.idx): r.bad(f"{f.path}|timestamp-without-constructor", c, "a key is recorded in slices_last_received on a path where no reassembly entry exists in `slices` for it: discard_incomplete_old_slices would find no constructor (expect panic in update)")
        for c in t.effects("slices", {"remove"}, f):
            r.site(c, "constructor removed")
            key = fmt(t.arg(c, 1))
            oth = [g for g in t.effects("slices_last_received", {"remove"}, f) if fmt(t.arg(g, 1)) == key]
            # the timestamp entry is taken out first and its key is then used on `slices` (`let (id, _) = oldest.remove_entry(); slices.remove(&id)`)
            if re.search(r"(remove_entry|pop_first)\(", key) and "slices_last_received" in key:
                oth += [g for g in t.calls(r"OccupiedEntry.*::(remove|remove_entry)$|::pop_first$", f) if "slices_last_received" in fmt(t.arg(g, 0))]
            if not any(f.dominates(g.bb, c.bb) or f.dominates(c.bb, g.bb) for g in oth): r.bad(f"{f.path}|timestamp-left", c, "a reassembly entry is removed from `slices` but its timestamp stays in slices_last_received")
    return r

_rules_c09b = rules
def rules(t):
    out = _rules_c09b(t)
    out.append(slices_shape(t))
    return out


def release_implies_removal(t):
    """C09.i (wave 3, seed C09-E): the converse of C09.f(1). A release of `x` bytes is the departure of one stored element: on every path after
    the release (or before it, in the same iteration) an element leaves one of the accounted containers, and the amount released is what was
    reserved for that element (`len()` of the element, or its `num_slices * SLICE_SIZE` reservation) - not a piecewise amount."""
    r = RuleResult("C09.i", "RELEASE=REMOVAL: memory_usage_bytes is decreased only together with the removal of a stored element (on every path), by that element's own reserved amount", floor=8)
    for adt, containers in PAIRS:
        stores = list(counter_stores(t, adt))
        tag = adt.split("::")[-1]
        for s, k, a in stores:
            if k != "sub": continue
            f = s.fn
            if any(s2 is s and k2 == "add" for s2, k2, a2 in stores): continue      # `usage = usage - reserved + exact`: a re-size of a stored element (C09.g)
            r.site(s, "release")
            shr = [g for cont in containers for g in t.effects(cont, SHRINKM, f)]
            txt = fmt(a) if a is not None else ""
            if any(m in txt for m in ("::remove(", "::pop_front(", "::pop_first(", "::pop(", "::drain(")) and any(c_ in txt for c_ in containers): pass      # the amount is read from the element being removed
            else:
                lp = innermost_loop(f, s.bb)
                before = [g for g in shr if f.dominates(g.bb, s.bb) and (g.bb != s.bb or g.idx < s.idx) and (lp is None or g.bb in lp[1])]
                if not before:
                    ok, w = must_pass(f, pos(s), {pos(g) for g in shr} | err_exits(f))
                    if not ok: r.bad(f"{f.path}|release-without-removal", s, f"memory_usage_bytes is decreased on a path on which no element leaves {containers}: the budget is given back piecewise/early, and what is given back need not add up to what was reserved")
            o = strip(a) if a is not None else None
            shape_ok = isinstance(o, tuple) and ((o[0] == "call" and method_of(o[1]) in ("len", "expect", "unwrap")) or "num_slices" in txt)
            if not shape_ok: r.bad(f"{f.path}|release-amount", s, f"the released amount is not the stored element's own size/reservation: {txt[:80]}")
    return r

_rules_c09c = rules
def rules(t):
    out = _rules_c09c(t)
    out.append(release_implies_removal(t))
    return out


def refusal_only_for_new(t):
    """C09.h (wave 3, seeds C09-F / C02-F): the budget test refuses only something that would be stored. A retransmitted copy of a message the
    channel already holds is ignored, it never counts against the budget (a transient double count tears the connection down although the
    accounted memory never exceeds the limit)."""
    r = RuleResult("C09.h", "NEW-ONLY: Err(ReliableChannelMaxMemoryReached) is returned only on a path on which the message / sliced message was found absent from the channel's stores (duplicates are ignored before the budget test)", floor=2)
    for fname in ("ReceiveChannelReliable::process_message", "ReceiveChannelReliable::process_slice"):
        f = t.fn(fname)
        absent = []
        for fld in ("messages", "received_messages", "slices"):
            a, p = map_key_edges(t, f, fld, lambda k: True)
            absent += a
        for e in t.aggrs("renet::error::ChannelError", "ReliableChannelMaxMemoryReached", f):
            r.site(e)
            if not any(t.edge_dominates(f, ed, e.bb) for ed in absent):
                r.bad(f"{f.path}|refuses-duplicate", e, f"{short(f.path)} can return ReliableChannelMaxMemoryReached before it has established that the message is not already held: a duplicate (network duplication, or a retransmission after lost acks) arriving while the buffer is nearly full disconnects the peer")
    return r

_rules_c09d = rules
def rules(t):
    out = _rules_c09d(t)
    out.append(refusal_only_for_new(t))
    return out

_rules_c09_w5 = rules
def rules(t):
    import rules.wave5 as W5
    out = _rules_c09_w5(t)
    out.append(W5.ack_dispatch(t, "C09.j"))
    return out


_rules_C09_w9 = rules
def rules(t, *a, **kw):
    import rules.wave5 as W5
    out = _rules_C09_w9(t, *a, **kw)
    # EXPIRY-SCAN (defect F18): incomplete unreliable fragments stop counting 3 s after their last progress only if the expiry scan looks at
    # every entry: slices_last_received is keyed by message id, and under reordering / duplication ids are not ordered by the time of their last
    # slice, so a scan that stops at the first entry that has not expired leaves stale fragments with higher ids accounted
    out.append(W5.full_visit(t, "C09.k", "the expiry scan over slices_last_received visits every entry (it does not stop at the first fragment that has not expired: entries are ordered by message id, not by the time of their last slice)", "ReceiveChannelUnreliable::discard_incomplete_old_slices", "slices_last_received"))
    return out
