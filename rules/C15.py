# C15 Retransmission: gate before emit, refresh after, skip acked (necessary conditions)
import re
from sa.rules import *
from sa.rules import NEGATE, MIRROR
import rules.wave3 as W3
SR = "channel::reliable::SendChannelReliable"

def rules(t):
    out = []
    f = t.fn("SendChannelReliable::get_packets_to_send")
    r = RuleResult("C15.a", "every reliable emission is behind the resend gate: never sent before, or `now - last_sent >= resend_time` (and `!acked[i]` for slices)", floor=2)
    # emission anchors: a small message enters the batch (push of a clone); a slice's payload is cut (Bytes::slice) - what happens to the cut slice
    # afterwards (pushed straight into a packet, or collected first and wrapped by the caller) does not matter for the gate
    cuts = list(t.calls(r"Bytes::slice$", f))
    emits = [c for c in t.calls(r"Vec.*::push$", f) if "Bytes::clone" in fmt(t.arg(c, 1)) or (not cuts and "ReliableSlice" in fmt(t.arg(c, 1)))] + cuts
    is_slice = lambda c_: c_ in cuts or "ReliableSlice" in fmt(t.arg(c_, 1))
    is_age = lambda a: ("Duration::sub" in fmt(a) or " Sub " in fmt(a)) and "current_time" in fmt(a) and "last_sent" in fmt(a)
    is_rt = lambda b: fmt(strip(b)).endswith(".resend_time") or "resend_time" in fmt(b)[-14:]
    # first transmission: last_sent is None
    none_edges = set()
    for br in t.branches(f):
        if br["kind"] == "discr" and "last_sent" in fmt(br["on"]) and "current_time" not in fmt(br["on"]):
            if 0 in br["targets"]: none_edges.add((br["bb"], br["targets"][0]))
            elif 1 in br["targets"]: none_edges.add((br["bb"], br["otherwise"]))
    pass_edges = {e for e, br in rel_edges(t, f, is_age, is_rt, "Ge", also=none_edges)} | none_edges
    early_edges = {e for e, br in rel_edges(t, f, is_age, is_rt, "Lt")}
    # the gate as one Option adaptor over `last_sent`:  is_some_and(|s| now - s < rt)  [true = too early],  map_or(true, |s| now - s >= rt)  [true = due],
    # is_none_or(|s| now - s >= rt) [true = due]; tested directly, negated, or after being stored in a flag (`let due = !acked[i] && last_sent.map_or(..)`)
    def gate_call(o):
        """('early'|'due') meaning of `o` being true, if o is such an adaptor call"""
        o = strip(o)
        if not (isinstance(o, tuple) and o[0] == "call" and o[2] and "last_sent" in fmt(o[2][0])): return None
        m_ = method_of(o[1])
        if m_ not in ("is_some_and", "map_or", "is_none_or"): return None
        dflt = const_eval(o[2][1]) if m_ == "map_or" and len(o[2]) > 2 else None
        clo = fmt(o[2][-1])
        cl = [g for g in fn_and_closures(t, f) if g is not f and short(g.path).split("::")[-1] in clo]
        for g in cl:
            ret = resolved(t, g.origin_of_local(0), g)
            c = t.norm_cond(strip(ret))
            if c[0] != "cmp": continue
            age_l, age_r = "current_time" in fmt(c[2]) or "Sub" in fmt(c[2]) or "sub" in fmt(c[2]), "current_time" in fmt(c[3]) or "Sub" in fmt(c[3]) or "sub" in fmt(c[3])
            op = c[1] if (age_l and is_rt(c[3])) else (MIRROR[c[1]] if (age_r and is_rt(c[2])) else None)
            if op is None: continue
            if op == "Lt" and m_ == "is_some_and": return "early"
            if op == "Ge" and m_ == "is_none_or": return "due"
            if op == "Ge" and m_ == "map_or" and dflt == 1: return "due"
            if op == "Lt" and m_ == "map_or" and dflt == 0: return "early"
        return None
    for br in t.branches(f):
        if br["kind"] != "bool": continue
        raw = br["raw"]
        alts = list(raw[2]) if isinstance(raw, tuple) and raw[0] == "phi" else [raw]
        consts = [const_eval(a_) for a_ in alts if const_eval(a_) is not None]
        calls_ = [a_ for a_ in alts if const_eval(a_) is None]
        if len(calls_) != 1: continue
        meaning = gate_call(calls_[0])
        if meaning is None: continue
        # `flag = other && gate`: the flag is true only if the gate call was true (the other alternative is the constant false)
        if not consts or all(c_ == 0 for c_ in consts):
            if meaning == "due": pass_edges.add(br["t_edge"])
            else: early_edges.add(br["t_edge"])
        if not consts:
            if meaning == "due": early_edges.add(br["f_edge"])
            else: pass_edges.add(br["f_edge"])
        # `flag = other || gate` (constant true alternative): the flag is false only if the gate call was false
        if consts and all(c_ == 1 for c_ in consts):
            if meaning == "due": early_edges.add(br["f_edge"])
            else: pass_edges.add(br["f_edge"])
    from rules.netcode_common import reachable_avoiding
    reach = reachable_avoiding(f, 0, pass_edges)
    for c in emits:
        r.site(c, fmt(t.arg(c, 1))[:40])
        if c.bb in reach: r.bad(f"gate|{'slice' if is_slice(c) else 'small'}", c, "a reliable message/slice can be emitted on a path that passed neither `last_sent is None` nor `now - last_sent >= resend_time`: it is retransmitted before resend_time")
        if is_slice(c):
            ab = [br for br in t.branches(f) if br["kind"] == "bool" and "acked" in fmt(br["raw"]) and "::index(" in fmt(br["raw"])]
            if not any(t.edge_dominates(f, br["f_edge"], c.bb) for br in ab): r.bad("acked", c, "slice emitted without the `acked[i]` test")
    if not pass_edges - {e for e in pass_edges if False} or not early_edges: r.bad("gate-missing", None, "no resend gate comparing `now - last_sent` with resend_time found")
    out.append(r)
    r = RuleResult("C15.b", "after an emission the element's timer is set to the current time", floor=2)
    refresh = []
    for s in t.sites(f):
        n = s.node
        if n["k"] == "assign" and n["place"]["proj"] and "last_sent" in fmt(t.place(s)) and "Some" in fmt(t.stored(s)) and "current_time" in fmt(t.stored(s)): refresh.append(s)
    for c in emits:
        r.site(c)
        if not any(f.dominates(c.bb, x.bb) or f.dominates(x.bb, c.bb) for x in refresh): r.bad(f"refresh|{fmt(t.arg(c,1))[:20]}", c, "emission without refreshing last_sent")
    out.append(r)
    r = RuleResult("C15.c", "slices are marked acked only by process_slice_message_ack; sent-packet records leave sent_packets only once `current_time - sent_at >= horizon`", floor=2)
    for f2 in t.fns(r"^renet::channel::reliable"):
        for s in t.sites(f2):
            n = s.node
            mark = n["k"] == "assign" and n["place"]["proj"] and "acked" in fmt(t.place(s)) and "index_mut(" in fmt(t.place(s)) and fmt(t.stored(s)) == "1"
            tas = n["k"] == "call" and method_of(callee_name(n)) == "replace" and "mem::replace" in callee_name(n) and "acked" in fmt(t.arg(s, 0)) and "index_mut(" in fmt(t.arg(s, 0)) and const_eval(t.arg(s, 1)) == 1
            if mark or tas:
                r.site(s)
                if not owner_fn(t, f2).path.endswith("::process_slice_message_ack"): r.bad(f"{f2.path}|acked-writer", s, "acked flag set outside the slice ack handler")
    u = t.fn("RenetClient::update")
    is_age = lambda a: ("Duration::sub" in fmt(a) or " Sub " in fmt(a)) and "sent_at" in fmt(a)
    old = list(rel_edges(t, u, is_age, lambda b: True, "Ge"))
    for e, br in old:
        r.site(Site(u, br["bb"], 0, u.blocks[br["bb"]]["term"]), "horizon test")
        # the age of a sent packet is `self.current_time - sent_at` (the clock already advanced by this update, counted once)
        for side in (br["cond"][2], br["cond"][3]):
            a0 = strip(side)
            if is_age(side) and isinstance(a0, tuple) and a0[0] == "call" and a0[2] and not fmt(strip(a0[2][0])).endswith(".current_time"):
                r.bad("horizon-clock", Site(u, br["bb"], 0, u.blocks[br["bb"]]["term"]), f"packet age is computed from {fmt(a0[2][0])[:60]} instead of the connection clock: records younger than the horizon can be dropped, so a late ack no longer stops the retransmission")
    # the same test as the predicate of an iterator adaptor over sent_packets: `.iter().take_while(|(_, p)| now - p.sent_at >= H).map(key).collect()`
    adaptor_ok = []
    for g in fn_and_closures(t, u):
        if g is u: continue
        c0 = strip(g.origin_of_local(0))
        neg = False
        while isinstance(c0, tuple) and c0[0] == "un" and c0[1] == "Not": neg = not neg; c0 = c0[2]
        cnd = t.norm_cond(c0)
        if cnd[0] != "cmp": continue
        op = NEGATE[cnd[1]] if neg else cnd[1]
        holds = (is_age(cnd[2]) and op == "Ge") or (is_age(cnd[3]) and op == "Le")
        if not holds: continue
        tag = re.search(r"\{closure#\d+\}$", g.path).group(0)
        for c_ in t.sites(u):
            if c_.node["k"] == "call" and method_of(callee_name(c_.node)) in ("take_while", "filter", "filter_map", "skip_while") and any(tag in fmt(y) for y in t.args(c_)[1:]) and "sent_packets" in fmt(t.arg(c_, 0)) and method_of(callee_name(c_.node)) != "skip_while":
                adaptor_ok.append(c_); r.site(c_, "horizon predicate of an adaptor")
                age = cnd[2] if is_age(cnd[2]) else cnd[3]
                a0 = strip(resolved(t, age, g))
                if isinstance(a0, tuple) and a0[0] == "call" and a0[2] and not fmt(strip(a0[2][0])).endswith("current_time"):
                    r.bad("horizon-clock", c_, f"packet age is computed from {fmt(a0[2][0])[:60]} instead of the connection clock")
    if not old and not adaptor_ok: r.bad("horizon", None, "no `current_time - sent_at >= horizon` test in update(): sent-packet records are never (or always) discarded")
    rem = list(t.effects("sent_packets", {"remove"}, u)) + [c for c in t.calls(r"OccupiedEntry.*::remove$|::remove_entry$", u) if "sent_packets" in fmt(t.arg(c, 0))]
    for c in rem: r.site(c, "record removed")
    if not rem: r.bad("horizon-remove", None, "update() does not remove old sent-packet records")
    for c in rem:
        direct = any(t.edge_dominates(u, e, c.bb) for e, br in old)
        keys = fmt(t.arg(c, 1)) if len(c.node["args"]) > 1 else ""
        collected = [p_ for p_ in t.calls(r"Vec.*::push$", u) if any(t.edge_dominates(u, e, p_.bb) for e, br in old)]
        via_adaptor = bool(adaptor_ok) and len(c.node["args"]) > 1 and not direct
        if not direct and not collected and not via_adaptor: r.bad("horizon-dom", c, "a sent-packet record is removed on a path that did not establish `current_time - sent_at >= horizon`")
    out.append(r)
    return out


def find_index_calls(o, out=None):
    """all (receiver text, index origin) of Vec::index / index_mut calls inside origin expression o"""
    if out is None: out = []
    if isinstance(o, tuple):
        if o and o[0] == "call" and method_of(o[1]) in ("index", "index_mut") and len(o[2]) == 2:
            out.append((fmt(o[2][0]), o[2][1]))
        for x in o:
            if isinstance(x, tuple): find_index_calls(x, out)
    return out


def index_agreement(t):
    """C15.d: the slice whose `acked` flag and `last_sent` timer are tested is the slice that is built, sent and re-timed (one index origin)"""
    f = t.fn("SendChannelReliable::get_packets_to_send")
    r = RuleResult("C15.d", "slice resend: the index tested in acked[i] / last_sent[i] is the index sliced, emitted as slice_index and re-timed in last_sent[i]", floor=4)
    uses = {}   # role -> list of index origins
    for br in t.branches(f):
        if br["kind"] == "bool":
            for recv, idx in find_index_calls(br["raw"]):
                if recv.endswith("Sliced.acked"): uses.setdefault("acked-test", []).append((idx, br["bb"]))
    for c in t.calls(r"Vec.*::index$", f):
        if fmt(t.arg(c, 0)).endswith("Sliced.last_sent"): uses.setdefault("timer-test", []).append((t.arg(c, 1), c.bb))
    for s in t.stores_like(r"index_mut\(.*Sliced\.last_sent, ", f):
        for recv, idx in find_index_calls(t.place(s)): uses.setdefault("timer-refresh", []).append((idx, s.bb))
    for s in t.aggrs("renet::packet::Slice", None, f):
        uses.setdefault("emitted-index", []).append((t.field_of_aggr(s, "slice_index"), s.bb))
    for c in t.calls(r"Bytes::slice", f):
        rg = strip(t.arg(c, 1))
        if isinstance(rg, tuple) and rg[0] == "aggr":
            st = strip(rg[3][0])   # (k MulWithOverflow SLICE_SIZE).0
            if isinstance(st, tuple) and st[0] == "field" and isinstance(strip(st[1]), tuple) and strip(st[1])[0] == "bin": uses.setdefault("slice-start", []).append((strip(st[1])[2], c.bb))
    ref = uses.get("emitted-index", [])
    for role in ("acked-test", "timer-test", "timer-refresh", "emitted-index", "slice-start"):
        for idx, bb in uses.get(role, []):
            r.site(Site(f, bb, 0, f.blocks[bb]["term"]), f"{role}: {fmt(idx)[-70:]}")
            if ref and not same(idx, ref[0][0]): r.bad(f"index|{role}", Site(f, bb, 0, f.blocks[bb]["term"]), f"{role} uses index {fmt(idx)[-80:]} but the emitted slice_index is {fmt(ref[0][0])[-80:]}")
        if not uses.get(role): r.bad(f"missing|{role}", None, f"no {role} site found for sliced resend")
    return r

_rules_c15 = rules
def rules(t):
    import rules.shared as shared
    out = _rules_c15(t)
    out.append(index_agreement(t))
    out.append(shared.ack_once(t, "C15.e"))
    out.append(W3.ack_lookup_range(t, "C15.f"))
    out.append(W3.budget_fail_stays(t, "C15.g", ('reliable',)))
    rr_ = RuleResult("C15.h", "the retransmission scan is not left early: every due unacknowledged message the budget allows is examined in the tick (shared with C01.f)", floor=1)
    import rules.C01 as _SRC
    for x_ in _SRC.rules(t):
        if x_.id == "C01.f":
            rr_.sites += x_.sites
            for v_ in x_.violations: rr_.bad(v_.key, v_.site, v_.msg)
    out.append(rr_)
    return out

_rules_c15_w5 = rules
def rules(t):
    import rules.shared as shared
    out = _rules_c15_w5(t)
    shared.share(t, out, "C15.i", "retransmission stops only for messages a packet really carried: the ids remembered for a sent SmallReliable packet are exactly the ids of its messages", "C01", ("C01.l",))
    shared.share(t, out, "C15.j", "a due slice is not starved by slices that are merely looked at: the tick budget is charged only for bytes that are emitted", "C14", ("C14.a",))
    return out

_rules_c15_w5b = rules
def rules(t):
    import rules.wave5 as W5
    out = _rules_c15_w5b(t)
    out.append(W5.ack_dispatch(t, "C15.k"))
    return out

_rules_c15_w5c = rules
def rules(t):
    import rules.wave5 as W5
    out = _rules_c15_w5c(t)
    out.append(W5.slice_scan_all(t, "C15.l"))
    return out

_rules_C15_w5d = rules
def rules(t, *a, **kw):
    import rules.wave5 as W5
    out = _rules_C15_w5d(t, *a, **kw)
    out.append(W5.last_sent_values(t, "C15.m"))
    return out

_rules_C15_w7 = rules
def rules(t, *a, **kw):
    import rules.wave7 as W7
    out = _rules_C15_w7(t, *a, **kw)
    out.append(W7.ack_collection_total(t, "C15.n"))
    return out

_rules_C15_w7b = rules
def rules(t, *a, **kw):
    import rules.wave7 as W7
    out = _rules_C15_w7b(t, *a, **kw)
    out.append(W7.resend_scan_reached(t, "C15.o"))
    out.append(W7.sent_record_removers(t, "C15.p"))
    return out
