# C15 Retransmission: gate before emit, refresh after, skip acked (necessary conditions)
import re
from sa.rules import *
SR = "channel::reliable::SendChannelReliable"

def rules(t):
    out = []
    f = t.fn("SendChannelReliable::get_packets_to_send")
    gates = [x for x in t.sites(f) if x.node["k"] == "call" and "PartialOrd" in callee_name(x.node) and "resend_time" in fmt(t.arg(x, 1)) + fmt(t.arg(x, 0))]
    r = RuleResult("C15.a", "every reliable emission is behind the resend gate `now - last_sent < resend_time -> skip` (and `acked[i] -> skip` for slices)", floor=2)
    emits = [c for c in t.calls(r"Vec.*::push$", f) if "Bytes::clone" in fmt(t.arg(c, 1)) or "ReliableSlice" in fmt(t.arg(c, 1))]
    for c in emits:
        r.site(c, fmt(t.arg(c, 1))[:40])
        # the emission must not be reachable from the "too early" edge of a gate
        ok = False
        for g in gates:
            if method_of(callee_name(g.node)) != "lt": continue
            brs = [br for br in t.branches(f) if br["kind"] == "bool" and br["cond"][0] == "cmp" and norm(br["raw"]) == norm(f.call_origin(g.node))]
            for br in brs:
                early = br["t_edge"]
                # `continue` on the early edge: emission block not reachable from it without re-entering the loop head (approximation: emission not dominated by early edge, and dominated by gate block or by the None-edge of last_sent)
                if not t.edge_dominates(f, early, c.bb) and (f.dominates(br["bb"], c.bb) or True):
                    reach_wo = f.reachable_from([br["f_edge"][1]])
                    if c.bb in reach_wo: ok = True
        if not ok: r.bad(f"gate|{fmt(t.arg(c,1))[:20]}", c, "emission not controlled by a resend gate")
        if "ReliableSlice" in fmt(t.arg(c, 1)):
            ab = [br for br in t.branches(f) if br["kind"] == "bool" and "acked" in fmt(br["raw"]) and "::index(" in fmt(br["raw"])]
            if not any(t.edge_dominates(f, br["f_edge"], c.bb) for br in ab): r.bad("acked", c, "slice emitted without the `acked[i]` test")
    for g in gates:
        if method_of(callee_name(g.node)) != "lt" or "Sub" not in fmt(t.arg(g, 0)) and "sub" not in fmt(t.arg(g, 0)): r.bad("gate-shape", g, f"resend gate changed: {method_of(callee_name(g.node))}({fmt(t.arg(g,0))[:40]}, ..)")
    if len(gates) < 2: r.bad("gate-count", None, f"{len(gates)} resend gate(s) found, expected one for small messages and one for slices")
    out.append(r)
    r = RuleResult("C15.b", "after an emission the element's timer is set to the current time", floor=2)
    refresh = []
    for s in t.sites(f):
        n = s.node
        if n["k"] == "assign" and n["place"]["proj"] and "last_sent" in fmt(t.place(s)) and "Some" in fmt(t.stored(s)) and "current_time" in fmt(t.stored(s)): refresh.append(s)
    for c in emits:
        r.site(c)
        if not any(f.dominates(c.bb, x.bb) or f.dominates(x.bb, c.bb) for x in refresh): r.bad(f"refresh|{fmt(t.arg(c,1))[:20]}", c, "emission without refreshing last_sent")
    out.append(r)
    r = RuleResult("C15.c", "slices are marked acked only by process_slice_message_ack; packets older than 3 s leave sent_packets", floor=2)
    for f2 in t.fns(r"^renet::channel::reliable"):
        for s in t.sites(f2):
            n = s.node
            if n["k"] == "assign" and n["place"]["proj"] and "acked" in fmt(t.place(s)) and "index_mut(" in fmt(t.place(s)) and fmt(t.stored(s)) == "1":
                r.site(s)
                if not f2.path.endswith("::process_slice_message_ack"): r.bad(f"{f2.path}|acked-writer", s, "acked flag set outside the slice ack handler")
    u = t.fn("RenetClient::update")
    ge = [x for x in t.sites(u) if x.node["k"] == "call" and "PartialOrd" in callee_name(x.node) and "sent_at" in fmt(t.arg(x, 0))]
    for x in ge:
        r.site(x)
        if method_of(callee_name(x.node)) != "ge": r.bad("horizon-op", x, "sent-packet horizon predicate changed")
        a0 = strip(t.arg(x, 0))
        # the age of a sent packet is `self.current_time - sent_at` (the clock already advanced by this update, counted once)
        if isinstance(a0, tuple) and a0[0] == "call" and "sub" in a0[1].lower() and a0[2]:
            if not fmt(strip(a0[2][0])).endswith(".current_time"): r.bad("horizon-clock", x, f"packet age is computed from {fmt(a0[2][0])[:60]} instead of the connection clock: records younger than 3 s can be dropped, so a late ack no longer stops the retransmission")
    if not ge: r.bad("horizon", None, "no sent-packet horizon")
    out.append(r)
    return out


def find_index_calls(o, out=None):
    """all (receiver text, index origin) of Vec::index / index_mut calls inside origin expression o"""
    if out is None: out = []
    if isinstance(o, tuple):
        if o and o[0] == "call" and method_of(o[1]) in ("index", "index_mut") and len(o[2]) == 2:
            out.append((fmt(o[2][0]), o[2][1]))
        for x in o:
            if isinstance(x, tuple): find_index_calls(x, out)
    return out


def index_agreement(t):
    """C15.d: the slice whose `acked` flag and `last_sent` timer are tested is the slice that is built, sent and re-timed (one index origin)"""
    f = t.fn("SendChannelReliable::get_packets_to_send")
    r = RuleResult("C15.d", "slice resend: the index tested in acked[i] / last_sent[i] is the index sliced, emitted as slice_index and re-timed in last_sent[i]", floor=4)
    uses = {}   # role -> list of index origins
    for br in t.branches(f):
        if br["kind"] == "bool":
            for recv, idx in find_index_calls(br["raw"]):
                if recv.endswith("Sliced.acked"): uses.setdefault("acked-test", []).append((idx, br["bb"]))
    for c in t.calls(r"Vec.*::index$", f):
        if fmt(t.arg(c, 0)).endswith("Sliced.last_sent"): uses.setdefault("timer-test", []).append((t.arg(c, 1), c.bb))
    for s in t.stores_like(r"index_mut\(.*Sliced\.last_sent, ", f):
        for recv, idx in find_index_calls(t.place(s)): uses.setdefault("timer-refresh", []).append((idx, s.bb))
    for s in t.aggrs("renet::packet::Slice", None, f):
        uses.setdefault("emitted-index", []).append((t.field_of_aggr(s, "slice_index"), s.bb))
    for c in t.calls(r"Bytes::slice", f):
        rg = strip(t.arg(c, 1))
        if isinstance(rg, tuple) and rg[0] == "aggr":
            st = strip(rg[3][0])   # (k MulWithOverflow SLICE_SIZE).0
            if isinstance(st, tuple) and st[0] == "field" and isinstance(strip(st[1]), tuple) and strip(st[1])[0] == "bin": uses.setdefault("slice-start", []).append((strip(st[1])[2], c.bb))
    ref = uses.get("emitted-index", [])
    for role in ("acked-test", "timer-test", "timer-refresh", "emitted-index", "slice-start"):
        for idx, bb in uses.get(role, []):
            r.site(Site(f, bb, 0, f.blocks[bb]["term"]), f"{role}: {fmt(idx)[-70:]}")
            if ref and not same(idx, ref[0][0]): r.bad(f"index|{role}", Site(f, bb, 0, f.blocks[bb]["term"]), f"{role} uses index {fmt(idx)[-80:]} but the emitted slice_index is {fmt(ref[0][0])[-80:]}")
        if not uses.get(role): r.bad(f"missing|{role}", None, f"no {role} site found for sliced resend")
    return r

_rules_c15 = rules
def rules(t):
    import rules.shared as shared
    out = _rules_c15(t)
    out.append(index_agreement(t))
    out.append(shared.ack_once(t, "C15.e"))
    return out
