# C02 ReliableUnordered: dedupe-set discipline (necessary conditions only)
import re
from sa.rules import *
import rules.shared as shared
import rules.C09 as C09
RR = "channel::reliable::ReceiveChannelReliable"

def rules(t):
    out = []
    pm = t.fn("ReceiveChannelReliable::process_message")
    r = RuleResult("C02.a", "unordered: a message is buffered only if its id is not in received_messages, and the id is recorded", floor=2)
    # the Unordered arm of the match on reliable_order
    names = t.variants_of("channel::reliable::ReliableOrder")
    unordered_region = None
    for br in t.branches(pm):
        if br["kind"] == "discr" and fmt(br["on"]).endswith("reliable_order"):
            tgts = [tgt for v, tgt in br["targets"].items() if names.get(v) == "Unordered"] or ([br["otherwise"]] if "Unordered" not in [names.get(v) for v in br["targets"]] else [])
            others = [tgt for v, tgt in br["targets"].items() if names.get(v) != "Unordered"] + ([br["otherwise"]] if "Unordered" in [names.get(v) for v in br["targets"]] else [])
            if tgts: unordered_region = pm.reachable_from(tgts) - set().union(*[pm.reachable_from([o]) for o in others if o not in tgts]) if others else pm.reachable_from(tgts)
    ins = [g for g in t.effects("messages", {"insert"}, pm) if "VacantEntry" not in callee_name(g.node) and (unordered_region is None or g.bb in unordered_region)]
    # an entry-API insertion in the unordered arm stores a message as well: absence from `messages` says nothing about an id that was already delivered
    if unordered_region is not None: ins += [g for g in t.calls(r"VacantEntry.*::insert$", pm) if g.bb in unordered_region]
    rec = list(t.effects("received_messages", {"insert"}, pm))
    for g in ins:
        r.site(g)
        ok = any(t.rooted_at_field(br["cond"][2][0], "received_messages") and t.edge_dominates(pm, br["f_edge"], g.bb) for br in t.find_callcond(pm, r"BTreeSet.*::contains$"))
        if not ok: r.bad("guard", g, "unordered message buffered without the received_messages test")
        if "VacantEntry" not in callee_name(g.node) and not any(same(t.arg(x, 1), t.arg(g, 1)) and (pm.dominates(x.bb, g.bb) or pm.dominates(g.bb, x.bb)) for x in rec): r.bad("record", g, "buffered id is not recorded in received_messages")
    for x in rec: r.site(x)
    out.append(r)
    r = RuleResult("C02.b", "SIBLING dedupe before reserving reassembly state (shared with C09.c)", floor=1)
    for rr in C09.rules(t):
        if rr.id == "C09.c":
            r.sites = rr.sites; r.samples = rr.samples
            for v in rr.violations: r.bad(v.key.split("|", 1)[1], v.site, v.msg)
    out.append(r)
    rm = t.fn("ReceiveChannelReliable::receive_message")
    r = RuleResult("C02.c", "received_messages shrinks only in receive_message, by the cursor id, while advancing the cursor; delivery = pop_first()", floor=2)
    for g in t.effects("received_messages", SHRINK):
        r.site(g)
        if g.fn is not rm: r.bad(f"{g.fn.path}|writer", g, "received_messages shrunk outside receive_message"); continue
        if len(g.node["args"]) < 2:      # clear() / retain(..): the whole set is changed at once
            r.bad(f"bulk|{method_of(callee_name(g.node))}", g, f"received_messages is changed wholesale by {method_of(callee_name(g.node))}(): ids that were received but not yet passed by the cursor are forgotten"); continue
        if not t.is_field(t.arg(g, 1), "oldest_pending_message_id"): r.bad("key", g, "removed id is not the cursor")
        ok = any(t.rooted_at_field(br["cond"][2][0], "received_messages") and t.is_field(br["cond"][2][1], "oldest_pending_message_id") and t.edge_dominates(rm, br["t_edge"], g.bb) for br in t.find_callcond(rm, r"BTreeSet.*::contains$"))
        if not ok:
            # `while received_messages.remove(&cursor) { cursor += 1 }`: the removal's own answer is the test; the cursor only advances on its true edge
            mine = [br for br in t.find_callcond(rm, r"BTreeSet.*::remove$") if br["bb"] == g.node.get("target") or norm(br["raw"]) == norm(rm.call_origin(g.node))]
            adv = list(t.stores(RR, "oldest_pending_message_id", rm))
            lp = innermost_loop(rm, g.bb)
            inloop = [s_ for s_ in adv if lp and s_.bb in lp[1]]
            ok = bool(mine) and bool(inloop) and all(any(t.edge_dominates(rm, br["t_edge"], s_.bb) for br in mine) for s_ in inloop)
        if not ok: r.bad("guard", g, "removal not guarded by contains(cursor)")
    pops = list(t.effects("messages", {"pop_first"}, rm))
    for p_ in pops:
        r.site(p_)
        e = t.result_edges(rm, p_)
        if e:
            # from the Some edge no path may return None
            nones = [s for s in t.aggrs("std::option::Option", "None", rm) if s.node["place"]["local"] == 0 and s.bb in rm.reachable_from([e[0][1]]) and s.bb not in rm.reachable_from([e[1][1]])]
            if nones: r.bad("delay", nones[0], "a popped unordered message can be withheld (returns None after pop_first succeeded)")
    if not pops: r.bad("pop", None, "unordered delivery is not messages.pop_first()")
    out.append(r)
    out.append(shared.ack_once(t, "C02.d"))
    rr_ = RuleResult("C02.e", "a duplicate of a message the channel already holds is ignored, never refused with a budget error that drops the connection (shared with C09.h)", floor=1)
    import rules.C09 as _SRC
    for x_ in _SRC.rules(t):
        if x_.id == "C09.h":
            rr_.sites += x_.sites
            for v_ in x_.violations: rr_.bad(v_.key, v_.site, v_.msg)
    out.append(rr_)
    rr_ = RuleResult("C02.f", "the reassembled length of a sliced message does not depend on the arrival order of its slices (shared with C03.g)", floor=1)
    import rules.C03 as _SRC
    for x_ in _SRC.rules(t):
        if x_.id == "C03.g":
            rr_.sites += x_.sites
            for v_ in x_.violations: rr_.bad(v_.key, v_.site, v_.msg)
    out.append(rr_)
    return out

_rules_c02_w5 = rules
def rules(t):
    import rules.shared as shared
    out = _rules_c02_w5(t)
    shared.share(t, out, "C02.g", "a message is released by the sender only when a packet that carried it is acknowledged: the ids remembered for a sent SmallReliable packet are exactly the ids of its messages", "C01", ("C01.l",))
    shared.share(t, out, "C02.h", "the receiver never acknowledges a packet it did not receive: pending_acks changes only by adding the received sequence, merging exactly adjacent ranges or trimming", "C01", ("C01.j",))
    shared.share(t, out, "C02.i", "every message of an acknowledged packet reaches the receive channel: nothing is narrowed on the wire except a message count to a width holding SLICE_SIZE", "C01", ("C01.k",))
    return out

_rules_c02_w5c = rules
def rules(t):
    import rules.wave5 as W5
    out = _rules_c02_w5c(t)
    out.append(W5.slice_scan_all(t, "C02.j"))
    out.append(W5.ordered_flag(t, "C02.k"))
    return out

_rules_C02_w7b = rules
def rules(t, *a, **kw):
    import rules.wave7 as W7
    out = _rules_C02_w7b(t, *a, **kw)
    out.append(W7.no_silent_drop(t, "C02.l"))
    return out


def every_store_recorded(t, rid):
    """RECORD-ON-STORE: on an unordered channel `received_messages` is the only memory of what was already handed to the application (the entry
    leaves `messages` when it is obtained), so *every* place that puts a message into `messages` - in whatever function - either lies in code that
    only runs for the Ordered mode (an arm of the match on reliable_order) or records the id in received_messages on the same path."""
    r = RuleResult(rid, "every insertion into ReceiveChannelReliable.messages outside an Ordered-only arm records the id in received_messages (whatever function stores it)", floor=0)
    names = t.variants_of("channel::reliable::ReliableOrder")
    for f0 in t.fns(r"ReceiveChannelReliable::[a-z_]+$"):
        for f in fn_and_closures(t, f0):
            ordered_only = set()
            for br in t.branches(f):
                if br["kind"] == "discr" and fmt(br["on"]).endswith("reliable_order"):
                    o_t = [tgt for v, tgt in br["targets"].items() if names.get(v) == "Ordered"] + ([br["otherwise"]] if "Ordered" not in [names.get(v) for v in br["targets"]] and br.get("otherwise") is not None else [])
                    u_t = [tgt for v, tgt in br["targets"].items() if names.get(v) == "Unordered"] + ([br["otherwise"]] if "Unordered" not in [names.get(v) for v in br["targets"]] and br.get("otherwise") is not None else [])
                    u_t = [x for x in u_t if x not in o_t or len(br["targets"]) == 0]
                    if o_t: ordered_only |= f.reachable_from(o_t) - (f.reachable_from(u_t) if u_t else set())
            ins = [g for g in t.effects("messages", {"insert"}, f) if "VacantEntry" not in callee_name(g.node)] + list(t.calls(r"VacantEntry.*::insert$", f))
            ins = [g for g in ins if "messages" in fmt(t.arg(g, 0)) and "received_messages" not in fmt(t.arg(g, 0)) and "unacked" not in fmt(t.arg(g, 0))]
            rec = list(t.effects("received_messages", {"insert"}, f)) + list(t.calls(r"BTreeSet.*::insert$", f))     # the id set is the only BTreeSet of the channel (it may be reached through a value: `Some(received_messages)`)
            for g in ins:
                if g.bb in ordered_only: continue
                r.site(g)
                # (the record may be conditional on a value that is correlated with the mode - `if let Some(set) = accepted_ids { set.insert(id) }` -
                #  so a record on a path through the store is accepted; C02.a states the exact pairing for process_message)
                ok = any((g.bb in f.reachable_from([x.bb]) or x.bb in f.reachable_from([g.bb])) for x in rec)
                if not ok: r.bad(f"{short(f0.path)}|unrecorded", g, "a message is put into `messages` on a path that also runs for an Unordered channel without its id being recorded in received_messages: once the application has obtained it, a late duplicate (all its slices resent because the acks were lost) is accepted and obtained a second time")
    return r


_rules_C02_w8 = rules
def rules(t, *a, **kw):
    out = _rules_C02_w8(t, *a, **kw)
    out.append(every_store_recorded(t, "C02.n"))
    return out
