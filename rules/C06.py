# C06 renet survives hostile packets: obligations + error mapping
import re
from sa.rules import *
import rules.wave3 as W3
import rules.shared as shared
from rules.oblcommon import obl_rule
import rules.C09 as C09

def rules(t):
    out = []
    r, d = obl_rule("C06.a", "OBL(renet): every partial operation reachable from the RenetClient/RenetServer API is discharged or vetted", "renet", floor=70)
    out.append(r)
    pp = t.fn("RenetClient::process_packet")
    r = RuleResult("C06.b", "every parse / channel error on the packet path disconnects with a reason and returns", floor=8)
    DIS = r"RenetClient::disconnect_with_reason$"
    def closure_tag(g): return re.search(r"\{closure#\d+\}$", g.path).group(0)
    def consumers(g):
        """calls in the creating function that are handed closure g"""
        par = owner_fn(t, g)
        tag = closure_tag(g)
        return par, [x for x in t.sites(par) if x.node["k"] == "call" and any(tag in fmt(y) for y in t.args(x))]
    def disconnect_in(g, region=None):
        return [x for x in t.calls(DIS, g) if region is None or x.bb in region]
    def err_handled(g, c, depth=0):
        """the Err of call c (in function/closure g) leads to a disconnect: directly on its error edge, or after travelling as a Result value
        (`map_err`, `?`, closure result -> `try_for_each`, arm value -> `if let Err(reason) = outcome`) to a test whose error edge disconnects"""
        if depth > 4: return False
        me = norm(g.call_origin(c.node))
        e = t.result_edges(g, c)
        if e:
            reg = g.reachable_from([e[1][1]])
            if any(not t.edge_dominates(g, e[0], x.bb) for x in disconnect_in(g, reg)): return True
        # the value is inspected later (possibly wrapped): a discriminant test on something that contains it, whose non-zero (Err / Break) edge disconnects
        for br in t.branches(g):
            if br["kind"] != "discr" or not contains(norm(br["on"]), lambda x: x == me): continue
            if e and br["bb"] == e[0][0]: continue
            for v_, tgt in list(br["targets"].items()) + [(None, br["otherwise"])]:
                if v_ == 0: continue
                if disconnect_in(g, g.reachable_from([tgt])): return True
        # a closure handed to an adaptor of the value disconnects (`.map_err(|e| self.disconnect_with_reason(..))`, `unwrap_or_else`, `if let Err(e) = .. `)
        for g2 in fn_and_closures(t, owner_fn(t, g)):
            if "{closure" not in g2.path or not disconnect_in(g2): continue
            par, cons = consumers(g2)
            if any(contains(norm(t.arg(x, 0)), lambda y: y == me) for x in cons if x.node["args"]): return True
        # the value leaves a closure as (part of) its result: follow it into the consumer of the closure
        if "{closure" in g.path:
            ret = norm(g.origin_of_local(0))
            flows = contains(ret, lambda x: x == me) or (e is not None)
            if flows:
                par, cons = consumers(g)
                for x in cons:
                    if x.node.get("target") is None: continue
                    if err_handled(par, x, depth + 1): return True
        return False
    callsites = []
    for g in fn_and_closures(t, pp):
        callsites += [(g, c) for c in list(t.calls(r"packet::Packet::from_bytes$", g)) + list(t.calls(r"ReceiveChannelReliable::process_message$", g)) + list(t.calls(r"Receive(ChannelReliable|ChannelUnreliable)::process_slice$", g))]
    for g, c in callsites:
        r.site(c, short(callee_name(c.node)))
        if not err_handled(g, c): r.bad(f"no-disconnect|{short(callee_name(c.node))}", c, "the error of this call does not lead to disconnect_with_reason (result dropped, or its error edge does not disconnect)")
    for g in fn_and_closures(t, pp):
        for c in t.calls(r"HashMap.*::get_mut$", g):
            if "receive_" not in fmt(resolved(t, t.arg(c, 0), g)): continue
            r.site(c, "channel lookup")
            me = norm(g.call_origin(c.node))
            e = t.result_edges(g, c)
            ok = False
            if e:
                reg = g.reachable_from([e[1][1]])
                ok = any(s_.bb in reg for s_ in t.aggrs("error::DisconnectReason", "ReceivedInvalidChannelId", g))
            if not ok:
                # `.ok_or(ReceivedInvalidChannelId(id))?` / `.ok_or_else(|| ..)`: the None case is turned into the reason by the adaptor
                for x in t.calls(r"Option.*::ok_or(_else)?$", g):
                    if contains(norm(t.arg(x, 0)), lambda y: y == me) and ("ReceivedInvalidChannelId" in fmt(t.arg(x, 1)) or any("ReceivedInvalidChannelId" in fmt(a_.node and t.stored(a_)) for g3 in fn_and_closures(t, owner_fn(t, g)) if "{closure" in g3.path for a_ in t.aggrs("error::DisconnectReason", "ReceivedInvalidChannelId", g3))): ok = True
            if e is None and not ok:
                # matched some other way (`let Some(ch) = .. else { .. }` is result_edges; a `match` on the Option with the reason in the None arm)
                for br in t.branches(g):
                    if br["kind"] == "discr" and contains(norm(br["on"]), lambda y: y == me):
                        none_t = br["targets"].get(0, br["otherwise"])
                        if any(s_.bb in g.reachable_from([none_t]) for s_ in t.aggrs("error::DisconnectReason", "ReceivedInvalidChannelId", g)): ok = True
            if not ok: r.bad("invalid-channel", c, "unknown channel id is not turned into ReceivedInvalidChannelId")
    out.append(r)
    r = RuleResult("C06.c", "accounted receive memory stays within budget and never wraps (PAIR + budget guards, shared with C09)", floor=4)
    for rr in C09.rules(t):
        if rr.id in ("C09.a", "C09.b", "C09.f", "C09.g"):
            r.sites += 1
            for v in rr.violations:
                if "Receive" in v.key or "release-from-param" in v.key or "timestamp" in v.key: r.bad(v.key.split("|", 1)[1], v.site, v.msg)
    out.append(r)
    out.append(shared.range_algebra(t, "C06.d"))
    out.append(W3.ack_lookup_range(t, "C06.e"))
    return out

_rules_C06_w6 = rules
def rules(t, *a, **kw):
    import rules.wave6 as W6
    out = _rules_C06_w6(t, *a, **kw)
    out.append(W6.stale_index(t, "C06.f"))
    return out
