# C06 renet survives hostile packets: obligations + error mapping
import re
from sa.rules import *
import rules.wave3 as W3
import rules.shared as shared
from rules.oblcommon import obl_rule
import rules.C09 as C09

def rules(t):
    out = []
    r, d = obl_rule("C06.a", "OBL(renet): every partial operation reachable from the RenetClient/RenetServer API is discharged or vetted", "renet", floor=70)
    out.append(r)
    pp = t.fn("RenetClient::process_packet")
    r = RuleResult("C06.b", "every parse / channel error on the packet path disconnects with a reason and returns", floor=8)
    for c in list(t.calls(r"packet::Packet::from_bytes$", pp)) + list(t.calls(r"ReceiveChannelReliable::process_message$", pp)) + list(t.calls(r"Receive(ChannelReliable|ChannelUnreliable)::process_slice$", pp)):
        r.site(c, short(callee_name(c.node)))
        e = t.result_edges(pp, c)
        if not e: r.bad(f"unchecked|{short(callee_name(c.node))}", c, "result not checked"); continue
        err_only = pp.reachable_from([e[1][1]]) - pp.reachable_from([e[0][1]])
        dis = [x for x in t.calls(r"RenetClient::disconnect_with_reason$", pp) if x.bb in err_only or x.bb in pp.reachable_from([e[1][1]])]
        if not any(x.bb in pp.reachable_from([e[1][1]]) and not t.edge_dominates(pp, e[0], x.bb) for x in dis): r.bad(f"no-disconnect|{short(callee_name(c.node))}", c, "error edge does not disconnect the connection")
    for c in t.calls(r"HashMap.*::get_mut$", pp):
        if "receive_" in fmt(t.arg(c, 0)):
            r.site(c, "channel lookup")
            e = t.result_edges(pp, c)
            if e:
                reg = pp.reachable_from([e[1][1]])
                inv = [s for s in t.aggrs("error::DisconnectReason", "ReceivedInvalidChannelId", pp) if s.bb in reg]
                if not inv: r.bad("invalid-channel", c, "unknown channel id is not turned into ReceivedInvalidChannelId")
    out.append(r)
    r = RuleResult("C06.c", "accounted receive memory stays within budget and never wraps (PAIR + budget guards, shared with C09)", floor=4)
    for rr in C09.rules(t):
        if rr.id in ("C09.a", "C09.b", "C09.f", "C09.g"):
            r.sites += 1
            for v in rr.violations:
                if "Receive" in v.key or "release-from-param" in v.key or "timestamp" in v.key: r.bad(v.key.split("|", 1)[1], v.site, v.msg)
    out.append(r)
    out.append(shared.range_algebra(t, "C06.d"))
    out.append(W3.ack_lookup_range(t, "C06.e"))
    return out
