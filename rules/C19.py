# C19 No traffic amplification towards addresses that have not proven themselves
import re
from sa.rules import *
import rules.wave3 as W3
import rules.shared as shared
from rules.netcode_common import *
from sa import codec

def rules(t):
    out = []
    h = t.fn("NetcodeServer::handle_connection_request"); p = t.fn("NetcodeServer::process_packet_internal")
    r = RuleResult("C19.a", "replies on pre-handshake paths are behind a successful token / challenge decode", floor=4)
    tok = ok_edges_of(t, h, r"PrivateConnectToken::decode$"); chal = ok_edges_of(t, p, r"ChallengeToken::decode$")
    replies = []
    for s in list(t.aggrs("server::ServerResult", "PacketToSend", h)):
        r.site(s); replies.append(s)
        if not any(t.edge_dominates(h, e, s.bb) for e in tok): r.bad(f"{h.path}|reply", s, "reply to a connection request without an authenticated token")
    for s in list(t.aggrs("server::ServerResult", "PacketToSend", p)) + list(t.aggrs("server::ServerResult", "ClientConnected", p)):
        r.site(s); replies.append(s)
        if not any(t.edge_dominates(p, e, s.bb) for e in chal): r.bad(f"{p.path}|reply", s, "reply to a pending address without a valid challenge response")
    out.append(r)
    r = RuleResult("C19.b", "replies go to the datagram's source address", floor=4)
    for s in replies:
        r.site(s)
        a = strip(t.field_of_aggr(s, "addr"))
        if not (isinstance(a, tuple) and a[0] == "param" and (a[2] or "") == "addr"): r.bad(f"{s.fn.path}|addr", s, f"reply address is {fmt(a)[:40]}, not the source address")
    out.append(r)
    r = RuleResult("C19.c", "reply sizes are strictly below the smallest datagram that can trigger them", floor=2)
    C = t.F.consts
    def cst(n): return C["renetcode::" + n]["val"]
    mac, chal_b, priv, xn = cst("NETCODE_MAC_BYTES"), cst("NETCODE_CHALLENGE_TOKEN_BYTES"), cst("NETCODE_CONNECT_TOKEN_PRIVATE_BYTES"), cst("NETCODE_CONNECT_TOKEN_XNONCE_BYTES")
    sizes = codec.netcode_packet_sizes(t.F)   # body sizes per variant from the writer
    req_min = 1 + sizes["ConnectionRequest"]
    challenge_max = 1 + 8 + sizes["Challenge"] + mac; denied_max = 1 + 8 + sizes["ConnectionDenied"] + mac
    resp_min = 1 + 0 + sizes["Response"] + mac; keep_max = 1 + 8 + sizes["KeepAlive"] + mac
    r.sites = 2
    r.samples.append(f"request>={req_min} challenge<={challenge_max} denied<={denied_max} response>={resp_min} keepalive<={keep_max}")
    if not (req_min > max(challenge_max, denied_max)): r.bad("request", None, f"request min {req_min} is not larger than replies {challenge_max}/{denied_max}")
    if not (resp_min > max(keep_max, denied_max)): r.bad("response", None, f"response min {resp_min} is not larger than replies {keep_max}/{denied_max}")
    out.append(r)
    r = RuleResult("C19.d", "at most one datagram per ServerResult in the transport", floor=5)
    f = t.fn("renet_netcode::server::handle_server_result")
    names = t.variants_of("renetcode::server::ServerResult")
    main = sorted([br for br in t.branches(f) if br["kind"] == "discr" and "P1(server_result)" in fmt(br["on"])], key=lambda b_: -len(b_["targets"]))[:1]
    for br in main:
        for v, tgt in list(br["targets"].items()):
            nm = names.get(v); r.site(Site(f, tgt, 0, f.blocks[tgt]["term"]), nm or "")
            other = [x for w, x in br["targets"].items() if w != v] + [br["otherwise"]]
            region = f.reachable_from([tgt]) - set().union(*[f.reachable_from([o]) for o in other if o != tgt]) if other else f.reachable_from([tgt])
            sends = [c for c in t.calls(r"closure#0|send_to", f) if c.bb in region and ("Fn" in callee_name(c.node) or "send_to" in callee_name(c.node))]
            if len(sends) > 1: r.bad(f"arm|{nm}", sends[1], f"{nm}: more than one datagram sent")
    out.append(r)
    out.append(shared.aad_rule(t, "C19.f", "token"))
    r = RuleResult("C19.g", "a reply is produced only behind the connect-token / challenge acceptance gate (shared with C05: version, protocol, expiry, token open, host list, token reuse, challenge ownership)", floor=8)
    import rules.C05 as C05
    for rr in C05.rules(t):
        if rr.id in ("C05.a1", "C05.a2", "C05.a3", "C05.a4", "C05.a5", "C05.a6", "C05.c1", "C05.c3", "C05.g"):
            r.sites += rr.sites
            for v in rr.violations: r.bad(v.key, v.site, v.msg)
    out.append(r)
    out.append(W3.replies_behind_token_gate(t, "C19.h"))
    out.append(W3.index_space(t, "C19.i"))
    return out

_rules_c19_w5 = rules
def rules(t):
    import rules.shared as shared
    out = _rules_c19_w5(t)
    shared.share(t, out, "C19.j", "a half-open entry is dropped in the update() that passes its token's expiry (tested against the advanced clock), so an expired handshake gets no answer", "C05", ("C05.e",))
    return out

_rules_C19_w5d = rules
def rules(t, *a, **kw):
    import rules.wave5 as W5
    out = _rules_C19_w5d(t, *a, **kw)
    out.append(W5.token_history_writers(t, "C19.k"))
    return out

_rules_C19_w7 = rules
def rules(t, *a, **kw):
    import rules.wave7 as W7
    out = _rules_C19_w7(t, *a, **kw)
    out.append(W7.reply_behind_id_match(t, "C19.l"))
    return out


def result_addr(t, rid):
    """RESULT-ADDR: whatever process_packet_internal / handle_connection_request hand back for a datagram is addressed to that datagram's source:
    every returned ServerResult is built in place (None / PacketToSend / ClientConnected / ClientDisconnected / Payload) with `addr` = the source
    address parameter. A result obtained from another `&mut self` operation (disconnect(id), update_client(..)) carries the address of whatever
    client that operation acted on: a datagram from an unproven address would make the server send to a third party."""
    r = RuleResult(rid, "every ServerResult returned for a received datagram is built in place and addressed to the datagram's source (no result borrowed from an operation on another client)", floor=0)
    def alts(o, d=0):
        o = strip(o)
        if isinstance(o, tuple) and o[0] == "phi" and d < 6:
            for a in o[2]: yield from alts(a, d + 1)
        else: yield o
    for fnm in ("NetcodeServer::handle_connection_request", "NetcodeServer::process_packet_internal"):
        f = t.fn(fnm)
        for s in t.sites(f):
            n = s.node
            if n["k"] != "assign" or n["place"]["local"] != 0 or n["place"]["proj"]: continue
            v = strip(t.stored(s))
            if not (isinstance(v, tuple) and v[0] == "aggr" and v[2] == "Ok" and v[3]): continue
            for a in alts(v[3][0]):
                r.site(s, fmt(a)[:40])
                if isinstance(a, tuple) and a[0] == "aggr" and a[1].endswith("ServerResult"):
                    names = a[4] if len(a) > 4 else ()
                    if "addr" in names:
                        ad = strip(a[3][names.index("addr")])
                        if not (isinstance(ad, tuple) and ad[0] == "param"): r.bad(f"{short(f.path)}|addr|{a[2]}", s, f"{a[2]} returned for a received datagram is addressed to {fmt(ad)[:60]}, not to the datagram's source address")
                elif isinstance(a, tuple) and a[0] == "call" and re.search(r"NetcodeServer::handle_connection_request$", a[1]): pass
                elif isinstance(a, tuple) and a[0] == "call" and re.search(r"NetcodeServer::", a[1]):
                    r.bad(f"{short(f.path)}|borrowed|{method_of(a[1])}", s, f"the result returned for a received datagram is the result of {short(a[1])}(): its address (and datagram) belong to the client that operation acted on, not to the datagram's source - one datagram from an unproven address makes the server send to another address")
    return r


_rules_C19_w8 = rules
def rules(t, *a, **kw):
    out = _rules_C19_w8(t, *a, **kw)
    out.append(result_addr(t, "C19.m"))
    return out
