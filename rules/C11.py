# C11 Isolation between clients and channels; broadcast reaches exactly its targets — ownership and keyed-access clauses
import re
from sa.rules import *
import rules.wave3 as W3
RC = "renet::remote_connection::RenetClient"
FORBIDDEN = ("std::rc::Rc", "std::sync::Arc", "std::cell::RefCell", "std::cell::Cell", "std::cell::UnsafeCell", "std::sync::Mutex", "std::sync::RwLock", "std::sync::atomic", "std::cell::OnceCell", "std::sync::OnceLock")
ALLOWED = ("bytes::Bytes",)

def type_closure(t, ty, seen, path, bad):
    k = ty.get("k")
    if k in ("ptr",): bad.append((path, "raw pointer")); return
    if k == "ref": bad.append((path, "borrowed reference in connection state")); return
    if k in ("array", "slice"): type_closure(t, ty["of"], seen, path + "[]", bad); return
    if k == "tuple":
        for i, x in enumerate(ty["of"]): type_closure(t, x, seen, f"{path}.{i}", bad)
        return
    if k != "adt": return
    p = ty["path"]
    if any(p.startswith(a) for a in ALLOWED): return
    if any(p.startswith(f) for f in FORBIDDEN): bad.append((path, p)); return
    for a in ty.get("args", []): type_closure(t, a, seen, path + "<>", bad)
    if p in seen: return
    seen.add(p)
    adt = t.F.adts.get(p)
    if adt:
        for v in adt["variants"]:
            for f in v["fields"]: type_closure(t, f["ty"], seen, f"{path}.{f['name']}", bad)

def rules(t):
    out = []
    r = RuleResult("C11.a", "RenetClient owns all of its state: no shared ownership / interior mutability in its type closure, no mutable statics", floor=20)
    seen, bad = set(), []
    type_closure(t, {"k": "adt", "path": RC, "args": []}, seen, "RenetClient", bad)
    r.sites = len(seen) + sum(len(v["fields"]) for p in seen if p in t.F.adts for v in t.F.adts[p]["variants"])
    r.samples.append("types visited: " + ", ".join(sorted(short(x) for x in seen))[:200])
    for path, what in bad: r.bad(f"type|{path}", None, f"{path} contains {what}: two connections could share mutable state")
    for s in t.F.statics:
        if s["path"].startswith("renet::") and s["mutable"]: r.bad(f"static|{s['path']}", None, f"mutable static {s['path']}")
    out.append(r)
    r = RuleResult("C11.b", "per-client server methods touch only the connection keyed by their client_id argument", floor=15)
    for f in t.fns(r"^renet::server::RenetServer::[a-z_]+$"):
        pid = [i for i in range(1, f.argc + 1) if f.locals[i].get("name") == "client_id"]
        if not pid: continue
        for c in t.sites(f):
            n = c.node
            if n["k"] != "call" or not n["args"]: continue
            if not t.rooted_at_field(t.arg(c, 0), "connections"): continue
            m = method_of(callee_name(n))
            if "VacantEntry" in callee_name(n) or "OccupiedEntry" in callee_name(n): continue     # the key was given to entry(key), checked there
            r.site(c, m)
            if m in ("get", "get_mut", "remove", "contains_key", "insert", "entry"):
                k = strip(t.arg(c, 1))
                if not (isinstance(k, tuple) and k[0] == "param" and k[1] == pid[0]): r.bad(f"{f.path}|{m}|key", c, f"{short(f.path)} accesses connections with key {fmt(k)[:40]}, not its client_id")
            elif m in ("values_mut", "iter_mut", "values", "iter", "clear", "retain", "drain"):
                r.bad(f"{f.path}|{m}", c, f"{short(f.path)} is a per-client method but touches all connections ({m})")
    out.append(r)
    r = RuleResult("C11.c", "broadcast sends to every connection; broadcast_except skips exactly the excluded id", floor=2)
    b = t.fn("RenetServer::broadcast_message")
    sends = list(t.calls(r"RenetClient::send_message", b))
    for c in sends:
        r.site(c)
        recv_ = fmt(t.arg(c, 0))
        if "values_mut" not in recv_ and not re.search(r"iter_mut\(&\**P1\(self\)\.connections\)", recv_): r.bad("all", c, "broadcast does not iterate connections.values_mut()")
        if "clone" not in fmt(t.arg(c, 2)): r.bad("clone", c, "broadcast does not send a copy of the message")
        # no conditional skip inside the loop: the send block is reached from the Some-edge unconditionally
        def static_cmp(br):
            """a comparison of two values that are visibly built as different variants (`None == Some(id)` after the shared helper of
            broadcast_message / broadcast_message_except was inlined with `except = None`): decided at compile time, not a skip"""
            cnd = br.get("cond") or ()
            if len(cnd) < 4 or cnd[0] != "cmp" or cnd[1] not in ("Eq", "Ne"): return False
            a_, b_ = strip(cnd[2]), strip(cnd[3])
            return all(isinstance(x, tuple) and x and x[0] == "aggr" for x in (a_, b_)) and a_[2] != b_[2] and {a_[2], b_[2]} == {"None", "Some"}
        conds = [br for br in t.branches(b) if br["kind"] == "bool" and br["bb"] in b.reach and "log" not in fmt(br["raw"]) and not static_cmp(br)]
        if conds: r.bad("skip", c, "broadcast_message contains a conditional skip")
    if not sends: r.bad("missing", None, "broadcast_message does not call send_message")
    e = t.fn("RenetServer::broadcast_message_except")
    sends = list(t.calls(r"RenetClient::send_message", e))
    def unsome(o):
        """`Some(x)` built on the spot -> x (the shared helper takes `Option<ClientId>` and compares `except == Some(id)`)"""
        o2 = strip(o)
        return o2[3][0] if isinstance(o2, tuple) and o2 and o2[0] == "aggr" and o2[2] == "Some" and len(o2[3]) == 1 else o
    cm = list(t.find_cmp(e, lambda a: isinstance(strip(unsome(a)), tuple) and strip(unsome(a))[0] == "param" and "except" in (strip(unsome(a))[2] or ""), lambda b_: "iter_mut" in fmt(b_) or "IterMut" in fmt(b_), None))
    for c in sends:
        r.site(c)
        ok = False
        for br, op, te, fe in cm:
            skip_edge, go_edge = (te, fe) if op == "Eq" else (fe, te)
            if op in ("Eq", "Ne") and t.edge_dominates(e, go_edge, c.bb) and c.bb not in (e.reachable_from([skip_edge[1]]) - e.reachable_from([go_edge[1]])): ok = True
        if not ok:
            # the same skip as the predicate of a `filter` over the connections: `.iter_mut().filter(|(id, _)| **id != except_id)`
            for g in fn_and_closures(t, e):
                if g is e: continue
                c0, neg = strip(g.origin_of_local(0)), False
                while isinstance(c0, tuple) and c0[0] == "un" and c0[1] == "Not": neg = not neg; c0 = c0[2]
                cnd = t.norm_cond(c0)
                if cnd[0] != "cmp" or cnd[1] not in ("Eq", "Ne"): continue
                keep_if_ne = (cnd[1] == "Ne") != neg
                sides = [fmt(resolved(t, cnd[2], g)), fmt(resolved(t, cnd[3], g))]
                if not keep_if_ne or not any("except" in x for x in sides) or not any(re.search(r"P2\(", x) for x in sides): continue
                tag = re.search(r"\{closure#\d+\}$", g.path).group(0)
                recv = fmt(t.arg(c, 0))
                if re.search(r"filter\([^{}]*iter_mut\([^{}]*connections[^{}]*" + re.escape(tag), recv) or (("::filter(" in recv or "Filter" in recv) and tag in recv and "connections" in recv): ok = True
        if not ok: r.bad("except", c, "broadcast_message_except does not skip exactly `id == except_id`")
    out.append(r)
    r = RuleResult("C11.d", "channels are kept apart: packets dispatched by kind and own channel id, channel objects built and registered under their configured id (shared with C03.a1/a2)", floor=14)
    import rules.C03 as C03
    for rr in C03._rules_c03(t) if hasattr(C03, "_rules_c03") else C03.rules(t):
        if rr.id in ("C03.a1", "C03.a2"):
            r.sites += rr.sites
            for v in rr.violations: r.bad(v.key, v.site, v.msg)
    out.append(r)
    r = RuleResult("C11.e", "one channel cannot starve the others through the shared tick budget: the budget is charged only for bytes that are emitted, behind `budget >= x` (shared with C14.a/b)", floor=3)
    import rules.C14 as C14
    for rr in C14.rules(t):
        if rr.id in ("C14.a", "C14.b"):
            r.sites += rr.sites
            for v in rr.violations: r.bad(v.key, v.site, v.msg)
    out.append(r)
    out.append(W3.broadcast_total(t, "C11.f"))
    rr_ = RuleResult("C11.g", "the connection-wide packet sequence is advanced for every packet of every channel: acks of one channel's packets are never credited to another channel (shared with C01.h)", floor=1)
    import rules.C01 as _SRC
    for x_ in _SRC.rules(t):
        if x_.id == "C01.h":
            rr_.sites += x_.sites
            for v_ in x_.violations: rr_.bad(v_.key, v_.site, v_.msg)
    out.append(rr_)
    return out

_rules_c11_w5 = rules
def rules(t):
    import rules.shared as shared
    out = _rules_c11_w5(t)
    shared.share(t, out, "C11.h", "a connection's channel budget does not leak when the shared tick budget (used up by another channel) makes it drop a message: every element leaving a send queue is released", "C09", ("C09.f",))
    shared.share(t, out, "C11.i", "a broadcast is obtained once per client: an unordered message is buffered only behind the received_messages test", "C02", ("C02.a",))
    shared.share(t, out, "C11.j", "traffic is attributed to one session per client id: the slot fill is behind the already-connected test on the id", "C10", ("C10.a1",))
    return out

_rules_c11_w5b = rules
def rules(t):
    import rules.wave5 as W5
    out = _rules_c11_w5b(t)
    out.append(W5.full_visit(t, "C11.k", "RenetServer::update advances every connection: a disconnected or failing connection does not stop the traversal of the others", "RenetServer::update", "connections"))
    for i_, fn_ in enumerate(("RenetServer::broadcast_message", "RenetServer::broadcast_message_except")):
        out.append(W5.full_visit(t, "C11.l%d" % (i_ + 1), f"{fn_.split('::')[1]} reaches every connection: the traversal of connections is not cut short (no truncating adaptor, no early exit)", fn_, "connections"))
    return out
