# rule instances added after the fourth, fifth and sixth seeding waves (G/H, I/J, K/L seeds); each states a structural necessary condition of a
# property clause over resolved program entities (fields, variants, resolved callees, CFG edges), see DESIGN.md section 11.3
import re
from sa.rules import *
from sa.rules import NEGATE, MIRROR
from rules.netcode_common import reachable_avoiding


def _term_site(f, bb): return Site(f, bb, len(f.blocks[bb]["stmts"]), f.blocks[bb]["term"])


def ack_dispatch(t, rid):
    """ACK-DISPATCH: in the Ack arm of RenetClient::process_packet a sent-packet record that is taken out of `sent_packets` is always handed to the
    dispatch on its `info` (which calls the ack handlers of the send channels / acked_largest): no early `continue`/`return` between the removal
    and the dispatch. Otherwise the acknowledgement is consumed and lost: the message keeps being retransmitted and its bytes are never given back."""
    r = RuleResult(rid, "an acknowledged sent-packet record taken out of sent_packets always reaches the dispatch on its info (ack handlers): no early exit between removal and dispatch", floor=1)
    f0 = t.fn("RenetClient::process_packet")
    for f in fn_and_closures(t, f0):
        rem = [c for c in t.sites(f) if c.node["k"] == "call" and method_of(callee_name(c.node)) in ("remove", "remove_entry", "pop_first", "pop_last") and c.node["args"] and "sent_packets" in fmt(t.arg(c, 0))]
        if not rem: continue
        disp = [_term_site(f, br["bb"]) for br in t.branches(f) if br["kind"] == "discr" and fmt(strip(br["on"])).endswith(".info") and "sent_packets" in fmt(br["on"])]
        # the handlers themselves, when the dispatch is not a visible switch (e.g. moved into a method of PacketSentInfo that was not inlined)
        handlers = [c for c in t.sites(f) if c.node["k"] == "call" and re.search(r"process_message_ack$|process_slice_message_ack$|acked_largest$", callee_name(c.node))]
        for c in rem:
            r.site(c, "record removed")
            if not disp and not handlers:
                r.bad("no-dispatch", c, "a sent-packet record is removed but its info is never dispatched to the ack handlers"); continue
            e = t.result_edges(f, c)
            start, avoid = pos(c), set()
            if e and e[0][1] != e[1][1]: start, avoid = (e[0][0], len(f.blocks[e[0][0]]["stmts"])), {e[1]}
            ok, w = must_pass(f, start, {pos(x) for x in (disp or handlers)}, avoid_edges=avoid)
            if not ok:
                r.bad("skipped", c, f"a path from the removal of an acknowledged sent-packet record leaves the iteration (bb{w}) without dispatching its info to the ack handlers: the acknowledgement is consumed but the message stays unacknowledged (retransmitted again, bytes never given back)")
    if not r.sites: r.bad("anchor", None, "no removal from sent_packets found in process_packet")
    return r


TRUNCATING = ("take_while", "map_while", "skip_while", "take", "skip", "step_by", "scan", "nth", "find", "find_map", "position", "any", "all")

def full_visit(t, rid, descr, fname, field, floor=1):
    """FULL-VISIT: `fname` handles every member of `self.<field>` in one call: the iteration over the field is not wrapped in a truncating adaptor
    (take_while, map_while, take, skip, ..) and, when it is a loop, its only exit is the exhausted iterator (no `break` / `return` that leaves
    later members unvisited). Panic exits are not paths."""
    r = RuleResult(rid, descr, floor=0)      # a traversal in a form this rule does not recognise is left to the sibling rules of the property (they fail closed); this rule reports only a traversal it can see being cut short
    f0 = t.fn(fname)
    PASS = ("iter", "iter_mut", "into_iter", "values", "values_mut", "keys", "by_ref", "enumerate", "rev", "copied", "cloned", "peekable", "drain", "as_slice", "as_mut_slice", "deref", "deref_mut", "borrow", "borrow_mut", "as_ref", "as_mut") + TRUNCATING + ("filter", "map", "filter_map", "inspect")
    def over_field(o):
        """o is an iterator (chain) whose source is self.<field> itself"""
        for _ in range(12):
            o = strip(o)
            if isinstance(o, tuple) and o[0] == "call" and o[2] and method_of(o[1]) in PASS: o = o[2][0]; continue
            break
        return isinstance(o, tuple) and o[0] == "field" and o[2] == field
    for f in fn_and_closures(t, f0):
        for c in t.sites(f):
            if c.node["k"] != "call" or not c.node["args"]: continue
            m_ = method_of(callee_name(c.node))
            a0 = t.arg(c, 0)
            if not over_field(a0): continue
            # an adaptor that can end the traversal early, applied to an iterator over the field
            if m_ in TRUNCATING and re.search(r"iter::|Iterator|Iter|Values|Keys", callee_name(c.node)):
                r.site(c, f"adaptor {m_}")
                r.bad(f"{short(f0.path)}|truncated|{m_}", c, f"the traversal of {field} is wrapped in `{m_}`: it can stop before every member was handled")
            if m_ != "next": continue
            lp = innermost_loop(f, c.bb)
            if lp is None: continue
            head, body = lp
            r.site(c, f"loop over {field}")
            exits = {(x, s) for x in body for s in f.succ[x] if s not in body}
            legit = set()
            me = norm(f.call_origin(c.node))
            for br in t.branches(f):
                if br["kind"] == "discr" and br["bb"] in body and norm(strip(br["on"])) == me:
                    legit |= {(br["bb"], tgt) for tgt in list(br["targets"].values()) + [br["otherwise"]] if tgt not in body}
            extra = {e_ for e_ in exits - legit if f.reachable_from([e_[1]]) & set(f.returns)}
            if extra:
                x = sorted(extra)[0]
                r.bad(f"{short(f0.path)}|early-exit", _term_site(f, x[0]), f"the loop over {field} can be left before the iterator is exhausted (edge bb{x[0]}->bb{x[1]}): members after that point are not handled in this call")
    if not r.sites:
        # no explicit loop: accepted forms are total consumers (for_each, fold, extend/collect of a non-truncated chain)
        tot = [c for f in fn_and_closures(t, f0) for c in t.sites(f) if c.node["k"] == "call" and c.node["args"] and over_field(t.arg(c, 0)) and method_of(callee_name(c.node)) in ("for_each", "fold", "collect", "extend", "sum", "count", "try_for_each", "flat_map", "map", "filter", "filter_map", "retain", "retain_mut")]
        for c in tot: r.site(c, "total consumer")
    return r


def find_aggrs(o, path_pat, out=None):
    """all ('aggr', path, ..) sub-expressions of origin o whose path matches"""
    if out is None: out = []
    if isinstance(o, tuple):
        if o and o[0] == "aggr" and re.search(path_pat, str(o[1])): out.append(o)
        for x in o:
            if isinstance(x, tuple): find_aggrs(x, path_pat, out)
    return out


def slice_scan_all(t, rid):
    """SCAN-ALL: the resend scan of a sliced message looks at every slice index in each tick. When the scan is a loop over an integer range that
    ends at num_slices, the range starts at 0 (the rotation by next_slice_to_send happens inside, modulo num_slices). A range that starts at a
    stored cursor never looks at the slices before it again: a slice lost twice is never retransmitted."""
    r = RuleResult(rid, "the resend scan over the slices of a message covers every index: an integer range ending at num_slices starts at 0", floor=0)
    f0 = t.fn("SendChannelReliable::get_packets_to_send")
    ranges = []
    for f in fn_and_closures(t, f0):
        for c in t.sites(f):
            if c.node["k"] != "call" or method_of(callee_name(c.node)) != "next" or not c.node["args"]: continue
            for a in find_aggrs(t.arg(c, 0), r"ops::Range$|ops::range::Range$"):
                if len(a[3]) == 2 and re.search(r"num_slices$", fmt(strip(a[3][1]))): ranges.append((c, a))
    seen = set()
    for c, a in ranges:
        k = fmt(a)
        if k in seen: continue
        seen.add(k); r.site(c, f"range {fmt(a)[:80]}")
    starts0 = [a for c, a in ranges if const_eval(a[3][0]) == 0]
    for c, a in ranges:
        if const_eval(a[3][0]) == 0 or starts0: continue
        if fmt(a) in seen:
            seen.discard(fmt(a))
            r.bad("start", c, f"the slice scan runs over {fmt(strip(a[3][0]))[-60:]}..num_slices: slices before the stored position are never examined again in a later tick (an unacknowledged slice there is never retransmitted)")
    return r


def ordered_flag(t, rid):
    """ORDER-FLAG: the `ordered` argument of ReceiveChannelReliable::new agrees with the configured send type: true only under
    SendType::ReliableOrdered, false only under SendType::ReliableUnordered (decided per definition of the flag, on the variant edges that
    dominate it)."""
    from rules.netcode_common import enum_variants_at
    r = RuleResult(rid, "a reliable receive channel is built ordered exactly when its configuration says ReliableOrdered", floor=0)
    f = t.fn("RenetClient::from_channels")
    ADT = "renet::channel::SendType"
    if not t.variants_of(ADT): ADT = "SendType"
    on = lambda o: fmt(strip(o)).endswith(".send_type")
    want = {1: "ReliableOrdered", 0: "ReliableUnordered"}
    for g in fn_and_closures(t, f):
        for c in t.calls(r"ReceiveChannelReliable::new$", g):
            a = strip(t.arg(c, 1))
            cases = []      # (value, block where the value is decided)
            if const_eval(a) is not None: cases.append((const_eval(a), c.bb))
            elif isinstance(a, tuple) and a[0] == "phi" and all(const_eval(x) is not None for x in a[2]):
                for bb_d, _, d in g.defs().get(a[1], []):
                    if d["k"] == "assign" and d["rv"]["k"] == "use" and d["rv"]["op"]["k"] == "const": cases.append((d["rv"]["op"]["val"], bb_d))
            if not cases: r.samples.append(f"ordered flag not resolved: {fmt(a)[:80]}"); continue
            r.site(c, f"ordered = {sorted(set(v for v, _ in cases))}")
            for v, bb in cases:
                vs = enum_variants_at(t, g, on, ADT, bb)
                if want.get(v) is None or not vs: continue
                wrong = vs - {want[v]}
                if len(vs) < 3 and wrong:
                    r.bad(f"flag|{v}", c, f"ReceiveChannelReliable::new(.., ordered = {bool(v)}) is reached for send type {sorted(wrong)}: the receive side of that channel {'holds messages back in id order' if v else 'hands messages out as they arrive'} although it was configured otherwise")
    return r
