# rule instances added after the fourth, fifth and sixth seeding waves (G/H, I/J, K/L seeds); each states a structural necessary condition of a
# property clause over resolved program entities (fields, variants, resolved callees, CFG edges), see DESIGN.md section 11.3
import re
from sa.rules import *
from sa.rules import NEGATE, MIRROR
from rules.netcode_common import reachable_avoiding


def _term_site(f, bb): return Site(f, bb, len(f.blocks[bb]["stmts"]), f.blocks[bb]["term"])


def ack_dispatch(t, rid):
    """ACK-DISPATCH: in the Ack arm of RenetClient::process_packet a sent-packet record that is taken out of `sent_packets` is always handed to the
    dispatch on its `info` (which calls the ack handlers of the send channels / acked_largest): no early `continue`/`return` between the removal
    and the dispatch. Otherwise the acknowledgement is consumed and lost: the message keeps being retransmitted and its bytes are never given back."""
    r = RuleResult(rid, "an acknowledged sent-packet record taken out of sent_packets always reaches the dispatch on its info (ack handlers): no early exit between removal and dispatch", floor=0)
    f0 = t.fn("RenetClient::process_packet")
    for f in fn_and_closures(t, f0):
        rem = [c for c in t.sites(f) if c.node["k"] == "call" and method_of(callee_name(c.node)) in ("remove", "remove_entry", "pop_first", "pop_last") and c.node["args"] and "sent_packets" in fmt(t.arg(c, 0))]
        if not rem: continue
        disp = [_term_site(f, br["bb"]) for br in t.branches(f) if br["kind"] == "discr" and fmt(strip(br["on"])).endswith(".info") and "sent_packets" in fmt(br["on"])]
        # the handlers themselves, when the dispatch is not a visible switch (e.g. moved into a method of PacketSentInfo that was not inlined)
        handlers = [c for c in t.sites(f) if c.node["k"] == "call" and re.search(r"process_message_ack$|process_slice_message_ack$|acked_largest$", callee_name(c.node))]
        for c in rem:
            r.site(c, "record removed")
            if not disp and not handlers:
                r.bad("no-dispatch", c, "a sent-packet record is removed but its info is never dispatched to the ack handlers"); continue
            e = t.result_edges(f, c)
            start, avoid = pos(c), set()
            if e and e[0][1] != e[1][1]: start, avoid = (e[0][0], len(f.blocks[e[0][0]]["stmts"])), {e[1]}
            ok, w = must_pass(f, start, {pos(x) for x in (disp or handlers)}, avoid_edges=avoid)
            if not ok:
                r.bad("skipped", c, f"a path from the removal of an acknowledged sent-packet record leaves the iteration (bb{w}) without dispatching its info to the ack handlers: the acknowledgement is consumed but the message stays unacknowledged (retransmitted again, bytes never given back)")
    if not r.sites: r.bad("anchor", None, "no removal from sent_packets found in process_packet")
    return r


TRUNCATING = ("take_while", "map_while", "skip_while", "take", "skip", "step_by", "scan", "nth", "find", "find_map", "position", "any", "all")

def full_visit(t, rid, descr, fname, field, floor=1):
    """FULL-VISIT: `fname` handles every member of `self.<field>` in one call: the iteration over the field is not wrapped in a truncating adaptor
    (take_while, map_while, take, skip, ..) and, when it is a loop, its only exit is the exhausted iterator (no `break` / `return` that leaves
    later members unvisited). Panic exits are not paths."""
    r = RuleResult(rid, descr, floor=0)      # a traversal in a form this rule does not recognise is left to the sibling rules of the property (they fail closed); this rule reports only a traversal it can see being cut short
    f0 = t.fn(fname)
    PASS = ("iter", "iter_mut", "into_iter", "values", "values_mut", "keys", "by_ref", "enumerate", "rev", "copied", "cloned", "peekable", "drain", "as_slice", "as_mut_slice", "deref", "deref_mut", "borrow", "borrow_mut", "as_ref", "as_mut") + TRUNCATING + ("filter", "map", "filter_map", "inspect")
    def over_field(o):
        """o is an iterator (chain) whose source is self.<field> itself"""
        for _ in range(12):
            o = strip(o)
            if isinstance(o, tuple) and o[0] == "call" and o[2] and method_of(o[1]) in PASS: o = o[2][0]; continue
            break
        return isinstance(o, tuple) and o[0] == "field" and o[2] == field
    for f in fn_and_closures(t, f0):
        for c in t.sites(f):
            if c.node["k"] != "call" or not c.node["args"]: continue
            m_ = method_of(callee_name(c.node))
            a0 = t.arg(c, 0)
            if not over_field(a0): continue
            # an adaptor that can end the traversal early, applied to an iterator over the field
            if m_ in TRUNCATING and re.search(r"iter::|Iterator|Iter|Values|Keys", callee_name(c.node)):
                r.site(c, f"adaptor {m_}")
                r.bad(f"{short(f0.path)}|truncated|{m_}", c, f"the traversal of {field} is wrapped in `{m_}`: it can stop before every member was handled")
            if m_ != "next": continue
            lp = innermost_loop(f, c.bb)
            if lp is None: continue
            head, body = lp
            r.site(c, f"loop over {field}")
            exits = {(x, s) for x in body for s in f.succ[x] if s not in body}
            legit = set()
            me = norm(f.call_origin(c.node))
            for br in t.branches(f):
                if br["kind"] == "discr" and br["bb"] in body and norm(strip(br["on"])) == me:
                    legit |= {(br["bb"], tgt) for tgt in list(br["targets"].values()) + [br["otherwise"]] if tgt not in body}
            extra = {e_ for e_ in exits - legit if f.reachable_from([e_[1]]) & set(f.returns)}
            if extra:
                x = sorted(extra)[0]
                r.bad(f"{short(f0.path)}|early-exit", _term_site(f, x[0]), f"the loop over {field} can be left before the iterator is exhausted (edge bb{x[0]}->bb{x[1]}): members after that point are not handled in this call")
    if not r.sites:
        # no explicit loop: accepted forms are total consumers (for_each, fold, extend/collect of a non-truncated chain)
        tot = [c for f in fn_and_closures(t, f0) for c in t.sites(f) if c.node["k"] == "call" and c.node["args"] and over_field(t.arg(c, 0)) and method_of(callee_name(c.node)) in ("for_each", "fold", "collect", "extend", "sum", "count", "try_for_each", "flat_map", "map", "filter", "filter_map", "retain", "retain_mut")]
        for c in tot: r.site(c, "total consumer")
    return r


def find_aggrs(o, path_pat, out=None):
    """all ('aggr', path, ..) sub-expressions of origin o whose path matches"""
    if out is None: out = []
    if isinstance(o, tuple):
        if o and o[0] == "aggr" and re.search(path_pat, str(o[1])): out.append(o)
        for x in o:
            if isinstance(x, tuple): find_aggrs(x, path_pat, out)
    return out


def slice_scan_all(t, rid):
    """SCAN-ALL: the resend scan of a sliced message looks at every slice index in each tick. When the scan is a loop over an integer range that
    ends at num_slices, the range starts at 0 (the rotation by next_slice_to_send happens inside, modulo num_slices). A range that starts at a
    stored cursor never looks at the slices before it again: a slice lost twice is never retransmitted."""
    r = RuleResult(rid, "the resend scan over the slices of a message covers every index: an integer range ending at num_slices starts at 0", floor=0)
    f0 = t.fn("SendChannelReliable::get_packets_to_send")
    ranges = []
    for f in fn_and_closures(t, f0):
        for c in t.sites(f):
            if c.node["k"] != "call" or method_of(callee_name(c.node)) != "next" or not c.node["args"]: continue
            for a in find_aggrs(t.arg(c, 0), r"ops::Range$|ops::range::Range$"):
                if len(a[3]) == 2 and re.search(r"num_slices$", fmt(strip(a[3][1]))): ranges.append((c, a))
    seen = set()
    for c, a in ranges:
        k = fmt(a)
        if k in seen: continue
        seen.add(k); r.site(c, f"range {fmt(a)[:80]}")
    starts0 = [a for c, a in ranges if const_eval(a[3][0]) == 0]
    for c, a in ranges:
        if const_eval(a[3][0]) == 0 or starts0: continue
        if fmt(a) in seen:
            seen.discard(fmt(a))
            r.bad("start", c, f"the slice scan runs over {fmt(strip(a[3][0]))[-60:]}..num_slices: slices before the stored position are never examined again in a later tick (an unacknowledged slice there is never retransmitted)")
    return r


def ordered_flag(t, rid):
    """ORDER-FLAG: the `ordered` argument of ReceiveChannelReliable::new agrees with the configured send type: true only under
    SendType::ReliableOrdered, false only under SendType::ReliableUnordered (decided per definition of the flag, on the variant edges that
    dominate it)."""
    from rules.netcode_common import enum_variants_at
    r = RuleResult(rid, "a reliable receive channel is built ordered exactly when its configuration says ReliableOrdered", floor=0)
    f = t.fn("RenetClient::from_channels")
    ADT = "renet::channel::SendType"
    if not t.variants_of(ADT): ADT = "SendType"
    on = lambda o: fmt(strip(o)).endswith(".send_type")
    want = {1: "ReliableOrdered", 0: "ReliableUnordered"}
    for g in fn_and_closures(t, f):
        for c in t.calls(r"ReceiveChannelReliable::new$", g):
            a = strip(t.arg(c, 1))
            cases = []      # (value, block where the value is decided)
            if const_eval(a) is not None: cases.append((const_eval(a), c.bb))
            elif isinstance(a, tuple) and a[0] == "phi" and all(const_eval(x) is not None for x in a[2]):
                for bb_d, _, d in g.defs().get(a[1], []):
                    if d["k"] == "assign" and d["rv"]["k"] == "use" and d["rv"]["op"]["k"] == "const": cases.append((d["rv"]["op"]["val"], bb_d))
            if not cases: r.samples.append(f"ordered flag not resolved: {fmt(a)[:80]}"); continue
            r.site(c, f"ordered = {sorted(set(v for v, _ in cases))}")
            for v, bb in cases:
                vs = enum_variants_at(t, g, on, ADT, bb)
                if want.get(v) is None or not vs: continue
                wrong = vs - {want[v]}
                if len(vs) < 3 and wrong:
                    r.bad(f"flag|{v}", c, f"ReceiveChannelReliable::new(.., ordered = {bool(v)}) is reached for send type {sorted(wrong)}: the receive side of that channel {'holds messages back in id order' if v else 'hands messages out as they arrive'} although it was configured otherwise")
    return r


def confirm_kinds(t, rid):
    """CONFIRM-KINDS: the server marks a session `confirmed` (which lets application payloads postpone the periodic keep-alive, F16) only on a
    packet kind that a client sends after it has completed the handshake, i.e. one of the replay-protected kinds (read from
    PacketType::apply_replay_protection). A re-sent connection Response (or an unauthenticated ConnectionRequest) from a client that is still
    waiting for the first keep-alive must not confirm the session: that client ignores payloads and would never get its keep-alive."""
    from rules.netcode_common import decode_sites, variants_at, replay_protected_kinds, CONN
    r = RuleResult(rid, "Connection.confirmed is set only on packet kinds of the connected phase (the replay-protected kinds), never on a repeated handshake packet", floor=0)
    ok_kinds = replay_protected_kinds(t)
    if not ok_kinds: r.bad("kinds", None, "cannot read the replay-protected kinds"); return r
    for s_ in t.stores(CONN, "confirmed"):
        g = owner_fn(t, s_.fn)
        if "NetcodeServer" not in g.path or const_eval(t.stored(s_)) != 1: continue
        r.site(s_, "confirmed = true")
        decs = decode_sites(t, s_.fn)
        if not decs: r.bad(f"{short(g.path)}|no-decode", s_, "session confirmed in a function that does not decode a packet"); continue
        vs = set()
        for d in decs:
            if s_.fn.dominates(d.bb, s_.bb): vs |= set(variants_at(t, s_.fn, d, s_.bb))
        extra = vs - ok_kinds
        if extra: r.bad(f"{short(g.path)}|kinds", s_, f"the session is marked confirmed for packet kinds {sorted(extra)}: a repeated handshake packet of a client that never received the first keep-alive confirms it, after which payloads suppress the keep-alive it is waiting for (it ends in ConnectionResponseTimedOut)")
    return r


def size_window(t, rid, fnames=("NetcodeServer::process_packet_internal", "NetcodeClient::process_packet", "renetcode::packet::Packet::<'a>::decode")):
    """SIZE-WINDOW: a receive function refuses a datagram for its length only outside the window of lengths the peer's encoder produces:
       smallest = 1 (prefix) + fewest sequence bytes + empty body + tag     (server: a conforming client uses sequence 0 for its first
                  connection Response, so everything it sends on an established session carries at least one sequence byte)
       largest  = max(1 + 8 + NETCODE_MAX_PAYLOAD_BYTES + tag, 1 + size of a ConnectionRequest)
    Every branch that compares the buffer length with a constant and whose edge leaves the function without decoding is checked against that
    window (all sizes are read from the code)."""
    from sa import codec
    from rules.netsize import min_return
    r = RuleResult(rid, "SIZE-WINDOW: datagram length refusals lie outside the range of lengths the encoder produces (prefix + sequence + body + tag, up to the payload limit)", floor=0)
    mac = t.F.consts.get("renetcode::NETCODE_MAC_BYTES", {}).get("val")
    maxp = t.F.consts.get("renetcode::NETCODE_MAX_PAYLOAD_BYTES", {}).get("val")
    try: sizes = codec.netcode_packet_sizes(t.F)
    except Exception: sizes = {}
    seq_min = min_return(t, "renetcode::packet::sequence_bytes_required")
    enc = [v for n, v in sizes.items() if n != "ConnectionRequest" and isinstance(v, int)]
    if mac is None or maxp is None or seq_min is None or not enc or not isinstance(sizes.get("ConnectionRequest"), int):
        r.samples.append("sizes not resolvable: rule not evaluated"); r.sites = 1; return r
    largest = max(1 + 8 + maxp + mac, 1 + sizes["ConnectionRequest"])
    is_len = lambda a: isinstance(strip(a), tuple) and strip(a)[0] == "call" and method_of(strip(a)[1]) == "len" and re.search(r"P\d+\((buffer|packet|data)\)", fmt(a))
    is_k = lambda b: const_eval(b) is not None
    for fname in fnames:
        try: f = t.fn(fname)
        except Exception: continue
        smallest = 1 + (max(1, seq_min) if "Server" in fname else seq_min) + min(enc) + mac
        work = [c for c in t.sites(f) if c.node["k"] == "call" and re.search(r"Packet::<'a>::decode$|dencrypted_in_place|Packet::<'a>::read$", callee_name(c.node))]
        if not work: continue
        for rel in ("Lt", "Le", "Gt", "Ge", "Eq"):
            for e, br in rel_edges(t, f, is_len, is_k, rel):
                cnd = br.get("cond") or ()
                if len(cnd) < 4 or cnd[0] != "cmp": continue
                k = None
                for a_, b_ in rebalanced(cnd[2], cnd[3]):
                    if is_len(a_) and is_k(b_): k = const_eval(b_); break
                    if is_len(b_) and is_k(a_): k = const_eval(a_); break
                if k is None: continue
                region = f.reachable_from([e[1]])
                if e[1] == br["bb"] or any(w.bb in region for w in work): continue      # not a refusing edge: the datagram is still decoded
                s_ = _term_site(f, br["bb"])
                r.site(s_, f"refuses len {rel} {k}")
                bad = (rel == "Lt" and k > smallest) or (rel == "Le" and k >= smallest) or (rel == "Gt" and k < largest) or (rel == "Ge" and k <= largest) or (rel == "Eq" and smallest <= k <= largest)
                if bad:
                    r.bad(f"{short(f.path)}|{rel}|{k}", s_, f"{short(f.path)} refuses datagrams with len {rel} {k} before decoding, but the peer's encoder produces every length from {smallest} to {largest} bytes (prefix + sequence + body + {mac}-byte tag; payload limit {maxp}): genuine packets of that size are never surfaced")
    r.samples.append(f"window read from the code: largest {largest}, tag {mac}, fewest sequence bytes {seq_min}, bodies {sorted(set(enc))[:4]}")
    return r


def writer_total(t, rid):
    """WRITER-TOTAL: renet's Packet::to_bytes refuses no packet the packers can hand it: the only errors it returns are the residuals of the
    octets `put_*` calls (buffer too short, which the size bound of C13 excludes). An error value constructed by the writer itself (a new
    validation such as `messages.is_empty()` or `last.end > MAX`) turns a packet the library legitimately builds into
    PacketSerialization(..) and disconnects the connection."""
    r = RuleResult(rid, "Packet::to_bytes constructs no error of its own: every Err comes from an octets put_* call", floor=0)
    f0 = t.fn("renet::packet::Packet::to_bytes")
    for f in fn_and_closures(t, f0):
        for c in t.sites(f):
            if c.node["k"] == "call" and re.search(r"::put_(u8|u16|u32|u64|varint|bytes|varint_with_len)$", callee_name(c.node)): r.sites += 1
        for s in t.sites(f):
            if s.node["k"] != "assign" or s.node["rv"]["k"] != "aggr": continue
            if is_log_or_derive(s.node["span"]): continue
            p = str(s.node["rv"].get("path") or "")
            if p.endswith("SerializationError") or (p.endswith("result::Result") and s.node["rv"].get("vname") == "Err" and "from_residual" not in fmt(t.stored(s))):
                if p.endswith("result::Result") and not re.search(r"SerializationError|Error", fmt(t.stored(s))): continue
                r.bad(f"own-error|{s.node['rv'].get('vname')}", s, f"the packet writer builds an error itself ({fmt(t.stored(s))[:70]}): a packet produced by the library's own packers can be refused at serialisation, which disconnects the connection")
    return r


def budget_field_prov(t, rid):
    """PROV: the per-tick budget a connection works with is the configured one: RenetClient.available_bytes_per_tick is written only where the
    connection is built, with the configuration value itself (no arithmetic, no clamp)."""
    r = RuleResult(rid, "RenetClient.available_bytes_per_tick is the configured value unchanged (written only at construction)", floor=0)
    RC = "remote_connection::RenetClient"
    def pure(o):
        o = strip(o)
        while isinstance(o, tuple) and o[0] == "field": o = strip(o[1])
        return isinstance(o, tuple) and o[0] == "param"
    for s in t.aggrs(RC):
        v = t.field_of_aggr(s, "available_bytes_per_tick")
        if v is None: continue
        r.site(s, f"= {fmt(v)[:60]}")
        if not pure(v): r.bad(f"{short(s.fn.path)}|value", s, f"the connection's per-tick budget is built as {fmt(v)[:90]} instead of the configured available_bytes_per_tick: more (or fewer) bytes than configured leave per tick")
    for s in t.stores(RC, "available_bytes_per_tick"):
        r.site(s, "store")
        r.bad(f"{short(s.fn.path)}|store", s, "the per-tick budget of a live connection is overwritten")
    return r


def _payload_alts(e, depth=0):
    """the values an expression may denote, through phi nodes and through `Some(x)` built and taken apart again (`let Some(v) = helper(..) else ..`):
    field(as(phi(Some{a}, None, Some{b}), Some), 0) -> a, b"""
    e = strip(e)
    if depth > 6 or not isinstance(e, tuple): return [e]
    if e[0] == "phi": return [x for a in e[2] for x in _payload_alts(a, depth + 1)]
    if e[0] == "field" and isinstance(strip(e[1]), tuple) and strip(e[1])[0] == "as" and strip(e[1])[2] in ("Some", "Ok"):
        out = []
        for a in _payload_alts(strip(e[1])[1], depth + 1):
            a = strip(a)
            if isinstance(a, tuple) and a[0] == "aggr" and a[2] in ("Some", "Ok") and a[3]: out += _payload_alts(a[3][0], depth + 1)
            elif isinstance(a, tuple) and a[0] == "aggr" and a[2] in ("None", "Err"): continue
            else: out.append(("field", ("as", a, strip(e[1])[2]), e[2]))
        return out
    return [e]


def _is_now(a):
    a = strip(a)
    return isinstance(a, tuple) and a[0] == "param" and a[2] != "self"      # the only Duration-typed parameter is the tick's time, whatever it is called


def last_sent_values(t, rid):
    """the retransmission timer of a message/slice is only ever set forward: inside SendChannelReliable::get_packets_to_send every store to
    `last_sent` is `Some(current_time)`. Clearing it (None) or back-dating it makes the next tick retransmit before resend_time has elapsed."""
    r = RuleResult(rid, "in the send loop a retransmission timer is only set to Some(current_time) (never cleared or back-dated)", floor=0)
    f0 = t.fn("SendChannelReliable::get_packets_to_send")
    for f in fn_and_closures(t, f0):
        for s in t.sites(f):
            n = s.node
            if n["k"] != "assign" or not n["place"]["proj"] or "last_sent" not in fmt(t.place(s)): continue
            v = strip(t.stored(s))
            r.site(s, fmt(v)[:50])
            ok = isinstance(v, tuple) and v[0] == "aggr" and v[2] == "Some" and all(_is_now(a) for a in _payload_alts(resolved(t, v[3][0], f)))
            if not ok: r.bad(f"value|{fmt(v)[:30]}", s, f"a retransmission timer is set to {fmt(v)[:60]} in the send loop: the message/slice can be transmitted again before resend_time has elapsed since its previous transmission")
    return r


def request_fields_prov(t, rid):
    """PROV: what handle_connection_request validates and authenticates is what arrived: every field argument (version info, protocol id, expire
    timestamp, xnonce, private data) is the corresponding field of the decoded ConnectionRequest packet, unchanged - in particular the expiry
    that is both tested and fed into the token's associated data."""
    r = RuleResult(rid, "handle_connection_request receives the fields of the decoded ConnectionRequest unchanged (no clamped/substituted expiry, id or nonce)", floor=0)
    f = t.fn("NetcodeServer::process_packet_internal")
    for c in t.calls(r"NetcodeServer::handle_connection_request$", f):
        r.site(c)
        for i, a in enumerate(t.args(c)[2:], start=2):
            o = strip(a)
            ok = isinstance(o, tuple) and o[0] == "field" and isinstance(strip(o[1]), tuple) and strip(o[1])[0] == "as" and strip(o[1])[2] == "ConnectionRequest"
            if not ok and isinstance(o, tuple) and o[0] == "param": ok = True
            if not ok: r.bad(f"arg{i}", c, f"argument {i} of handle_connection_request is {fmt(o)[:100]}, not a field of the received ConnectionRequest: the value that is checked / authenticated differs from the one on the wire (a tampered public field is silently repaired)")
    return r


def token_history_writers(t, rid):
    """WRITERS: the connect-token history (connect_token_entries), which binds a token to the first address it was seen from for the token's whole
    lifetime, is written only by find_or_add_connect_token_entry (and initialised by the constructor): nothing clears or rewrites an entry."""
    r = RuleResult(rid, "connect_token_entries is written only by find_or_add_connect_token_entry (no clearing when a session ends)", floor=0)
    NS_ = "server::NetcodeServer"
    for f in t.fns(r"^renetcode::server::"):
        for s in t.sites(f):
            n = s.node
            hit = None
            if n["k"] == "assign" and n["place"]["proj"] and "connect_token_entries" in fmt(t.place(s)): hit = "store"
            elif n["k"] == "call" and n["args"] and "connect_token_entries" in fmt(t.arg(s, 0)) and method_of(callee_name(n)) in ("fill", "clear", "iter_mut", "swap", "take", "replace", "insert", "remove", "push", "truncate", "retain", "for_each", "index_mut", "get_mut", "as_mut", "copy_from_slice", "clone_from_slice"):
                hit = method_of(callee_name(n))
            if not hit: continue
            g = owner_fn(t, f)
            r.site(s, f"{hit} in {short(g.path)}")
            if not re.search(r"::find_or_add_connect_token_entry$|NetcodeServer::new$", g.path):
                r.bad(f"{short(g.path)}|{hit}", s, f"{short(g.path)} modifies the connect-token history ({hit}): once an entry is dropped or rewritten, the same (still unexpired) token is accepted from another address")
    return r


def no_stored_slot_index(t, rid):
    """INDEX-PROV: a slot of NetcodeServer.clients is reached by scanning the table (position / enumerate / find / the id and address helpers), never
    through an index remembered in a field of the server: a remembered slot can meanwhile hold another client's session."""
    r = RuleResult(rid, "NetcodeServer.clients is never indexed by a value stored in a server field (slots are found by scanning)", floor=0)
    for f in t.fns(r"^renetcode::server::"):
        g = owner_fn(t, f)
        if "NetcodeServer" not in g.path: continue
        for s in t.sites(f):
            n = s.node
            outs = []
            if n["k"] == "assign": outs = [t.place(s), t.stored(s)]
            elif n["k"] == "call": outs = [a for a in t.args(s)]
            for o in outs:
                for idx in _index_uses(o, "clients"):
                    r.sites += 1
                    idr = resolved(t, idx, f)
                    if contains(idr, lambda x: isinstance(x, tuple) and x and x[0] == "field" and isinstance(strip(x[1]), tuple) and fmt(strip(x[1])) in ("*P1(self)", "P1(self)") and x[2] not in ("clients",)):
                        r.bad(f"{short(g.path)}|field-index", s, f"clients[..] is indexed by {fmt(idr)[:80]}, a value kept in the server between calls: the slot may have been reused for another client id since it was stored")
    return r


def _index_uses(o, field, out=None):
    """index origins used to index self.<field> inside origin expression o (place projection or Index/IndexMut/get/get_mut call)"""
    if out is None: out = []
    if isinstance(o, tuple):
        if o and o[0] == "index" and fmt(strip(o[1])).endswith("." + field): out.append(o[2])
        if o and o[0] == "call" and len(o) > 2 and len(o[2]) == 2 and method_of(o[1]) in ("index", "index_mut", "get", "get_mut", "get_unchecked", "get_unchecked_mut") and re.search(r"\." + field + r"\)*$", fmt(strip(o[2][0]))): out.append(o[2][1])
        for x in o:
            if isinstance(x, tuple): _index_uses(x, field, out)
    return out


def connect_event_total(t, rid):
    """PAIR (insert => event): in RenetServer::add_connection every path from the insertion of a new connection to the return pushes the
    ClientConnected event (no further condition between the two, e.g. a dedup of queued events)."""
    r = RuleResult(rid, "every insertion into connections is followed by the ClientConnected event on all paths", floor=0)
    for f0 in (t.fn("RenetServer::add_connection"), t.fn("RenetServer::new_local_client")):
        for f in fn_and_closures(t, f0):
            ins = [c for c in t.sites(f) if c.node["k"] == "call" and c.node["args"] and method_of(callee_name(c.node)) in ("insert", "or_insert", "or_insert_with", "try_insert") and ("connections" in fmt(t.arg(c, 0)))]
            ins += [c for c in t.sites(f) if c.node["k"] == "call" and c.node["args"] and re.search(r"VacantEntry.*::insert$", callee_name(c.node)) and "connections" in fmt(t.arg(c, 0))]
            pushes = [c for c in t.sites(f) if c.node["k"] == "call" and len(c.node["args"]) > 1 and method_of(callee_name(c.node)) in ("push_back", "push", "push_front") and "ClientConnected" in fmt(t.arg(c, 1))]
            seen = set()
            for c in ins:
                if pos(c) in seen: continue
                seen.add(pos(c)); r.site(c, "insert")
                if not pushes: continue      # (delegated: the event is pushed by a callee; C12.c1 covers the pairing in the other direction)
                ok, w = must_pass(f, pos(c), {pos(p) for p in pushes})
                if not ok: r.bad(f"{short(f0.path)}|no-event", c, "a connection is inserted on a path that returns without pushing ServerEvent::ClientConnected: the application never learns of a live connection (and later sees a ClientDisconnected without a ClientConnected)")
    return r


def address_codec_identity(t, rid):
    """CODEC-ID (writer side): the token address list is written from the addresses as stored: no address-transforming call
    (to_canonical, to_ipv4_mapped, to_ipv6_mapped, ..) in write_server_addresses, so what is read back is the SocketAddr that went in."""
    r = RuleResult(rid, "the token address writer/reader applies no address transformation (to_canonical, to_ipv4_mapped, ..)", floor=0)
    for fname in ("token::write_server_addresses", "token::read_server_addresses"):
        try: f0 = t.fn(fname)
        except Exception: continue
        for f in fn_and_closures(t, f0):
            r.sites += 1
            for c in t.sites(f):
                if c.node["k"] == "call" and method_of(callee_name(c.node)) in ("to_canonical", "to_ipv4", "to_ipv4_mapped", "to_ipv6_mapped", "to_ipv6_compatible"):
                    r.bad(f"{fname}|{method_of(callee_name(c.node))}", c, f"{fname} applies {method_of(callee_name(c.node))}() to an address: an IPv4-mapped IPv6 address does not read back as the address that was written (a secure server no longer finds itself in the host list)")
    return r


def lookup_key_only(t, rid):
    """KEY-ONLY lookups: the table lookups by id / by address decide on the key alone. A session that is in the slot array owns its id and its
    address until the slot is cleared; a lookup that also looks at `state`, `confirmed`, a timer .. makes a session that is still listed
    (clients_id, client_addr, is_client_connected) invisible to the dispatch and to the already-connected checks, so a second session for the
    same id/address can be admitted next to it."""
    r = RuleResult(rid, "find_client_*_by_id / _by_addr test nothing but the key (client_id / addr) of an occupied slot", floor=0)
    allowed = {"find_client_mut_by_id": {"client_id"}, "find_client_by_id": {"client_id"}, "find_client_slot_by_id": {"client_id"}, "find_client_mut_by_addr": {"addr"}}
    for name, keys in allowed.items():
        try: top = t.fn("renetcode::server::" + name)
        except Exception: continue
        fs = [g for g in t.fns() if g.path == top.path or g.path.startswith(top.path + "::{closure")]
        r.site(Site(top, 0, 0, top.blocks[0]["term"]), name)
        used = set()
        for g in fs:
            conds = [br.get("raw") if br["kind"] == "bool" else br.get("on") for br in t.branches(g)]
            if "{closure" in g.path: conds.append(g.origin_of_local(0))
            for o in conds:
                def visit(x):
                    if isinstance(x, tuple):
                        if x and x[0] == "field" and len(x) > 3 and str(x[3] or "").endswith("Connection"): used.add(x[2])
                        for y in x:
                            if isinstance(y, tuple): visit(y)
                visit(o)
        extra = used - keys
        if extra: r.bad(f"{name}|extra-field|{sorted(extra)[0]}", Site(top, 0, 0, top.blocks[0]["term"]), f"{name} also looks at Connection.{sorted(extra)} when it searches the table: a listed session can be skipped, so its id/address is treated as free while the slot is still occupied")
    return r


def free_slot_only(t, rid):
    """FREE-SLOT: the slot a new session is stored into is chosen by `position(is_none)` alone. Every `position` that contributes to the index of
    the slot fill (directly, or through the closure of an `or_else` / `unwrap_or_else` fallback) has the predicate "slot is empty"; a fallback
    that picks an occupied slot (unconfirmed, oldest, ..) overwrites a session that was reported with ClientConnected, without any
    ClientDisconnected."""
    r = RuleResult(rid, "the slot index of the slot fill comes only from position(|slot| slot.is_none())", floor=0)
    f = t.fn("NetcodeServer::process_packet_internal")
    def closure_by_tag(o):
        txt = str(o[1]) if isinstance(o, tuple) and o[0] == "aggr" else ""
        m = re.search(r"([A-Za-z_0-9:<>' ]+\{closure#\d+\}(::\{closure#\d+\})*)", txt)
        if not m: return None
        tag = m.group(1)
        c = [g for g in t.fns() if g.path.endswith(tag) or short(g.path) == tag or g.path.endswith("::" + tag.split("::", 1)[-1])]
        return c[0] if len(c) >= 1 else None
    def pred_is_empty(g):
        v = strip(g.origin_of_local(0))
        if isinstance(v, tuple) and v[0] == "call" and method_of(v[1]) == "is_none": return True
        # `matches!(slot, None)`: a switch on the slot's discriminant yielding the constants
        if isinstance(v, tuple) and v[0] == "phi" and all(const_eval(x) is not None for x in v[2]):
            brs = [br for br in t.branches(g) if br["kind"] == "discr"]
            fields = [br for br in t.branches(g) if br["kind"] == "bool"]
            return len(brs) == 1 and not fields and all(not isinstance(x, tuple) or True for x in ())
        return False
    bad, n = [], [0]
    def walk(o, depth=0):
        if depth > 6 or not isinstance(o, tuple): return
        if o and o[0] == "call":
            m_ = method_of(o[1])
            cl = [closure_by_tag(strip(a)) for a in o[2]]
            if m_ in ("position", "rposition") and len(o[2]) == 2:
                n[0] += 1
                g = next((c for c in cl if c is not None), None)
                p_ = strip(o[2][1])
                by_name = isinstance(p_, tuple) and p_[0] == "fn" and str(p_[1]).endswith("is_none")      # position(Option::is_none)
                if not by_name and (g is None or not pred_is_empty(g)): bad.append(fmt(o)[:90])
            else:
                for g in cl:
                    if g is not None: walk(g.origin_of_local(0), depth + 1)
        for x in o:
            if isinstance(x, tuple): walk(x, depth + 1)
    for s in t.sites(f):
        if s.node["k"] == "assign" and any(p["k"] == "index" for p in s.node["place"]["proj"]) and fmt(t.place(s)).count("clients") and "Some" in fmt(t.stored(s))[:30]:
            idx = [pr for pr in s.node["place"]["proj"] if pr["k"] == "index"][0]
            o = f.origin_of_local(idx["local"])
            r.site(s, fmt(o)[:60])
            walk(o)
            for b in bad: r.bad("not-empty-pred", s, f"the slot that is filled can come from {b}: a predicate other than `slot is empty` selects an occupied slot, whose session is overwritten without a ClientDisconnected")
            bad.clear()
    return r
