# C18 Netcode liveness — only the clauses that are visible in the shape of the code
import re
from sa.rules import *
import rules.wave3 as W3
import rules.shared as shared
from rules.netcode_common import *
import rules.C07 as C07

def rules(t):
    out = []
    r = RuleResult("C18.a", "timeouts are refreshed by authenticated packets only (AUTH-DOM on last_packet_received_time)", floor=2)
    for rr in C07.rules(t, with_obl=False):
        if rr.id == "C07.b":
            r.sites = sum(1 for s_ in rr.samples) or rr.sites
            for v in rr.violations:
                if "last_packet_received_time" in v.key: r.bad(v.key.split("|", 1)[1], v.site, v.msg)
    out.append(r)
    r = RuleResult("C18.a2", "REPLAY-DOM: a connected session's timeout is refreshed only by packet kinds covered by the replay protection (a replayed handshake packet cannot postpone a timeout)", floor=1)
    f = t.fn("NetcodeServer::process_packet_internal")
    prot = replay_protected_kinds(t)
    for d in decode_sites(t, f):
        if not keyed(t, d) or "find_client_mut_by_addr" not in fmt(t.arg(d, 2)): continue   # the decode of the connected-client branch
        e = t.result_edges(f, d)
        for s_ in t.stores(CONN, "last_packet_received_time", f):
            if not e or s_.bb not in f.reachable_from([e[0][1]]) or "find_client_mut_by_addr" not in fmt(t.place(s_)): continue
            r.site(s_)
            kinds = variants_at(t, f, d, s_.bb)
            extra = sorted(k for k in kinds if k not in prot)
            if extra: r.bad(f"{f.path}|replayable-refresh", s_, f"last_packet_received_time of a connected client is refreshed by packet kinds {extra}, which are not replay protected (protected: {sorted(prot)}): a captured handshake packet replayed from the client's address postpones its timeout forever")
    out.append(r)
    r = RuleResult("C18.b", "CO-UPDATE: a function changing max_clients keeps the slot array at least as long as the limit", floor=1)
    for s in t.stores(NS, "max_clients"):
        if s.fn.path.endswith("::new"): continue
        r.site(s); f = s.fn
        grown = [x for x in t.stores(NS, "clients", f)]
        guarded = [br for br in t.branches(f) if br["kind"] == "bool" and br["cond"][0] == "cmp" and "clients" in fmt(br["raw"]) and "len" in fmt(br["raw"])]
        ext = [c_ for c_ in t.calls(r"::extend$|::resize_with$", f) if "clients" in fmt(t.arg(c_, 0)) and (re.search(r"saturating_sub|SubWithOverflow|checked_sub", fmt(t.arg(c_, 1))) or method_of(callee_name(c_.node)) == "resize_with")]
        if ext: continue
        if not grown: r.bad(f"{f.path}|no-resize", s, "max_clients can be raised above the number of client slots: later handshakes are denied although the limit allows them")
        elif not any("resize" in fmt(t.stored(x)) or t.mentions_call(t.stored(x), r"into_boxed_slice$|resize") for x in grown): r.bad(f"{f.path}|resize-shape", s, "clients replaced but not resized to the new limit")
    out.append(r)
    r = RuleResult("C18.c", "timeout and keep-alive predicates: a session is timed out only when `last_received + timeout < now`; a keep-alive is sent when `last_send + rate <= now` and re-arms the timer", floor=3)
    u = t.fn("NetcodeServer::update_client")
    is_deadline = lambda a: "last_packet_received_time" in fmt(a) and ("Add" in fmt(a) or "add" in fmt(a))
    is_now = lambda b: fmt(strip(b)).endswith("current_time") or fmt(strip(b)).endswith(".current_time")
    to = list(rel_edges(t, u, is_deadline, is_now, "Lt"))
    for e, br in to: r.site(Site(u, br["bb"], 0, u.blocks[br["bb"]]["term"]), "server timeout test")
    if not to: r.bad("server-timeout-missing", None, "no `last_packet_received_time + timeout < current_time` test in update_client (a boundary change such as <= also lands here)")
    st = [s_ for s_ in t.stores(CONN, "state", u) if "Disconnected" in fmt(t.stored(s_))]
    if not st: r.bad("server-timeout-effect", None, "timed-out client is not marked Disconnected")
    for s_ in st:
        if to and not any(t.edge_dominates(u, e, s_.bb) for e, br in to): r.bad("server-timeout-dom", s_, "a client is marked Disconnected in update_client on a path that did not establish the timeout")
    is_next_ka = lambda a: "last_packet_send_time" in fmt(a) and ("Add" in fmt(a) or "add" in fmt(a))
    ka = list(rel_edges(t, u, is_next_ka, is_now, "Le"))
    for e, br in ka:
        r.site(Site(u, br["bb"], 0, u.blocks[br["bb"]]["term"]), "keep-alive test")
        stt = [s_ for s_ in t.stores(CONN, "last_packet_send_time", u) if s_.bb in t.region_from(u, e)]
        if not stt: r.bad("keepalive-refresh", None, "keep-alive sent without refreshing last_packet_send_time")
    if not ka: r.bad("keepalive-op", None, "no `last_packet_send_time + send rate <= current_time` keep-alive test in update_client")
    c = t.fn("NetcodeClient::update_internal_state")
    tm = list(rel_edges(t, c, is_deadline, is_now, "Lt"))
    for e, br in tm: r.site(Site(c, br["bb"], 0, c.blocks[br["bb"]]["term"]), "client timeout test")
    if not tm: r.bad("client-timeout-missing", None, "no `last_packet_received_time + timeout < current_time` test in the client")
    out.append(r)
    r = RuleResult("C18.d", "client regenerates its packet on every successful update; failover moves to the next address and restarts the request", floor=2)
    upd = t.fn("NetcodeClient::update")
    gp = list(t.calls(r"NetcodeClient::generate_packet$", upd)); ui = list(t.calls(r"NetcodeClient::update_internal_state$", upd))
    for x in gp: r.site(x)
    if not gp or not ui: r.bad("shape", None, "update() no longer calls update_internal_state + generate_packet")
    else:
        e = t.result_edges(upd, ui[0])
        if e and not t.edge_dominates(upd, e[0], gp[0].bb) and gp[0].bb not in upd.reachable_from([ui[0].node["target"]]): r.bad("gen", gp[0], "generate_packet not reached after a successful state update")
    idx = list(t.stores(NC, "server_addr_index", c))
    for s in idx:
        r.site(s)
        if "AddWithOverflow 1" not in fmt(t.stored(s)): r.bad("failover-index", s, "failover does not advance to the next server address")
    if not idx: r.bad("failover-missing", None, "no failover to the next server address")
    # restarting the attempt restarts the timeout clock and targets the newly selected address
    restarts = [x for x in t.stores(NC, "state", c) if "SendingConnectionRequest" in fmt(t.stored(x))]
    for x in restarts:
        r.site(x, "restart")
        need = {"last_packet_received_time": lambda v: fmt(strip(v)).endswith(".current_time"), "server_addr": lambda v: "server_addresses" in fmt(v) and "server_addr_index" in fmt(v)}
        for fld, okv in need.items():
            got = [y for y in t.stores(NC, fld, c) if okv(t.stored(y)) and idx and c.dominates(idx[0].bb, y.bb) and (c.dominates(y.bb, x.bb) or must_pass(c, pos(x), {pos(y)})[0])]
            if not got: r.bad(f"failover-restart|{fld}", x, f"the attempt restarts for the next server address but {fld} is not reset on that path" + (": the timeout clock keeps running from the silent address, so the next address gets no time to answer" if fld == "last_packet_received_time" else ""))
    if not restarts: r.bad("failover-restart-missing", None, "failover does not restart the connection request")
    out.append(r)
    r = RuleResult("C18.g", "KEEPALIVE-STARVE: a refresh of a connected client's keep-alive timer (last_packet_send_time) either emits a packet kind that completes the client's handshake, or happens only for a confirmed client: application payloads cannot starve the keep-alive a half-connected client is waiting for", floor=2)
    cp = t.fn("NetcodeClient::process_packet")
    conn_kinds = set()
    for s_ in t.stores(NC, "state", cp):
        if "ClientState::Connected" in fmt(t.stored(s_)):
            for d in decode_sites(t, cp): conn_kinds |= set(variants_at(t, cp, d, s_.bb))
    if not conn_kinds: r.bad("no-connecting-kind", None, "no packet kind moves the client to Connected")
    for s_ in t.stores(CONN, "last_packet_send_time"):
        g = s_.fn
        if "NetcodeServer" not in g.path: continue
        r.site(s_)
        emits = [a for k in conn_kinds for a in t.aggrs(PKT, k, g)]
        if any(g.dominates(a.bb, s_.bb) or g.dominates(s_.bb, a.bb) for a in emits): continue        # re-armed together with the emission of a connecting packet
        if "pending_clients" in fmt(t.place(s_)): continue                                           # a pending (not yet connected) session: its timer does not gate keep-alives
        conf = [br["t_edge"] for br in t.branches(g) if br["kind"] == "bool" and t.mentions_field(br["raw"], "confirmed")]
        if any(t.edge_dominates(g, e, s_.bb) for e in conf): continue
        r.bad(f"{g.path}|starves-keepalive", s_, f"{short(g.path)} refreshes last_packet_send_time of a connected client without emitting one of {sorted(conn_kinds)} and without testing `confirmed`: while the application sends payloads more often than the keep-alive period, no keep-alive is ever sent again, and a client whose first keep-alive was lost stays in SendingConnectionResponse until it times out")
    out.append(r)
    out.append(shared.slots_match_limit(t, "C18.e"))
    out.append(shared.capacity_rule(t, "C18.f"))
    out.append(W3.nonce_counter_use(t, "C18.h"))
    out.append(W3.client_state_machine(t, "C18.j", "timer"))
    return out

_rules_c18_w5 = rules
def rules(t):
    import rules.shared as shared
    out = _rules_c18_w5(t)
    shared.share(t, out, "C18.l", "a forged datagram cannot move the replay window (after which every authentic packet of the peer is refused and the peer times out): advance_sequence only behind the decrypt Ok-edge", "C04", ("C04.a2",))
    shared.share(t, out, "C18.m", "a completed handshake leaves no half-open entry behind (it would shadow the next handshake from that address): the promoted session is the entry removed from pending_clients", "C05", ("C05.c2",))
    shared.share(t, out, "C18.n", "every accepted replay-protected packet is recorded in the window, so a recorded datagram cannot be replayed to postpone the timeout of a silent peer", "C04", ("C04.g",))
    return out

_rules_c18_w5b = rules
def rules(t):
    import rules.wave5 as W5
    out = _rules_c18_w5b(t)
    out.append(W5.confirm_kinds(t, "C18.k"))
    return out

_rules_C18_w6 = rules
def rules(t, *a, **kw):
    import rules.wave6 as W6
    out = _rules_C18_w6(t, *a, **kw)
    out.append(W6.client_refresh_total(t, "C18.o"))
    return out

_rules_C18_w7b = rules
def rules(t, *a, **kw):
    import rules.wave7 as W7
    out = _rules_C18_w7b(t, *a, **kw)
    out.append(W7.challenge_sequence_use(t, "C18.p"))
    return out


_rules_C18_w9 = rules
def rules(t, *a, **kw):
    import rules.C20 as C20
    out = _rules_C18_w9(t, *a, **kw)
    out.append(C20.timeout_always_evaluated(t, "C18.q"))
    return out
