# C18 Netcode liveness — only the clauses that are visible in the shape of the code
import re
from sa.rules import *
import rules.shared as shared
from rules.netcode_common import *
import rules.C07 as C07

def rules(t):
    out = []
    r = RuleResult("C18.a", "timeouts are refreshed by authenticated packets only (AUTH-DOM on last_packet_received_time)", floor=2)
    for rr in C07.rules(t, with_obl=False):
        if rr.id == "C07.b":
            r.sites = sum(1 for s_ in rr.samples) or rr.sites
            for v in rr.violations:
                if "last_packet_received_time" in v.key: r.bad(v.key.split("|", 1)[1], v.site, v.msg)
    out.append(r)
    r = RuleResult("C18.a2", "REPLAY-DOM: a connected session's timeout is refreshed only by packet kinds covered by the replay protection (a replayed handshake packet cannot postpone a timeout)", floor=1)
    f = t.fn("NetcodeServer::process_packet_internal")
    prot = replay_protected_kinds(t)
    for d in decode_sites(t, f):
        if not keyed(t, d) or "find_client_mut_by_addr" not in fmt(t.arg(d, 2)): continue   # the decode of the connected-client branch
        e = t.result_edges(f, d)
        for s_ in t.stores(CONN, "last_packet_received_time", f):
            if not e or s_.bb not in f.reachable_from([e[0][1]]) or "find_client_mut_by_addr" not in fmt(t.place(s_)): continue
            r.site(s_)
            kinds = variants_at(t, f, d, s_.bb)
            extra = sorted(k for k in kinds if k not in prot)
            if extra: r.bad(f"{f.path}|replayable-refresh", s_, f"last_packet_received_time of a connected client is refreshed by packet kinds {extra}, which are not replay protected (protected: {sorted(prot)}): a captured handshake packet replayed from the client's address postpones its timeout forever")
    out.append(r)
    r = RuleResult("C18.b", "CO-UPDATE: a function changing max_clients keeps the slot array at least as long as the limit", floor=1)
    for s in t.stores(NS, "max_clients"):
        if s.fn.path.endswith("::new"): continue
        r.site(s); f = s.fn
        grown = [x for x in t.stores(NS, "clients", f)]
        guarded = [br for br in t.branches(f) if br["kind"] == "bool" and br["cond"][0] == "cmp" and "clients" in fmt(br["raw"]) and "len" in fmt(br["raw"])]
        if not grown: r.bad(f"{f.path}|no-resize", s, "max_clients can be raised above the number of client slots: later handshakes are denied although the limit allows them")
        elif not any("resize" in fmt(t.stored(x)) or t.mentions_call(t.stored(x), r"into_boxed_slice$|resize") for x in grown): r.bad(f"{f.path}|resize-shape", s, "clients replaced but not resized to the new limit")
    out.append(r)
    r = RuleResult("C18.c", "timeout / keep-alive predicates keep their shape", floor=3)
    u = t.fn("NetcodeServer::update_client")
    tmo = [x for x in t.sites(u) if x.node["k"] == "call" and "PartialOrd" in callee_name(x.node) and "last_packet_received_time" in fmt(t.arg(x, 0)) + fmt(t.arg(x, 1))]
    for x in tmo:
        r.site(x, fmt(t.arg(x, 0))[:60])
        lhs_deadline = "last_packet_received_time" in fmt(t.arg(x, 0)) and "Add" in fmt(t.arg(x, 0)) + callee_name(x.node) or "add" in fmt(t.arg(x, 0))
        m = method_of(callee_name(x.node))
        if not ((m == "lt" and "last_packet_received_time" in fmt(t.arg(x, 0)) and "current_time" in fmt(t.arg(x, 1))) or (m == "gt" and "current_time" in fmt(t.arg(x, 0)))): r.bad("server-timeout-op", x, f"server timeout predicate changed: {m}({fmt(t.arg(x,0))[:40]}, {fmt(t.arg(x,1))[:30]})")
    st = [s_ for s_ in t.stores(CONN, "state", u) if "Disconnected" in fmt(t.stored(s_))]
    if not st: r.bad("server-timeout-effect", None, "timed-out client is not marked Disconnected")
    if not tmo: r.bad("server-timeout-missing", None, "no server timeout predicate")
    ka = [br for br in t.branches(u) if br["kind"] == "bool" and br["cond"][0] == "cmp" and "last_packet_send_time" in fmt(br["raw"])]
    for br in ka:
        r.site(Site(u, br["bb"], 0, u.blocks[br["bb"]]["term"]), fmt(br["raw"])[:90])
        if br["cond"][1] not in ("Le", "Ge"): r.bad("keepalive-op", None, "keep-alive cadence predicate changed")
        st = [s for s in t.stores(CONN, "last_packet_send_time", u) if s.bb in t.region_from(u, br["t_edge"])]
        if not st: r.bad("keepalive-refresh", None, "keep-alive sent without refreshing last_packet_send_time")
    c = t.fn("NetcodeClient::update_internal_state")
    ct = [br for br in t.branches(c) if br["kind"] == "bool" and "last_packet_received_time" in fmt(br.get("raw"))]
    for s in t.sites(c):
        n = s.node
    tm = [s for s in t.sites(c) if s.node["k"] == "call" and "PartialOrd" in callee_name(s.node) and "last_packet_received_time" in fmt(t.arg(s, 0))]
    for s in tm:
        r.site(s, callee_name(s.node)[-20:])
        if method_of(callee_name(s.node)) != "lt": r.bad("client-timeout-op", s, "client timeout predicate changed")
    if not tm: r.bad("client-timeout-missing", None, "no client timeout predicate")
    out.append(r)
    r = RuleResult("C18.d", "client regenerates its packet on every successful update; failover moves to the next address and restarts the request", floor=2)
    upd = t.fn("NetcodeClient::update")
    gp = list(t.calls(r"NetcodeClient::generate_packet$", upd)); ui = list(t.calls(r"NetcodeClient::update_internal_state$", upd))
    for x in gp: r.site(x)
    if not gp or not ui: r.bad("shape", None, "update() no longer calls update_internal_state + generate_packet")
    else:
        e = t.result_edges(upd, ui[0])
        if e and not t.edge_dominates(upd, e[0], gp[0].bb) and gp[0].bb not in upd.reachable_from([ui[0].node["target"]]): r.bad("gen", gp[0], "generate_packet not reached after a successful state update")
    idx = list(t.stores(NC, "server_addr_index", c))
    for s in idx:
        r.site(s)
        if "AddWithOverflow 1" not in fmt(t.stored(s)): r.bad("failover-index", s, "failover does not advance to the next server address")
    if not idx: r.bad("failover-missing", None, "no failover to the next server address")
    # restarting the attempt restarts the timeout clock and targets the newly selected address
    restarts = [x for x in t.stores(NC, "state", c) if "SendingConnectionRequest" in fmt(t.stored(x))]
    for x in restarts:
        r.site(x, "restart")
        need = {"last_packet_received_time": lambda v: fmt(strip(v)).endswith(".current_time"), "server_addr": lambda v: "server_addresses" in fmt(v) and "server_addr_index" in fmt(v)}
        for fld, okv in need.items():
            got = [y for y in t.stores(NC, fld, c) if okv(t.stored(y)) and idx and c.dominates(idx[0].bb, y.bb) and (c.dominates(y.bb, x.bb) or must_pass(c, pos(x), {pos(y)})[0])]
            if not got: r.bad(f"failover-restart|{fld}", x, f"the attempt restarts for the next server address but {fld} is not reset on that path" + (": the timeout clock keeps running from the silent address, so the next address gets no time to answer" if fld == "last_packet_received_time" else ""))
    if not restarts: r.bad("failover-restart-missing", None, "failover does not restart the connection request")
    out.append(r)
    out.append(shared.slots_match_limit(t, "C18.e"))
    out.append(shared.capacity_rule(t, "C18.f"))
    return out
