# C08 A reliable message is released by the sender only after the peer really has it — who/what/from-where clauses
import re
from sa.rules import *
import rules.wave3 as W3
import rules.C01 as C01
import rules.shared as shared
RC = "remote_connection::RenetClient"

def pushed_into(t, f, local):
    """origins of values pushed into the local Vec `local` inside f"""
    out = []
    for c in t.calls(r"Vec.*::push$", f):
        a0 = c.node["args"][0]
        o = c.fn.origin_of_operand(a0)
        # receiver is &mut local (possibly via a temp)
        def root_local(op):
            if op["k"] not in ("copy", "move"): return None
            l = op["place"]["local"]
            for _ in range(6):
                ds = f.defs1(l)
                if len(ds) == 1 and ds[0][2]["k"] == "assign" and ds[0][2]["rv"]["k"] in ("ref", "rawptr") and not ds[0][2]["rv"]["place"]["proj"]: return ds[0][2]["rv"]["place"]["local"]
                if len(ds) == 1 and ds[0][2]["k"] == "assign" and ds[0][2]["rv"]["k"] == "use" and ds[0][2]["rv"]["op"]["k"] in ("copy", "move"): l = ds[0][2]["rv"]["op"]["place"]["local"]; continue
                return l
            return l
        if root_local(a0) == local: out.append((c, t.arg(c, 1)))
    return out

def rules(t):
    out = []
    r = RuleResult("C08.a", "release ownership (shared with C01.e)", floor=4)
    for rr in C01.rules(t):
        if rr.id == "C01.e":
            r.sites = rr.sites
            for v in rr.violations: r.bad(v.key.split("|", 1)[1], v.site, v.msg)
    out.append(r)
    pp = t.fn("RenetClient::process_packet")
    r = RuleResult("C08.b", "acknowledged sequences = keys of sent_packets inside the packet's ranges; released ids = what the removed record says was carried", floor=3)
    scope = fn_and_closures(t, pp)
    rng = [(c, g) for g in scope for c in t.calls(r"BTreeMap.*::range$", g)]
    rng_ok = []
    for c, g in rng:
        r.site(c)
        recv = resolved(t, t.arg(c, 0), g)
        if not (t.rooted_at_field(recv, "sent_packets") or "sent_packets" in fmt(recv)): r.bad("range-recv", c, "range() not taken over sent_packets"); continue
        arg = fmt(resolved(t, t.arg(c, 1), g))
        # the range is an element of the packet's ack_ranges (directly, or the parameter of a closure mapped over them)
        if "ack_ranges" not in arg and not (g is not pp and re.match(r"^&?\*?P2\(", arg)): r.bad("range-arg", c, f"range is not one of the packet's ack ranges: {arg[:60]}"); continue
        rng_ok.append((c, g))
    if not rng: r.bad("range-missing", None, "acks are not restricted to sent_packets.range(packet range)")
    rem = [(c, g) for g in scope for c in t.effects("sent_packets", {"remove"}, g)] + [(c, g) for g in scope if g is not pp for c in t.calls(r"BTreeMap.*::remove$", g) if "sent_packets" in fmt(resolved(t, t.arg(c, 0), g))]
    for c, g in rem:
        r.site(c)
        ktxt = fmt(resolved(t, t.arg(c, 1), g))
        vec_locals = [l["i"] for l in pp.locals if l.get("name") == "new_acks"]
        src = [fmt(v) for l in vec_locals for _, v in pushed_into(t, pp, l)]
        # the list grown by `extend(sent_packets.range(r).map(|(&seq, _)| seq))` instead of a push loop
        from rules.wave6 import _root_local
        for c2 in t.sites(pp):
            if c2.node["k"] == "call" and len(c2.node["args"]) == 2 and method_of(callee_name(c2.node)) in ("extend", "extend_from_slice", "append") and _root_local(pp, c2.node["args"][0]) in vec_locals: src.append(fmt(t.arg(c2, 1)))
        via_range = "::range(" in ktxt or (src and all("::range(" in s_ or "Range" in s_ for s_ in src))
        via_chain = ("collect(" in ktxt or "flat_map" in ktxt) and any(g2 is not pp for _, g2 in rng_ok) and "ack_ranges" in ktxt
        if not (via_range or via_chain): r.bad("keys", c, f"removed keys do not originate from sent_packets.range(..): {ktxt[:80]}")
    for name, fld in (("process_message_ack", "message_ids"), ("process_slice_message_ack", "message_id"), ("acked_largest", "largest_acked_packet")):
        for c, g in [(c, g) for g in scope for c in t.calls(name + "$", g)]:
            r.site(c)
            a = fmt(resolved(t, t.arg(c, 1), g))
            if g is not pp and re.match(r"^\*?P\d\(", a):
                # the id is the parameter of a closure: look at what the closure is mapped over (`ids.into_iter().for_each(|id| ..)`)
                cs = t.closure_creator(g)
                if cs is not None:
                    users = [x for x in t.sites(cs.fn) if x.node["k"] == "call" and any(short(g.path) in fmt(ar) for ar in t.args(x))]
                    if users: a = " ".join(fmt(ar) for ar in t.args(users[0]))
            if "sent_packets" not in a or "::remove(" not in a: r.bad(f"{name}|src", c, f"{name} argument is not taken from the removed sent-packet record: {a[:60]}")
    out.append(r)
    gp = t.fn("RenetClient::get_packets_to_send")
    out.append(shared.sent_record_rule(t, "C08.c"))
    r = RuleResult("C08.d", "only parsed packets are acknowledged, by their own sequence; ack packet = the pending ranges", floor=3)
    calls = list(t.calls(r"RenetClient::add_pending_ack$"))
    for c in calls:
        r.site(c)
        if c.fn is not pp: r.bad(f"{c.fn.path}|caller", c, "add_pending_ack called outside process_packet"); continue
        fb = list(t.calls(r"packet::Packet::from_bytes$", pp))
        e = t.result_edges(pp, fb[0]) if fb else None
        if not e or not t.edge_dominates(pp, e[0], c.bb): r.bad("parsed", c, "sequence acknowledged without a successfully parsed packet")
        if "Packet::sequence(" not in fmt(t.arg(c, 1)) or "from_bytes" not in fmt(t.arg(c, 1)): r.bad("seq", c, f"acknowledged value is not the parsed packet's sequence: {fmt(t.arg(c,1))[:60]}")
    for s in t.aggrs("renet::packet::Packet", "Ack", gp):
        r.site(s)
        if not re.search(r"clone\(&\*?P1\(self\)\.pending_acks\)", fmt(t.field_of_aggr(s, "ack_ranges"))): r.bad("ack-src", s, "ack packet does not carry a copy of pending_acks")
    ap = t.fn("RenetClient::add_pending_ack"); al = t.fn("RenetClient::acked_largest")
    for f in (ap, al):
        for s in t.sites(f):
            n = s.node
            if n["k"] == "assign" and n["place"]["proj"] and n["place"]["proj"][-1]["k"] == "field" and n["place"]["proj"][-1]["name"] in ("start", "end") and t.mentions_field(t.place(s), "pending_acks") or (n["k"] == "assign" and n["place"]["proj"] and n["place"]["proj"][-1]["k"] == "field" and n["place"]["proj"][-1]["name"] in ("start", "end") and "pending_acks" in fmt(t.place(s))):
                r.site(s)
                v = fmt(t.stored(s))
                if not re.search(r"^P2\((sequence|largest_ack)\)$|^\(P2\((sequence|largest_ack)\) AddWithOverflow 1\)\.0$|pending_acks.*\.end$", v): r.bad(f"{f.path}|store|{v[:30]}", s, f"range bound set to {v[:60]}, not to the acknowledged sequence (+1) or a neighbour's end")
    out.append(r)
    out.append(shared.ack_once(t, "C08.f"))
    out.append(shared.seq_unique(t, "C08.g"))
    out.append(shared.range_algebra(t, "C08.h"))
    out.append(W3.ack_lookup_range(t, "C08.i"))
    out.append(W3.decoder_append_only(t, "C08.j"))
    return out

_rules_c08_w5 = rules
def rules(t):
    import rules.shared as shared
    out = _rules_c08_w5(t)
    shared.share(t, out, "C08.k", "send-side memory is given back only together with the departure of the whole message from unacked_messages, by that message's own length (not slice by slice)", "C09", ("C09.i",))
    return out

_rules_C08_w6 = rules
def rules(t, *a, **kw):
    import rules.wave6 as W6
    out = _rules_C08_w6(t, *a, **kw)
    out.append(W6.stale_index(t, "C08.l"))
    out.append(W6.ack_record_value(t, "C08.m"))
    return out

_rules_C08_w7b = rules
def rules(t, *a, **kw):
    import rules.wave7 as W7
    out = _rules_C08_w7b(t, *a, **kw)
    out.append(W7.sent_record_removers(t, "C08.n"))
    return out
