# C17 AEAD discipline: AAD provenance, decrypt-error discipline, nonce spaces
import re
from sa.rules import *
import rules.wave3 as W3
from rules.netcode_common import *
import rules.shared as shared
from rules.oblcommon import obl_rule

KEYCLASS = {"server_to_client_key": "s2c", "send_key": "s2c", "client_to_server_key": "c2s", "receive_key": "c2s", "challenge_key": "challenge", "connect_key": "token", "private_key": "token"}

def last_field(o):
    o = strip(o)
    while isinstance(o, tuple):
        if o[0] == "field": return o[2], o
        if o[0] in ("as", "index"): o = strip(o[1]); continue
        if o[0] == "call" and method_of(o[1]) in ("unwrap", "branch", "take") and o[2]: o = strip(o[2][0]); continue
        return None, o
    return None, o

def rules(t):
    out = []
    # a1 packet AAD
    r = RuleResult("C17.a1", "packet AAD = version | protocol id | prefix byte (disjoint ranges covering the whole buffer); prefix passed = byte on the wire", floor=5)
    g = t.fn("renetcode::packet::get_additional_data")
    stores = [fmt(t.stored(s)) if s.node["k"] == "assign" else "" for s in t.sites(g)]
    cps = [t.args(c) for c in t.calls(r"copy_from_slice$", g)]
    srcs = " ".join(fmt(a[1]) for a in cps) + " " + " ".join(stores)
    shared.aad_layout(t, g, r, {"version": r"NETCODE_VERSION_INFO", "protocol id": r"to_le_bytes\(P\d\(protocol_id\)\)", "prefix byte": r"^P\d\(prefix\)$"})
    enc = t.fn("packet::Packet::<'a>::encode"); dec = t.fn("packet::Packet::<'a>::decode")
    for f in (enc, dec):
        for c in t.calls(r"packet::get_additional_data$", f):
            r.site(c)
            pre = t.arg(c, 0)
            if f is enc:
                wr = [fmt(t.arg(w, 1)) for w in t.calls(r"write_all$", f)]
                if not t.mentions_call(pre, r"encode_prefix$"): r.bad("enc-prefix", c, "AAD prefix is not the encoded prefix byte")
                if not any("encode_prefix" in w for w in wr): r.bad("enc-wire", c, "prefix byte written to the wire differs from the AAD prefix")
            else:
                if not re.search(r"P1\(buffer\)\[0\]|\*P1\(buffer\)\[0\]", fmt(pre)): r.bad("dec-prefix", c, f"AAD prefix is not buffer[0]: {fmt(pre)[:60]}")
            if not is_protocol(t.arg(c, 1)): r.bad("protocol", c, "AAD protocol id is not the caller's protocol id parameter")
    out.append(r)

    r = RuleResult("C17.a2", "token AAD = version | protocol id | expiry (disjoint ranges covering the whole buffer), same parameters in encode and decode", floor=5)
    g = t.fn("renetcode::token::get_additional_data")
    srcs = " ".join(fmt(t.arg(c, 1)) for c in t.calls(r"copy_from_slice$", g))
    shared.aad_layout(t, g, r, {"version": r"NETCODE_VERSION_INFO", "protocol id": r"to_le_bytes\(P\d\(protocol_id\)\)", "expire timestamp": r"to_le_bytes\(P\d\(expire_timestamp\)\)"})
    for name in ("PrivateConnectToken::encode", "PrivateConnectToken::decode"):
        f = t.fn(name)
        for c in t.calls(r"token::get_additional_data$", f):
            r.site(c)
            a = t.args(c)
            if not (isinstance(strip(a[0]), tuple) and strip(a[0])[0] == "param" and "protocol" in (strip(a[0])[2] or "")): r.bad(f"{name}|protocol", c, "token AAD protocol id is not the function's parameter")
            if not (isinstance(strip(a[1]), tuple) and strip(a[1])[0] == "param" and "expire" in (strip(a[1])[2] or "")): r.bad(f"{name}|expire", c, "token AAD expiry is not the function's parameter")
    out.append(r)

    # b decrypt-error discipline
    r = RuleResult("C17.b", "plaintext is used only on the Ok-edge of the decrypt call", floor=3)
    for c in t.calls(r"crypto::dencrypted_in_place(_xnonce)?$"):
        f = c.fn; r.site(c)
        e = t.result_edges(f, c)
        if not e: r.bad(f"{f.path}|edges", c, "decrypt result is not checked"); continue
        err_only = t.region_from(f, e[1]) - t.region_from(f, e[0])
        readers = [x for x in t.calls(r"(Packet.*::read|ChallengeToken::read|PrivateConnectToken::read|advance_sequence)$", f)]
        for x in readers:
            if method_of(callee_name(x.node)) == "read" and "ConnectionRequest" in fmt(t.arg(x, 0)): continue  # the request kind is sent in clear by design
            if not t.edge_dominates(f, e[0], x.bb): r.bad(f"{f.path}|{method_of(callee_name(x.node))}", x, "plaintext consumed without a successful decrypt")
    out.append(r)

    # c nonce discipline
    sites = list(t.calls(r"packet::Packet.*::encode$"))
    sites = [s for s in sites if isinstance(t.arg(s, 3), tuple) and t.arg(s, 3)[0] == "aggr" and t.arg(s, 3)[2] == "Some"]
    r1 = RuleResult("C17.c1", "every sealing site takes its nonce from a counter field", floor=11)
    r2 = RuleResult("C17.c2", "after sealing: counter incremented, or the session object is gone / absorbing Disconnected", floor=11)
    classes = {}
    for s in sites:
        f = s.fn
        tup = t.arg(s, 3)[3][0]
        seq, key = tup[3][0], tup[3][1]
        cname, corig = last_field(seq); kname, korig = last_field(key)
        r1.site(s, f"seq={fmt(seq)[:50]} key=..{kname}")
        if cname not in ("sequence", "global_sequence"): r1.bad(f"{f.path}|seq", s, f"nonce is not a counter field: {fmt(seq)[:60]}")
        kc = KEYCLASS.get(kname)
        if kc is None and t.mentions_call(key, r"PrivateConnectToken::decode$"): kc = KEYCLASS.get(fmt(key).rstrip(")").split(".")[-1])
        if kc is None: r1.bad(f"{f.path}|key", s, f"unclassified key: {fmt(key)[:60]}")
        counter_class = "global" if cname == "global_sequence" else ("client" if "P1(self).sequence" in fmt(seq) and "NetcodeClient" in f.path else "connection")
        classes.setdefault(kc, set()).add(counter_class)
        # c2
        r2.site(s)
        e = t.result_edges(f, s)
        okb = e[0][1] if e else s.node["target"]
        region = f.reachable_from([okb])
        incs = []
        for st in t.stores("", cname, f):          # direct stores and stores through a reference to the field (`let Self { global_sequence: nonce, .. } = self; *nonce += 1`)
            if st.bb in region and "AddWithOverflow 1" in fmt(t.stored(st)): incs.append(st)
        post = incs and all_paths_pass(f, okb, {x.bb for x in incs})
        gone = False
        if not post:
            # session object consumed/cleared before: Disconnect packets
            txt = fmt(seq)
            cleared = [st for st in t.sites(f) if st.node["k"] == "assign" and st.node["place"]["proj"] and st.node["place"]["proj"][-1]["k"] == "index" and t.mentions_field(t.place(st), "clients") and fmt(t.stored(st)).startswith("option::Option::None")]
            taken = "take(" in txt or "remove(" in txt
            absorbing = [st for st in t.stores(NC, "state", f) if "Disconnected" in fmt(t.stored(st)) and f.dominates(st.bb, s.bb)]
            gone = bool(cleared and any(f.dominates(c_.bb, s.bb) for c_ in cleared)) or (taken and "pending_clients" not in txt) or bool(absorbing)
        if not (post or gone): r2.bad(f"{f.path}|{cname}|{fmt(t.arg(s,0))[:30]}", s, f"sealed with {cname} but the counter is not advanced on the success path and the session survives")
    out += [r1, r2]

    r = RuleResult("C17.c3", "NONCE-SPACE: counters sharing a key class have disjoint initial ranges", floor=2)
    init = {}
    for s in t.aggrs(NS, None):
        if "clone" in s.fn.path or is_log_or_derive(s.node["span"]): continue
        init["global"] = t.field_of_aggr(s, "global_sequence")
    for s in t.aggrs(CONN, None):
        if "clone" in s.fn.path or is_log_or_derive(s.node["span"]): continue
        init["connection"] = t.field_of_aggr(s, "sequence")
    for s in t.aggrs(NC, None):
        if is_log_or_derive(s.node["span"]): continue
        init["client"] = t.field_of_aggr(s, "sequence")
    for kc, cs in classes.items():
        r.site(sites[0], f"key class {kc}: counters {sorted(cs)}")
        if len(cs) > 1:
            vals = {}
            for c_ in cs:
                vals[c_] = const_eval(init.get(c_))
            vs = list(vals.values())
            ok = all(v is not None for v in vs) and all(abs(a - b) >= (1 << 62) for i, a in enumerate(vs) for b in vs[i + 1:])
            if not ok: r.bad(f"keyclass|{kc}|{'+'.join(sorted(cs))}", None, f"key class {kc} is used with counters {sorted(cs)} whose initial values {vals} are not disjoint: the same (key, nonce) can seal two different packets")
    out.append(r)

    r = RuleResult("C17.d", "fresh randomness: xnonce and session keys of generated tokens come from generate_random_bytes()", floor=3)
    g = t.fn("token::ConnectToken::generate")
    for c in t.calls(r"PrivateConnectToken::encode$", g):
        r.site(c)
        if not t.mentions_call(t.arg(c, 4), r"generate_random_bytes$"): r.bad("xnonce", c, "token xnonce is not freshly random")
    pg = t.fn("token::PrivateConnectToken::generate")
    for s in t.aggrs("token::PrivateConnectToken", None, pg):
        for fld in ("client_to_server_key", "server_to_client_key"):
            r.site(s, fld)
            if not t.mentions_call(t.field_of_aggr(s, fld), r"generate_random_bytes$"): r.bad(fld, s, f"{fld} is not freshly random")
    out.append(r)
    r = RuleResult("C17.c4", "nonce counters only ever advance by one: every store to a sequence counter outside a constructor is `counter + 1` (no reset, e.g. on failover)", floor=9)
    for adt, fld in ((NS, "global_sequence"), (NS, "challenge_sequence"), (CONN, "sequence"), (NC, "sequence")):
        for s_ in t.stores(adt, fld):
            r.site(s_, f"{adt.split('::')[-1]}.{fld}")
            if not re.search(re.escape(fld) + r" AddWithOverflow 1\)\.0$", fmt(t.stored(s_))): r.bad(f"{s_.fn.path}|{fld}|not-increment", s_, f"{adt.split('::')[-1]}.{fld} is assigned {fmt(t.stored(s_))[-50:]}: the counter is the AEAD nonce, resetting or jumping it reuses nonces under the same key")
    out.append(r)
    out.append(shared.aead_open_rule(t, "C17.e"))
    r, d_ = obl_rule("C17.f", "OBL: truncated or malformed sealed data yields an error, never a panic: every input-dependent partial operation in Packet::decode / crypto / token open is discharged or vetted", "netcode", floor=3,
                     select=lambda s_: any(x in s_["fn"] for x in ("packet::Packet", "crypto::", "PrivateConnectToken::decode", "ChallengeToken::decode", "packet::read_sequence", "packet::decode_prefix")))
    out.append(r)
    out.append(W3.key_distinct(t, "C17.g"))
    import rules.noncebytes as NB
    out.append(NB.nonce_bytes(t, "C17.h"))
    return out

def is_protocol(o):
    o = strip(o)
    return isinstance(o, tuple) and o[0] == "param" and "protocol" in (o[2] or "")

def all_paths_pass(f, start, through):
    """every path from `start` to a return passes a block in `through`"""
    seen, st = set(), [start]
    while st:
        x = st.pop()
        if x in seen or x in through: continue
        seen.add(x)
        if x in f.returns: return False
        st.extend(f.succ[x])
    return True

_rules_C17_w5d = rules
def rules(t, *a, **kw):
    import rules.wave5 as W5
    out = _rules_C17_w5d(t, *a, **kw)
    out.append(W5.request_fields_prov(t, "C17.i"))
    return out

_rules_C17_w7 = rules
def rules(t, *a, **kw):
    import rules.shared as shared
    out = _rules_C17_w7(t, *a, **kw)
    shared.share(t, out, "C17.j", "a connection request is answered only after its sealed token was opened with the request's own public fields as associated data (a retry is not trusted because its MAC bytes look familiar)", "C05", ("C05.a4",))
    return out


_rules_C17_bw = rules
def rules(t, *a, **kw):
    import rules.bytewidth as BW
    out = _rules_C17_bw(t, *a, **kw)
    out.append(BW.byte_width_rule(t, "C17.k"))
    return out
