# shared helpers for the renetcode rule files
import re
from sa.rules import *

NS = "server::NetcodeServer"
CONN = "server::Connection"
NC = "client::NetcodeClient"
PKT = "renetcode::packet::Packet"

def decode_sites(t, f):
    return list(t.calls(r"renetcode::packet::Packet.*::decode$", f))

def keyed(t, s):
    k = t.arg(s, 2)
    return isinstance(k, tuple) and k[0] == "aggr" and k[2] == "Some"

def packet_kind_edges(t, f, dec):
    """edges deciding the kind of the packet returned by decode site `dec`: returns (auth_edges, unauth_edges). An edge is authenticated when the
    unauthenticated kind (ConnectionRequest, which carries no tag) is excluded on it."""
    auth, unauth = [], []
    for e, vs in packet_variant_edges(t, f, dec):
        (unauth if "ConnectionRequest" in vs else auth).append(e)
    return auth, unauth


def reachable_avoiding(f, start, avoid_edges):
    seen, st = set(), [start]
    while st:
        u = st.pop()
        if u in seen: continue
        seen.add(u)
        for v in f.succ[u]:
            if (u, v) in avoid_edges: continue
            st.append(v)
    return seen

def ok_edges_of(t, f, pat):
    out = []
    for c in t.calls(pat, f):
        e = t.result_edges(f, c)
        if e: out.append(e[0])
    return out

def auth_check(t, f, effect_sites, r, what):
    """AUTH-DOM inside one function: every effect site must be unreachable from an unauthenticated point unless an authenticating edge is crossed"""
    avoid = set(ok_edges_of(t, f, r"PrivateConnectToken::decode$")) | set(ok_edges_of(t, f, r"ChallengeToken::decode$"))
    starts = []
    decs = decode_sites(t, f)
    for d in decs:
        e = t.result_edges(f, d)
        if not e: continue
        a, u = packet_kind_edges(t, f, d)
        if keyed(t, d): avoid |= set(a)
        starts.append(e[0][1])
    if not decs: starts = [0]
    # calls into handle_connection_request authenticate by themselves (its own effects are checked there)
    unauth_reach = set()
    for s0 in starts: unauth_reach |= reachable_avoiding(f, s0, avoid)
    for e in effect_sites:
        if e.fn is not f: continue
        r.site(e, what(e))
        if e.bb in unauth_reach:
            # allowed if the effect lies behind a call boundary that authenticates: not applicable inside this function
            r.bad(f"{f.path}|{what(e)}", e, f"{what(e)} reachable without crossing an authenticating edge (unauthenticated ConnectionRequest kind or failed token)")


def packet_variant_edges(t, f, dec):
    """for the packet returned by decode site `dec`: list of (edge, set of packet variant names possible on that edge), from switches on the
    packet's discriminant and from `matches!(packet, ..)` booleans materialised behind such switches"""
    me = norm(dec.fn.call_origin(dec.node))
    names = t.variants_of(PKT)
    allv = set(names.values())
    out = []
    for br in t.branches(f):
        if br["kind"] != "discr": continue
        if not contains(norm(br["on"]), lambda x: x == me): continue
        if not re.search(r"as (Continue|Ok|Some)\.0(\.1)?$", fmt(br["on"])): continue
        listed, by_tgt = set(), {}
        for v, tgt in br["targets"].items():
            by_tgt.setdefault(tgt, set()).add(names.get(v)); listed.add(names.get(v))      # an or-pattern sends several variants to one block
        by_tgt.setdefault(br["otherwise"], set()).update(allv - listed)
        for tgt, vs_ in by_tgt.items(): out.append(((br["bb"], tgt), vs_))
    base = list(out)
    for br in t.branches(f):
        if br["kind"] != "bool": continue
        raw = br["raw"]
        if not (isinstance(raw, tuple) and raw[0] == "phi" and all(isinstance(x, tuple) and x[0] == "const" for x in raw[2])): continue
        by_val = {}
        for bb_d, _, d in f.defs().get(raw[1], []):
            if d["k"] == "assign" and d["rv"]["k"] == "use" and d["rv"]["op"]["k"] == "const": by_val.setdefault(d["rv"]["op"]["val"], []).append(bb_d)
        for val, blocks in by_val.items():
            vs, known = set(), True
            for b_ in blocks:
                doms = [s_ for e, s_ in base if f.edge_dominates(e[0], e[1], b_)]
                if not doms: known = False; break
                cur = set(allv)
                for s_ in doms: cur &= s_
                vs |= cur
            if known: out.append((br["t_edge"] if val == 1 else br["f_edge"], vs))
    return out


def variants_at(t, f, dec, bb):
    """packet variants possible when block bb executes (intersection over the dominating variant edges)"""
    cur = set(t.variants_of(PKT).values())
    for e, vs in packet_variant_edges(t, f, dec):
        if f.edge_dominates(e[0], e[1], bb): cur &= vs
    return cur


def replay_protected_kinds(t):
    """packet kinds for which PacketType::apply_replay_protection() returns true (read from the code)"""
    f = t.fn("PacketType::apply_replay_protection")
    names = t.variants_of("renetcode::packet::PacketType")
    covered = set()
    def leads_true(bb):
        for s in f.blocks[bb]["stmts"]:
            if s["k"] == "assign" and s["place"]["local"] == 0 and s["rv"]["k"] == "use" and s["rv"]["op"]["k"] == "const": return s["rv"]["op"]["val"] == 1
        return None
    for br in t.branches(f):
        if br["kind"] == "discr":
            for v, tgt in br["targets"].items():
                if leads_true(tgt): covered.add(names.get(v))
            if leads_true(br["otherwise"]): covered |= {n for v, n in names.items() if v not in br["targets"]}
    return covered


def enum_variant_edges(t, f, on_pred, adt):
    """generalisation of packet_variant_edges: (edge, set of variant names of `adt` possible on that edge) for switches on the discriminant of a
    value selected by on_pred(origin), including `matches!(..)` booleans materialised behind such switches"""
    names = t.variants_of(adt)
    allv = set(names.values())
    out = []
    for br in t.branches(f):
        if br["kind"] != "discr" or not on_pred(br["on"]): continue
        listed, by_tgt = set(), {}
        for v, tgt in br["targets"].items():
            by_tgt.setdefault(tgt, set()).add(names.get(v)); listed.add(names.get(v))      # an or-pattern sends several variants to one block
        by_tgt.setdefault(br["otherwise"], set()).update(allv - listed)
        for tgt, vs_ in by_tgt.items(): out.append(((br["bb"], tgt), vs_))
    # `value == Enum::Variant` / `!=` (derived PartialEq on an enum with a unit variant on the other side)
    for br in t.branches(f):
        if br["kind"] == "bool" and br["cond"][0] == "cmp" and br["cond"][1] in ("Eq", "Ne"):
            l_, r_ = br["cond"][2], br["cond"][3]
            for a_, b_ in ((l_, r_), (r_, l_)):
                bb_ = strip(b_)
                if on_pred(a_) and isinstance(bb_, tuple) and bb_[0] == "aggr" and bb_[2] in allv:
                    eq_e, ne_e = (br["t_edge"], br["f_edge"]) if br["cond"][1] == "Eq" else (br["f_edge"], br["t_edge"])
                    out.append((eq_e, {bb_[2]})); out.append((ne_e, allv - {bb_[2]}))
    base = list(out)
    for br in t.branches(f):
        if br["kind"] != "bool": continue
        raw = br["raw"]
        if not (isinstance(raw, tuple) and raw[0] == "phi" and all(isinstance(x, tuple) and x[0] == "const" for x in raw[2])): continue
        by_val = {}
        for bb_d, _, d in f.defs().get(raw[1], []):
            if d["k"] == "assign" and d["rv"]["k"] == "use" and d["rv"]["op"]["k"] == "const": by_val.setdefault(d["rv"]["op"]["val"], []).append(bb_d)
        for val, blocks in by_val.items():
            vs, known = set(), True
            for b_ in blocks:
                doms = [s_ for e, s_ in base if f.edge_dominates(e[0], e[1], b_)]
                if not doms: known = False; break
                cur = set(allv)
                for s_ in doms: cur &= s_
                vs |= cur
            if known: out.append((br["t_edge"] if val == 1 else br["f_edge"], vs))
    return out, allv


def enum_variants_at(t, f, on_pred, adt, bb):
    edges, allv = enum_variant_edges(t, f, on_pred, adt)
    cur = set(allv)
    for e, vs in edges:
        if f.edge_dominates(e[0], e[1], bb): cur &= vs
    return cur
