#!/bin/bash
# verify every delivered seed not yet stored, then run all checks against it; results in /verif/seeded/<ID>-<V>/detect.txt
cd /verif
for w in /tmp/wt/C*/SEED/*/patch.diff; do
  ID=$(echo $w | cut -d/ -f4); V=$(echo $w | cut -d/ -f6)
  [ -f seeded/$ID-$V/verify.txt ] && continue
  mkdir -p seeded/$ID-$V
  tools/seedverify.sh $ID $V > seeded/$ID-$V/verify.txt 2>&1
  tail -1 seeded/$ID-$V/verify.txt
done
for d in seeded/*/; do
  n=$(basename $d)
  grep -q "^CONFIRMED" $d/verify.txt || continue
  [ -f $d/detect.txt ] && continue
  python3 tools/seedrun.py $d/patch.diff > $d/detect.txt 2>&1
  echo "$n: $(tail -1 $d/detect.txt)"
done
