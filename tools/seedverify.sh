#!/bin/bash
# tools/seedverify.sh <ID> <A|B> : confirm a sub-agent's seeded change in its scratch worktree /tmp/wt/<ID>:
#   existing tests pass with the change, the demonstration fails with it and passes without it. Then store it as /verif/seeded/<ID>-<A|B>/.
ID=$1; V=$2; W=/tmp/wt/$ID; S=$W/SEED/$V
export CARGO_TARGET_DIR=$W/target CARGO_NET_OFFLINE=true
cd $W || exit 9
git checkout -q -- renet renetcode renet_netcode
demos=$(ls $S/demo/*.rs 2>/dev/null)
[ -f $S/patch.diff ] || { echo "no patch"; exit 9; }
# place the demo files where the agent put them (they are still in the worktree as untracked files); find test names
tests=""
for d in $demos; do b=$(basename $d .rs); f=$(find renet renetcode renet_netcode -name "$b.rs" | head -1); [ -z "$f" ] && { echo "demo $b not found in worktree"; exit 9; }; crate=$(echo $f | cut -d/ -f1); tests="$tests $crate:$b"; done
run_demos() { rc=0; for t in $tests; do c=${t%%:*}; n=${t##*:}; cargo test --offline -q -p $c --test $n >/tmp/wt/$ID.demo.log 2>&1 || rc=1; done; return $rc; }
echo "== HEAD: demo must pass"; run_demos && echo "demo passes on HEAD" || { echo "DEMO FAILS ON HEAD"; tail -20 /tmp/wt/$ID.demo.log; exit 1; }
git apply $S/patch.diff || { echo "patch does not apply"; exit 1; }
echo "== with change: existing tests must pass"
# move the demo files away while the existing suite runs
cargo test --offline -p renet -p renetcode -p renet_netcode --no-fail-fast 2>&1 | grep -E "^test result|Running|FAILED|failed" > /tmp/wt/$ID.suite.log
fails=$(grep -B1 "FAILED\|[1-9][0-9]* failed" /tmp/wt/$ID.suite.log | grep Running | grep -v seed_ )
if [ -n "$fails" ]; then echo "EXISTING TESTS FAIL: $fails"; git checkout -q -- renet renetcode renet_netcode; exit 1; fi
echo "existing tests pass with the change"
echo "== with change: demo must fail"; if run_demos; then echo "DEMO PASSES WITH CHANGE"; git checkout -q -- renet renetcode renet_netcode; exit 1; else echo "demo fails with the change:"; grep -E "panicked|assert" /tmp/wt/$ID.demo.log | head -3; fi
git checkout -q -- renet renetcode renet_netcode
mkdir -p /verif/seeded/$ID-$V; cp $S/patch.diff /verif/seeded/$ID-$V/; cp -r $S/demo /verif/seeded/$ID-$V/; cp $S/meta.json /verif/seeded/$ID-$V/meta.agent.json
echo "CONFIRMED $ID-$V"
