#!/usr/bin/env python3
"""tools/seedrun.py <patch.diff> [Cnn ...] — run the checks against a scratch copy of /repo with one seeded change applied.
Prints, per property, the violated rule instances. The copy (and nothing else) is removed afterwards. Evidence of these runs goes to a
scratch directory, never to /verif/evidence. Used to measure which checks catch which seeded change (DESIGN.md section 11)."""
import sys, os, subprocess, tempfile, shutil, json, re
ROOT = os.path.dirname(os.path.dirname(os.path.abspath(__file__)))
ALL = [f"C{i:02d}" for i in range(1, 21)]

SEED_BASE = "1042e09"   # /repo commit the sub-agents' worktrees were created from (seeds are diffs against it)

def make_repo(repo, patch):
    """scratch copy of /repo's working tree with `patch` applied; if the patch no longer applies to the current tree (a later fix: commit touched
    the same lines) the copy is taken from the commit the seed was written against. Returns None or an error string."""
    import subprocess, shutil
    shutil.rmtree(repo, ignore_errors=True)
    subprocess.check_call(["rsync", "-a", "--exclude", "target", "--exclude", ".git", "/repo/", repo + "/"])
    if not patch: return None
    p = subprocess.run(["patch", "-p1", "-s", "--dry-run", "-i", patch], cwd=repo, capture_output=True, text=True)
    if p.returncode != 0:
        shutil.rmtree(repo, ignore_errors=True); os.makedirs(repo)
        subprocess.check_call(f"git -C /repo archive {SEED_BASE} | tar -x -C {repo}", shell=True)
        print(f"note: {patch} does not apply to the current tree; using base commit {SEED_BASE}")
    p = subprocess.run(["patch", "-p1", "-s", "-i", patch], cwd=repo, capture_output=True, text=True)
    return None if p.returncode == 0 else "patch does not apply: " + (p.stdout + p.stderr)[-300:]

def run(patch, props, keep=False, tier="quick"):
    d = tempfile.mkdtemp(prefix="seedrun-")
    try:
        repo = os.path.join(d, "repo")
        err = make_repo(repo, os.path.abspath(patch) if patch else None)
        if err: return dict(error=err)
        env = dict(os.environ, VERIF_REPO=repo, VERIF_EVIDENCE_DIR=os.path.join(d, "evidence"), VERIF_TIER=tier)
        os.makedirs(env["VERIF_EVIDENCE_DIR"], exist_ok=True)
        procs = {c: subprocess.Popen([os.path.join(ROOT, "check"), c], env=env, stdout=subprocess.PIPE, stderr=subprocess.STDOUT, text=True) for c in props}
        res = {}
        for c, p in procs.items():
            out, _ = p.communicate()
            hits = re.findall(r"^  -> (\S+) (\S*): (.*)$", out, re.M)
            res[c] = dict(exit=p.returncode, violations=[dict(rule=h[0], loc=h[1].replace(repo + "/", ""), msg=h[2][:300]) for h in hits])
            if p.returncode not in (0, 1): res[c]["tail"] = out[-600:]
        return res
    finally:
        if not keep: shutil.rmtree(d, ignore_errors=True)

if __name__ == "__main__":
    a = sys.argv[1:]
    patch = a[0] if a and a[0] != "-" else None
    props = a[1:] or ALL
    r = run(patch, props)
    if "error" in r: print(r["error"]); sys.exit(3)
    for c in props:
        v = r[c]
        if v["exit"] == 0: continue
        print(f"{c} exit={v['exit']}")
        for x in v["violations"]: print(f"    {x['rule']} {x['loc']}: {x['msg'][:200]}")
        if "tail" in v: print(v["tail"])
    print("caught by:", [c for c in props if r[c]["exit"] == 1] or "NONE")
