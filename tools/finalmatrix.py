#!/usr/bin/env python3
"""tools/finalmatrix.py STRUCT.txt OBL.json [--write] — merge (a) the output of `tools/devrun.py <all 20 properties> @all` (structural rules of every
property on the cached facts of every variant, abstract-interpretation rules skipped) and (b) the JSON written by
`SM_PROPS=C04,C06,C07,C17,C18 SM_JSON=.. tools/seedmatrix.py` (the full ./check of the properties that have an abstract-interpretation part) into
one detection record per variant = exactly what the twenty ./check commands report for it; with --write the record goes to <variant>/detect.txt.
Prints the per-wave numbers used in DESIGN.md sections 12 and 13."""
import sys, os, re, json, glob, collections
ROOT = os.path.dirname(os.path.dirname(os.path.abspath(__file__)))
struct, oblj = sys.argv[1], sys.argv[2]
hits = collections.defaultdict(lambda: collections.defaultdict(list))     # variant -> property -> [lines]
# STRUCT may be several files separated by commas; `file@v1+v2` = a later re-run of just these variants (their earlier results are dropped)
for spec in struct.split(","):
    fn_, _, props_ = spec.partition("%")       # `file%C03+C11` = a later re-run of just these properties over all variants (their earlier results are dropped)
    fn_, _, only = fn_.partition("@")
    for v_ in (only.split("+") if only else []): hits.pop(v_, None)
    for c_ in (props_.split("+") if props_ else []):
        for v_ in list(hits): hits[v_].pop(c_, None)
    cur = None
    for l in open(fn_, errors="replace"):
        if l.startswith("== "): cur = l.split()[1]; continue
        m = re.match(r"\s+V (C\d\d)\.(\S+) (.*)$", l)
        if m and cur: hits[cur][m.group(1)].append(f"{m.group(1)}.{m.group(2)} {m.group(3).strip()}")
        m = re.match(r"\s+EXC (C\d\d) (.*)$", l)
        if m and cur: hits[cur][m.group(1)].append(f"{m.group(1)}.analysis analysis-error {m.group(2).strip()}")
OBLP = set()
if os.path.exists(oblj):
    j = json.load(open(oblj))
    for v, per in j.items():
        for c, (rc, lines) in per.items():
            if rc == -1: continue           # skipped by SM_SMART (the variant does not touch the crate of that check's abstract-interpretation scope)
            OBLP.add(c)
            hits[v].pop(c, None)            # the full check of that property supersedes its structural-only run
            if rc == 1: hits[v][c] = [x.strip()[3:] for x in lines] or ["(violation)"]
            elif rc not in (0, 1): hits[v][c] = [f"{c}.analysis exit={rc}"]
# --carry-obl: for variants that the OBL JSON does not cover, the abstract-interpretation rules (C04.f, C06.a, C07.a, C17.f: unchanged engine) keep the
# verdict recorded in the committed detect.txt of the variant (written by an earlier full run); everything structural comes from STRUCT
if "--carry-obl" in sys.argv:
    import subprocess
    OBL_RULES = ("C04.f", "C06.a", "C07.a", "C17.f")
    covered = set(json.load(open(oblj)).keys()) if os.path.exists(oblj) else set()
    extra_json = [a.split("=", 1)[1] for a in sys.argv if a.startswith("--obl-extra=")]
    for ej in extra_json:
        j2 = json.load(open(ej))
        for v, per in j2.items():
            covered.add(v)
            for c, (rc, lines) in per.items():
                if rc == -1: continue
                keep = [x.strip()[3:] for x in lines if x.strip()[3:].startswith(OBL_RULES)]
                if keep: hits[v][c] = hits[v].get(c, []) + keep
    carried = 0
    for g_ in ("seeded", "selftest", "benign"):
        for dpath in glob.glob(os.path.join(ROOT, g_, "*", "patch.diff")):
            v = os.path.basename(os.path.dirname(dpath))
            if v in covered: continue
            q = subprocess.run(["git", "-C", ROOT, "show", f"HEAD:{g_}/{v}/detect.txt"], capture_output=True, text=True)
            if q.returncode != 0: continue
            for l in q.stdout.splitlines():
                m = re.match(r"\s+(C\d\d)\.(\S+) (.*)$", l)
                if m and f"{m.group(1)}.{m.group(2)}" in OBL_RULES:
                    hits[v][m.group(1)].append(f"{m.group(1)}.{m.group(2)} {m.group(3).strip()}"); carried += 1
    print("carried O-engine verdicts from committed detect.txt:", carried, "lines; variants with a fresh full run:", len(covered))
def where(v):
    for g in ("seeded", "selftest", "benign"):
        if os.path.isdir(os.path.join(ROOT, g, v)): return g
    return None
stats = collections.defaultdict(lambda: [0, 0, 0])
variants = sorted(os.path.basename(os.path.dirname(p)) for g in ("seeded", "selftest", "benign") for p in glob.glob(os.path.join(ROOT, g, "*", "patch.diff")))
for v in variants:
    g = where(v)
    if os.path.exists(os.path.join(ROOT, g, v, "OBSOLETE")): continue      # rewrites code a later fix: commit changed and preserves the defect (see the file)
    caught = sorted(c for c in hits.get(v, {}) if hits[v][c])
    own = v.split("-")[0]
    wave = v.split("-")[1]
    key = (g, wave[0] if g == "seeded" else ("R%d" % ((int(wave[1:]) - 1) // 3 + 1) if g == "benign" else "F"))
    if g == "seeded": key = (g, {"A": 1, "B": 1, "C": 2, "D": 2, "E": 3, "F": 3, "G": 4, "H": 4, "I": 5, "J": 5, "K": 6, "L": 6, "M": 7, "N": 7, "O": 8, "P": 8, "Q": 9, "R": 9}.get(wave, 0))
    st = stats[key]; st[2] += 1; st[1] += bool(caught); st[0] += (own in caught) if g != "selftest" else bool(caught)
    if "--write" in sys.argv:
        with open(os.path.join(ROOT, g, v, "detect.txt"), "w") as fo:
            fo.write("# written by tools/finalmatrix.py: what the twenty ./check commands report for /repo + this patch (structural rules on the extracted facts;\n# C04 C06 C07 C17 C18 by their full check including the abstract interpretation)\n")
            for c in caught:
                fo.write(f"{c} exit=1\n")
                seen = set()
                for l in hits[v][c]:
                    if l in seen: continue
                    seen.add(l); fo.write("    " + l[:300] + "\n")
            fo.write(f"caught by: {caught or 'NONE'}\n")
    if g != "benign" and own not in caught and g == "seeded": print(f"MISS {v}: caught by {caught or 'NONE'}")
    if g == "selftest" and not caught: print(f"MISS {v}")
    if g == "benign" and caught: print(f"ALARM {v}: {caught}  {[hits[v][c][0][:70] for c in caught][:2]}")
if "base" in hits and any(hits["base"].values()): print("BASE ALARM", dict(hits["base"]))
print("full checks merged for:", sorted(OBLP))
for k in sorted(stats, key=str):
    o, a, n = stats[k]
    print(f"{k[0]:8s} wave {k[1]}: own {o}/{n}  any {a}/{n}" if k[0] == "seeded" else (f"{k[0]:8s} {k[1]}: alarms {a}/{n}" if k[0] == "benign" else f"{k[0]:8s}: reported {a}/{n}"))
