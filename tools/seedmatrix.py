#!/usr/bin/env python3
"""tools/seedmatrix.py [seed ...] — run every property's rule file against the cached facts of each seeded variant (.cache/seedfacts/<seed>, see
seedfacts.py) and print which properties report a violation. Fast development loop; the authoritative run is tools/seedrun.py (full ./check)."""
import sys, os, glob, json, subprocess, concurrent.futures as cf
ROOT = os.path.dirname(os.path.dirname(os.path.abspath(__file__)))
seeds = sys.argv[1:] or ["base"] + sorted(os.path.basename(os.path.dirname(p)) for p in glob.glob(os.path.join(ROOT, "seeded", "*", "patch.diff")) + glob.glob(os.path.join(ROOT, "selftest", "*", "patch.diff")) + glob.glob(os.path.join(ROOT, "benign", "*", "patch.diff")))
ALL = os.environ.get("SM_PROPS", "").split(",") if os.environ.get("SM_PROPS") else [f"C{i:02d}" for i in range(1, 21)]      # SM_PROPS: only these checks (e.g. the ones with an abstract-interpretation part)
def one(args):
    s, c = args
    env = dict(os.environ, VERIF_EVIDENCE_DIR=f"/tmp/seedmatrix-ev/{s}", VERIF_FACTS_DIR_OVERRIDE=os.path.join(ROOT, ".cache", "seedfacts", s))
    os.makedirs(env["VERIF_EVIDENCE_DIR"], exist_ok=True)
    p = subprocess.run([os.path.join(ROOT, "check"), c], env=env, capture_output=True, text=True)
    return s, c, p.returncode, [l for l in p.stdout.splitlines() if l.startswith("  -> ")]
def touches(s, sub):
    for g_ in ("seeded", "selftest", "benign"):
        for n_ in ("patch.current.diff", "patch.diff"):
            p_ = os.path.join(ROOT, g_, s, n_)
            if os.path.exists(p_): return any(l.startswith(("+++ b/" + sub, "--- a/" + sub)) for l in open(p_, errors="replace"))
    return True
def needed(s, c):
    """SM_SMART: a check whose abstract-interpretation scope lies in a crate the variant does not touch reports what it reports on the unchanged
    tree (nothing): skipped, its structural rules are covered by the structural run"""
    if not os.environ.get("SM_SMART") or s == "base": return True
    if c == "C06": return touches(s, "renet/src")
    if c in ("C04", "C07", "C17", "C18"): return touches(s, "renetcode/src")
    return True
res = {}
jobs = [(s, c) for s in seeds for c in ALL if needed(s, c)]
for s in seeds:
    for c in ALL:
        if not needed(s, c): res.setdefault(s, {})[c] = (-1, [])
with cf.ThreadPoolExecutor(16) as ex:
    for s, c, rc, lines in ex.map(one, jobs):
        res.setdefault(s, {})[c] = (rc, lines)
if os.environ.get("SM_JSON"):
    json.dump({s: {c: [res[s][c][0], res[s][c][1]] for c in ALL} for s in seeds}, open(os.environ["SM_JSON"], "w"))
for s in seeds:
    hit = [c for c in ALL if res[s][c][0] == 1]
    odd = [c for c in ALL if res[s][c][0] not in (0, 1)]
    own = s.split("-")[0]
    print(f"{s:7s} own={'Y' if own in hit else '-'} caught by {hit or 'NONE'}" + (f"  ERR {odd}" if odd else ""))
    if s != "base" and "--write" in os.environ.get("SM", ""):
        with open(os.path.join(ROOT, next(d_ for d_ in ("seeded", "selftest", "benign") if os.path.isdir(os.path.join(ROOT, d_, s))), s, "detect.txt"), "w") as fo:
            fo.write("# written by tools/seedmatrix.py: every ./check Cnn run on the facts extracted from /repo + this patch\n")
            for c in hit:
                fo.write(f"{c} exit=1\n")
                for l in res[s][c][1]:
                    m = l.strip()[3:]
                    fo.write("    " + m[:300] + "\n")
            fo.write(f"caught by: {hit or 'NONE'}\n")
    if "-v" in os.environ.get("SM", ""):
        for c in hit:
            for l in res[s][c][1][:2]: print("       ", c, l[:200])
