#!/usr/bin/env python3
"""tools/seedfacts.py [seed ...] — extract MIR facts for /repo with one seeded patch applied, into .cache/seedfacts/<seed>/ (development aid:
lets a rule be run against a variant without re-extracting: FACTS=.cache/seedfacts/C01-A python3 -m sa.run C01 --facts .cache/seedfacts/C01-A)"""
import sys, os, subprocess, tempfile, shutil, glob
ROOT = os.path.dirname(os.path.dirname(os.path.abspath(__file__)))
sys.path.insert(0, ROOT)
from sa import check
seeds = sys.argv[1:] or sorted(os.path.basename(os.path.dirname(p)) for p in glob.glob(os.path.join(ROOT, "seeded", "*", "patch.diff")))
d = tempfile.mkdtemp(prefix="seedfacts-")
try:
    repo = os.path.join(d, "repo")
    for s in seeds:
        out = os.path.join(check.CACHE, "seedfacts", s)
        shutil.rmtree(out, ignore_errors=True); shutil.rmtree(repo, ignore_errors=True)
        subprocess.check_call(["rsync", "-a", "--exclude", "target", "--exclude", ".git", "/repo/", repo + "/"])
        if s != "base":
            subprocess.check_call(["patch", "-p1", "-s", "-i", os.path.join(ROOT, "seeded", s, "patch.diff")], cwd=repo)
        with check.locked("extract"):
            ok, err = check.extract(repo, out, os.path.join(check.CACHE, "target-seed"))
        print(s, "ok" if ok else "FAILED " + err[-500:])
finally:
    shutil.rmtree(d, ignore_errors=True)
