#!/usr/bin/env python3
"""tools/seedfacts.py [seed ...] — extract MIR facts for /repo with one seeded patch applied, into .cache/seedfacts/<seed>/ (development aid:
lets a rule be run against a variant without re-extracting: FACTS=.cache/seedfacts/C01-A python3 -m sa.run C01 --facts .cache/seedfacts/C01-A)"""
import sys, os, subprocess, tempfile, shutil, glob
ROOT = os.path.dirname(os.path.dirname(os.path.abspath(__file__)))
sys.path.insert(0, ROOT)
from sa import check

SEED_BASE = "1042e09"   # /repo commit the sub-agents' worktrees were created from (seeds are diffs against it)

def make_repo(repo, patch):
    """scratch copy of /repo's working tree with `patch` applied; if the patch no longer applies to the current tree (a later fix: commit touched
    the same lines) the copy is taken from the commit the seed was written against. Returns None or an error string."""
    import subprocess, shutil
    shutil.rmtree(repo, ignore_errors=True)
    subprocess.check_call(["rsync", "-a", "--exclude", "target", "--exclude", ".git", "/repo/", repo + "/"])
    if not patch: return None
    p = subprocess.run(["patch", "-p1", "-s", "--dry-run", "-i", patch], cwd=repo, capture_output=True, text=True)
    if p.returncode != 0:
        shutil.rmtree(repo, ignore_errors=True); os.makedirs(repo)
        subprocess.check_call(f"git -C /repo archive {SEED_BASE} | tar -x -C {repo}", shell=True)
        print(f"note: {patch} does not apply to the current tree; using base commit {SEED_BASE}")
    p = subprocess.run(["patch", "-p1", "-s", "-i", patch], cwd=repo, capture_output=True, text=True)
    return None if p.returncode == 0 else "patch does not apply: " + (p.stdout + p.stderr)[-300:]

args = sys.argv[1:]
JOBS = 1
if args and args[0].startswith("-j"): JOBS = int(args[0][2:]); args = args[1:]
seeds = args or sorted(os.path.basename(os.path.dirname(p)) for p in glob.glob(os.path.join(ROOT, "seeded", "*", "patch.diff")) + glob.glob(os.path.join(ROOT, "selftest", "*", "patch.diff")) + glob.glob(os.path.join(ROOT, "benign", "*", "patch.diff")))

def work(k, mine):
    d = tempfile.mkdtemp(prefix="seedfacts-")
    try:
        repo = os.path.join(d, "repo")
        for s in mine:
            out = os.path.join(check.CACHE, "seedfacts", s)
            shutil.rmtree(out, ignore_errors=True)
            err = make_repo(repo, None if s == "base" else next(p_ for p_ in sum(([os.path.join(ROOT, k_, s, "patch.current.diff"), os.path.join(ROOT, k_, s, "patch.diff")] for k_ in ("seeded", "selftest", "benign")), []) if os.path.exists(p_)))
            if err: print(s, err, flush=True); continue
            with check.locked(f"extract-seed{k}"):
                ok, err = check.extract(repo, out, os.path.join(check.CACHE, f"target-seed{k}"))
            print(s, "ok" if ok else "FAILED " + err[-500:], flush=True)
    finally:
        shutil.rmtree(d, ignore_errors=True)

import concurrent.futures as cf
with cf.ThreadPoolExecutor(JOBS) as ex:
    list(ex.map(lambda k: work(k, seeds[k::JOBS]), range(JOBS)))
