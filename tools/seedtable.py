#!/usr/bin/env python3
"""tools/seedtable.py — regenerate selftest/*/meta.json and print the markdown tables of DESIGN.md §12.2 / §12.3 from the meta.json / detect.txt files
(run after tools/seedmatrix.py --write and tools/seedmeta.py)"""
import os, json, glob, re, ast
ROOT = os.path.dirname(os.path.dirname(os.path.abspath(__file__)))
for d in sorted(glob.glob(os.path.join(ROOT, "selftest", "F*-R"))):
    n = os.path.basename(d)
    det = open(os.path.join(d, "detect.txt")).read() if os.path.exists(os.path.join(d, "detect.txt")) else ""
    m = re.search(r"caught by: (\[.*\]|NONE)", det)
    caught = ast.literal_eval(m.group(1)) if m and m.group(1) != "NONE" else []
    rules = sorted(set(re.findall(r"^    (C\d\d\.\S+) ", det, re.M)))
    subj = open(os.path.join(d, "subject.txt")).read().strip()
    json.dump(dict(id=n, kind="revert of a fix: commit (the defect the fix repaired returns)", subject=subj, caught_by=caught, reporting_rules=rules), open(os.path.join(d, "meta.json"), "w"), indent=1)
rows, own, anyc = [], 0, 0
for m in sorted(glob.glob(os.path.join(ROOT, "seeded", "*", "meta.json"))):
    j = json.load(open(m))
    s = (j["summary"] or "").replace("|", "/").replace("\n", " ")
    if len(s) > 150: s = s[:147] + "..."
    p = j["property"]
    own += p in j["caught_by"]; anyc += bool(j["caught_by"])
    others = [c for c in j["caught_by"] if c != p]
    rr = [r for r in j["reporting_rules"] if r.startswith(p)]
    rows.append(f"| {j['id']} | {s} | {'**' + ', '.join(rr) + '**' if rr else '—'} | {', '.join(others) or '—'} |")
print(f"<!-- own {own} any {anyc} of {len(rows)} -->")
print("| seed | change (sub-agent's summary) | own property's reporting rule(s) | also reported by |\n|---|---|---|---|")
print("\n".join(rows))
print()
print("| revert | fix that is undone | reporting rules |\n|---|---|---|")
for m in sorted(glob.glob(os.path.join(ROOT, "selftest", "*", "meta.json"))):
    j = json.load(open(m))
    print(f"| {j['id']} | revert of \"{j['subject']}\" | {', '.join(j['reporting_rules'])} |")
