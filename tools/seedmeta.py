#!/usr/bin/env python3
"""tools/seedmeta.py — (re)write seeded/<id>/meta.json from the sub-agent's description (meta.agent.json), my confirmation run (verify.txt) and the
detection run (detect.txt, written by tools/seedrun.py through tools/seedall.sh)."""
import os, json, glob, re, ast
ROOT = os.path.dirname(os.path.dirname(os.path.abspath(__file__)))
for d in sorted(glob.glob(os.path.join(ROOT, "seeded", "*-*"))):
    n = os.path.basename(d)
    a = {}
    try: a = json.load(open(os.path.join(d, "meta.agent.json")))
    except Exception:
        try: a = json.load(open(os.path.join(d, "meta.summary.json")))
        except Exception: pass
    ver = open(os.path.join(d, "verify.txt")).read() if os.path.exists(os.path.join(d, "verify.txt")) else ""
    det = open(os.path.join(d, "detect.txt")).read() if os.path.exists(os.path.join(d, "detect.txt")) else ""
    m = re.search(r"caught by: (\[.*\]|NONE)", det)
    caught = ast.literal_eval(m.group(1)) if m and m.group(1) != "NONE" else []
    rules = sorted(set(re.findall(r"^    (C\d\d\.\S+) ", det, re.M)))
    meta = dict(id=n, property=n.split("-")[0], round={"A": 1, "B": 1, "C": 2, "D": 2, "E": 3, "F": 3, "G": 4, "H": 4, "I": 5, "J": 5, "K": 6, "L": 6, "M": 7, "N": 7, "O": 8, "P": 8, "Q": 9, "R": 9}.get(n[-1], 0),
                summary=a.get("summary", ""), needs_to_manifest=a.get("needs_to_manifest", ""), files_changed=a.get("files_changed", []),
                base_commit=("1042e09" if n[-1] in "ABCD" else "3a99f4a" if n[-1] in "EF" else "3920d20") + " (the /repo commit the sub-agent's worktree was at)",
                confirmed="CONFIRMED" in ver,
                what_i_ran=["tools/seedverify.sh %s %s : in the sub-agent's scratch worktree: demonstration passes on HEAD; with patch.diff applied the existing tests + doctests of renet/renetcode/renet_netcode pass and the demonstration fails" % tuple(n.split("-")),
                            "tools/seedfacts.py + tools/finalmatrix.py : facts extracted from a scratch copy of /repo with the patch applied; every property's rule file run on them (the five properties with an abstract-interpretation part by their full ./check)"],
                demo_failure=[l.strip() for l in ver.splitlines() if "panicked" in l or "assertion" in l][:2],
                caught_by=caught, reporting_rules=rules)
    json.dump(meta, open(os.path.join(d, "meta.json"), "w"), indent=1)
print("ok")
