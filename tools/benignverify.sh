#!/bin/bash
# tools/benignverify.sh <ID> ... : for each delivered refactoring /tmp/wt/<ID>/REFAC/R*/patch.diff not yet stored: apply it in the scratch worktree,
# run the existing test suite, store it as /verif/benign/<ID>-R<k>/ (patch.diff, meta.json, verify.txt). Properties in parallel.
cd /verif
for id in "$@"; do
  (
  W=${WT_ROOT:-/tmp/wt}/$id
  for p in $W/REFAC/R*/patch.diff; do
    [ -f "$p" ] || continue
    V=$(basename $(dirname $p)); D=benign/$id-$V
    [ -f $D/verify.txt ] && continue
    mkdir -p $D
    cd $W; git checkout -q -- renet renetcode renet_netcode
    if ! git apply $p; then echo "patch does not apply" > /verif/$D/verify.txt; echo "$id-$V NOAPPLY"; cd /verif; continue; fi
    CARGO_TARGET_DIR=$W/target cargo test --offline -p renet -p renetcode -p renet_netcode --no-fail-fast 2>&1 | grep -E "^test result|FAILED|failed|^error" > /verif/$D/verify.txt
    git checkout -q -- renet renetcode renet_netcode
    cd /verif
    cp $p $D/patch.diff; cp $(dirname $p)/meta.json $D/meta.json 2>/dev/null
    if grep -q -E "FAILED|[1-9][0-9]* failed|^error" $D/verify.txt; then echo "$id-$V TESTS FAIL"; else echo "EXISTING TESTS PASS" >> $D/verify.txt; echo "$id-$V ok"; fi
  done
  ) &
done
wait
