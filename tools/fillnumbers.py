#!/usr/bin/env python3
"""tools/fillnumbers.py FINALMATRIX_OUTPUT — replace the number placeholders of DESIGN.md sections 12.1 / 13 by the figures printed by tools/finalmatrix.py."""
import sys, re, os
ROOT = os.path.dirname(os.path.dirname(os.path.abspath(__file__)))
out = open(sys.argv[1]).read()
w = {int(m.group(1)): (int(m.group(2)), int(m.group(3)), int(m.group(4))) for m in re.finditer(r"seeded\s+wave (\d+): own (\d+)/(\d+)\s+any (\d+)/\d+", out)}
b = {m.group(1): (int(m.group(2)), int(m.group(3))) for m in re.finditer(r"benign\s+(R\d+): alarms (\d+)/(\d+)", out)}
st = re.search(r"selftest: reported (\d+)/(\d+)", out)
def s(ws, k): return sum(w[x][k] for x in ws)
rep = {
 "FINAL-OWN/120": f"{s((1,2,3),0)}/{s((1,2,3),1)}", "FINAL-ANY/120": f"{s((1,2,3),2)}/{s((1,2,3),1)}",
 "W456-OWN/120": f"{s((4,5,6),0)}/{s((4,5,6),1)}", "W456-ANY/120": f"{s((4,5,6),2)}/{s((4,5,6),1)}",
 "W7-OWN/40": f"{w[7][0]}/{w[7][1]}", "W7-ANY/40": f"{w[7][2]}/{w[7][1]}",
 "W8-OWN/40": f"{w[8][0]}/{w[8][1]}", "W8-ANY/40": f"{w[8][2]}/{w[8][1]}",
 "W9-OWN/40": f"{w[9][0]}/{w[9][1]}", "W9-ANY/40": f"{w[9][2]}/{w[9][1]}",
 "SELF-N/18": f"{st.group(1)}/{st.group(2)}",
 "FINAL-BENIGN / 120": f"{b['R1'][0] + b['R2'][0]} / {b['R1'][1] + b['R2'][1]} (current rule set, full mode; variants made obsolete by the F18 fix excluded)",
 "FINAL-B3 / 60": f"{b['R3'][0]} / {b['R3'][1]} (current rule set)",
 "B5-UNSEEN / 60": f"2 / 60 structural on first sight; {b['R5'][0]} / {b['R5'][1]} with the current rule set, full mode",
 "B6-FULL / 60": f"{b['R6'][0]} / {b['R6'][1]} with the current rule set",
}
p = os.path.join(ROOT, "DESIGN.md"); d = open(p).read()
for k, v in rep.items():
    if k not in d: print("placeholder not found:", k)
    d = d.replace(k, v)
open(p, "w").write(d)
print(rep)
print("benign per wave:", b)
