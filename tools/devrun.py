#!/usr/bin/env python3
"""tools/devrun.py Cnn[,Cmm..] [-r RULEPREFIX] <variant ...|@benign|@seeded|@selftest|@all>  — development loop: run the rule files of the given
properties on the pre-extracted facts of variants (.cache/seedfacts/<variant>, see seedfacts.py) in parallel processes, structural rules only
(VERIF_DEV_SKIP_OBL), and print the violations per variant. `base` is the unchanged tree."""
import sys, os, glob, subprocess, concurrent.futures as cf
ROOT = os.path.dirname(os.path.dirname(os.path.abspath(__file__)))
args = sys.argv[1:]
props = args[0].split(","); args = args[1:]
pref = None
if args and args[0] == "-r": pref = args[1]; args = args[2:]
def group(g): return sorted(os.path.basename(os.path.dirname(p)) for p in glob.glob(os.path.join(ROOT, g, "*", "patch.diff")))
vs = []
for a in args:
    if a == "@benign": vs += ["base"] + group("benign")
    elif a == "@seeded": vs += group("seeded")
    elif a == "@selftest": vs += group("selftest")
    elif a == "@all": vs += ["base"] + group("benign") + group("seeded") + group("selftest")
    else: vs.append(a)
import tempfile, shutil, atexit
SNAP = tempfile.mkdtemp(prefix="devrun-")      # the run works on a snapshot of the rule code, so that rule files can be edited while it runs
for d_ in ("sa", "rules", "tables"): shutil.copytree(os.path.join(ROOT, d_), os.path.join(SNAP, d_), ignore=shutil.ignore_patterns("__pycache__"))
atexit.register(lambda: shutil.rmtree(SNAP, ignore_errors=True))
CODE = r'''
import sys, os, importlib
sys.path.insert(0, %r)
from sa.facts import Facts
from sa.rules import Tree
v, props, pref = sys.argv[1], sys.argv[2].split(","), (sys.argv[3] or None)
fd = os.path.join(%r, ".cache", "seedfacts", v)
os.environ["FACTS"] = fd
t = Tree(Facts(fd))
for cid in props:
    mod = importlib.import_module("rules." + cid)
    try:
        res = [r.finish() for r in mod.rules(t)]
    except Exception as e:
        import traceback; print("EXC", cid, repr(e)[:200], traceback.format_exc().splitlines()[-3][:160]); continue
    for r in res:
        if pref and not r.id.startswith(pref): continue
        for x in r.violations: print("V", r.id, (x.site.loc() if x.site else "-"), x.msg[:170], "|", x.key[:90])
''' % (SNAP, ROOT)
def one(v):
    env = dict(os.environ, VERIF_DEV_SKIP_OBL="1")
    p = subprocess.run([sys.executable, "-c", CODE, v, ",".join(props), pref or ""], env=env, capture_output=True, text=True)
    return v, p.stdout.strip().splitlines(), p.stderr.strip().splitlines()[-3:] if p.returncode else []
n_bad = 0
with cf.ThreadPoolExecutor(16) as ex:
    for v, out, err in ex.map(one, vs):
        if out or err:
            n_bad += 1
            print(f"== {v}")
            for l in out + err: print("   ", l)
print(f"{n_bad}/{len(vs)} variants with output")
