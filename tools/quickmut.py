#!/usr/bin/env python3
"""tools/quickmut.py <rel file> <old text> <new text> Cnn [Cnn..] — one-off textual variant of /repo (scratch copy), extract, run rule files (dev aid)"""
import sys, os, subprocess, tempfile, shutil
ROOT = os.path.dirname(os.path.dirname(os.path.abspath(__file__)))
sys.path.insert(0, ROOT)
from sa import check
rel, old, new = sys.argv[1:4]; props = sys.argv[4:]
d = tempfile.mkdtemp(prefix="quickmut-")
try:
    repo = os.path.join(d, "repo")
    subprocess.check_call(["rsync", "-a", "--exclude", "target", "--exclude", ".git", "/repo/", repo + "/"])
    p = os.path.join(repo, rel); s = open(p).read()
    assert s.count(old) >= 1, "old text not found"
    open(p, "w").write(s.replace(old, new, 1))
    out = os.path.join(d, "facts")
    with check.locked("extract"):
        ok, err = check.extract(repo, out, os.path.join(check.CACHE, "target-seed"))
    if not ok: print("does not compile:", err[-800:]); sys.exit(2)
    for c in props:
        r = subprocess.run([sys.executable, "-m", "sa.run", c, "--facts", out], cwd=ROOT, capture_output=True, text=True, env=dict(os.environ, VERIF_DEV_SKIP_OBL="1"))
        print("\n".join(l[:260] for l in r.stdout.splitlines() if "BAD" in l or "->" in l or l.strip().startswith(c + ":")))
finally:
    shutil.rmtree(d, ignore_errors=True)
