#!/bin/bash
# verify every delivered, not yet stored seed; one worktree at a time per property, properties in parallel
cd /verif
for id in ${@:-$(ls /tmp/wt | grep "^C[0-9][0-9]$")}; do
  (
  for w in /tmp/wt/$id/SEED/*/patch.diff; do
    [ -f "$w" ] || continue
    V=$(echo $w | cut -d/ -f6)
    [ -f seeded/$id-$V/verify.txt ] && continue
    mkdir -p seeded/$id-$V
    # make sure the demo file is present in the worktree
    for d in /tmp/wt/$id/SEED/$V/demo/*.rs; do b=$(basename $d); f=$(find /tmp/wt/$id/renet /tmp/wt/$id/renetcode /tmp/wt/$id/renet_netcode -name "$b" | head -1); [ -z "$f" ] && { c=$(grep -l "$b" /tmp/wt/$id/SEED/$V/demo/RUN.md >/dev/null 2>&1; grep -o "renet[a-z_]*/tests" /tmp/wt/$id/SEED/$V/demo/RUN.md | head -1); [ -n "$c" ] && mkdir -p /tmp/wt/$id/$c && cp $d /tmp/wt/$id/$c/; }; done
    tools/seedverify.sh $id $V > seeded/$id-$V/verify.txt 2>&1
    echo "$id-$V $(tail -1 seeded/$id-$V/verify.txt)"
  done
  ) &
done
wait
