// F15 triage: a captured ConnectionResponse datagram (authentic, but not covered by replay protection) replayed from a connected
// client's address must not postpone that client's timeout on the server.
use renetcode::*;
use std::{net::SocketAddr, time::Duration};

const PROTOCOL_ID: u64 = 7;
const KEY: &[u8; NETCODE_KEY_BYTES] = b"an example very very secret key."; // 32-bytes

#[test]
fn replayed_response_does_not_postpone_timeout() {
    let server_addr: SocketAddr = "127.0.0.1:5000".parse().unwrap();
    let config = ServerConfig {
        current_time: Duration::ZERO,
        max_clients: 4,
        protocol_id: PROTOCOL_ID,
        public_addresses: vec![server_addr],
        authentication: ServerAuthentication::Secure { private_key: *KEY },
    };
    let mut server = NetcodeServer::new(config);
    let client_addr: SocketAddr = "127.0.0.1:3000".parse().unwrap();
    let client_id = 9;
    let timeout_seconds = 5;
    let token = ConnectToken::generate(Duration::ZERO, PROTOCOL_ID, 300, client_id, timeout_seconds, vec![server_addr], None, KEY).unwrap();
    let mut client = NetcodeClient::new(Duration::ZERO, ClientAuthentication::Secure { connect_token: token }).unwrap();

    let (request, _) = client.update(Duration::ZERO).unwrap();
    let mut request = request.to_vec();
    let challenge = match server.process_packet(client_addr, &mut request) {
        ServerResult::PacketToSend { payload, .. } => payload.to_vec(),
        r => panic!("{:?}", r),
    };
    let mut challenge = challenge;
    client.process_packet(&mut challenge);
    let (response, _) = client.update(Duration::ZERO).unwrap();
    let captured_response = response.to_vec();
    let mut response = captured_response.clone();
    assert!(matches!(server.process_packet(client_addr, &mut response), ServerResult::ClientConnected { .. }));
    assert_eq!(server.clients_id(), vec![client_id]);

    // The client goes silent. An on-path party replays the captured response once per second.
    let mut timed_out = false;
    for _ in 0..(3 * timeout_seconds) {
        server.update(Duration::from_secs(1));
        if let ServerResult::ClientDisconnected { .. } = server.update_client(client_id) {
            timed_out = true;
            break;
        }
        let mut replay = captured_response.clone();
        let r = server.process_packet(client_addr, &mut replay);
        assert!(matches!(r, ServerResult::None), "replayed response produced {:?}", r);
    }
    assert!(timed_out, "silent client was not timed out after {} s (timeout {} s): replayed responses postponed the timeout", 3 * timeout_seconds, timeout_seconds);
}
