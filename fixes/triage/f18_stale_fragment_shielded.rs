// F18 triage (C09: "incomplete unreliable fragments stop counting after 3 s without progress").
// ReceiveChannelUnreliable::discard_incomplete_old_slices walks slices_last_received in message-id order and stops at the first entry that
// has not expired ("the next messages were sent after this one"). Under reordering that assumption is false: a fragment of an *older* id
// that arrives late (or is refreshed by a duplicate) shields every stale fragment with a higher id - its reservation keeps counting, and a
// message that fits the budget is dropped as "memory limited".
// Integration test (public API only, packets hand-encoded with octets): place in renet/tests/.
use std::time::Duration;

use renet::{ChannelConfig, ConnectionConfig, RenetClient, SendType};

const SLICE_SIZE: usize = 1200;

fn unreliable_slice(sequence: u64, message_id: u64, slice_index: u64, num_slices: u64, payload: &[u8]) -> Vec<u8> {
    let mut buf = vec![0u8; 1400];
    let len = {
        let mut b = octets::OctetsMut::with_slice(&mut buf);
        b.put_u8(3).unwrap();
        b.put_varint(sequence).unwrap();
        b.put_u8(0).unwrap();
        b.put_varint(message_id).unwrap();
        b.put_varint(slice_index).unwrap();
        b.put_varint(num_slices).unwrap();
        b.put_varint(payload.len() as u64).unwrap();
        b.put_bytes(payload).unwrap();
        b.off()
    };
    buf.truncate(len);
    buf
}

#[test]
fn stale_fragment_is_released_although_an_older_id_made_progress_later() {
    // room for exactly two reassemblies of two slices each
    let channels = vec![ChannelConfig {
        channel_id: 0,
        max_memory_usage_bytes: 2 * 2 * SLICE_SIZE,
        send_type: SendType::Unreliable,
    }];
    let config = ConnectionConfig {
        available_bytes_per_tick: 60_000,
        server_channels_config: channels.clone(),
        client_channels_config: channels,
    };
    let mut client = RenetClient::new(config);
    client.set_connected();
    let full = vec![7u8; SLICE_SIZE];

    // t = 0: first slice of message 10; its second slice is lost for good
    client.process_packet(&unreliable_slice(0, 10, 0, 2, &full));
    // t = 2 s: a slice of the *older* message 5 arrives (it was delayed on the way); its second slice is lost too
    client.update(Duration::from_secs(2));
    client.process_packet(&unreliable_slice(1, 5, 0, 2, &full));
    // t = 3.5 s: message 10 has made no progress for 3.5 s, message 5 for 1.5 s
    client.update(Duration::from_millis(1500));
    // a complete two-slice message arrives now: it fits the budget once the stale fragment of message 10 stopped counting
    client.process_packet(&unreliable_slice(2, 11, 0, 2, &full));
    client.process_packet(&unreliable_slice(3, 11, 1, 2, &[9u8; 100]));
    assert!(client.is_connected());
    let got = client.receive_message(0u8);
    assert_eq!(
        got.map(|m| m.len()),
        Some(SLICE_SIZE + 100),
        "message 11 was dropped: the fragment of message 10 still counts 3.5 s after its last progress"
    );
}
