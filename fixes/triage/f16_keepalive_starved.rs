// F16 triage: the keep-alive that moves a client from SendingConnectionResponse to Connected is lost once. The server application sends a
// payload to the (server-side connected) client on every tick, more often than NETCODE_SEND_RATE (250 ms). Everything after the single
// loss is delivered in both directions. C18: an honest client holding a valid token becomes connected on both sides within a bounded time.
use renetcode::*;
use std::{net::SocketAddr, time::Duration};

const PROTOCOL_ID: u64 = 7;
const KEY: &[u8; NETCODE_KEY_BYTES] = b"an example very very secret key."; // 32-bytes

#[test]
fn client_connects_although_first_keep_alive_is_lost_and_server_sends_payloads_every_tick() {
    let server_addr: SocketAddr = "127.0.0.1:5000".parse().unwrap();
    let config = ServerConfig {
        current_time: Duration::ZERO,
        max_clients: 4,
        protocol_id: PROTOCOL_ID,
        public_addresses: vec![server_addr],
        authentication: ServerAuthentication::Secure { private_key: *KEY },
    };
    let mut server = NetcodeServer::new(config);
    let client_addr: SocketAddr = "127.0.0.1:3000".parse().unwrap();
    let client_id = 9;
    let timeout_seconds = 5;
    let token = ConnectToken::generate(Duration::ZERO, PROTOCOL_ID, 300, client_id, timeout_seconds, vec![server_addr], None, KEY).unwrap();
    let mut client = NetcodeClient::new(Duration::ZERO, ClientAuthentication::Secure { connect_token: token }).unwrap();

    let (request, _) = client.update(Duration::ZERO).unwrap();
    let mut request = request.to_vec();
    let mut challenge = match server.process_packet(client_addr, &mut request) {
        ServerResult::PacketToSend { payload, .. } => payload.to_vec(),
        r => panic!("{:?}", r),
    };
    client.process_packet(&mut challenge);
    let (response, _) = client.update(Duration::ZERO).unwrap();
    let mut response = response.to_vec();
    // the server accepts the response; the keep-alive it answers with is LOST (the only loss of this history)
    assert!(matches!(server.process_packet(client_addr, &mut response), ServerResult::ClientConnected { .. }));
    assert!(client.is_connecting());

    // 100 ms ticks; from now on every datagram is delivered, in both directions
    let tick = Duration::from_millis(100);
    let mut delivered_to_client = 0;
    for _ in 0..(10 * timeout_seconds * 10) {
        server.update(tick);
        // server -> client: keep-alive if one is due, then the application's per-tick payload (a game server broadcasting state)
        if let ServerResult::PacketToSend { payload, .. } = server.update_client(client_id) {
            let mut p = payload.to_vec();
            client.process_packet(&mut p);
            delivered_to_client += 1;
        }
        if let Ok((_, payload)) = server.generate_payload_packet(client_id, b"state") {
            let mut p = payload.to_vec();
            client.process_packet(&mut p);
            delivered_to_client += 1;
        }
        // client -> server: whatever the client emits (response retries) is delivered
        if let Some((packet, _)) = client.update(tick) {
            let mut p = packet.to_vec();
            server.process_packet(client_addr, &mut p);
        }
        if client.is_connected() || client.is_disconnected() {
            break;
        }
    }
    assert!(
        client.is_connected(),
        "client never became connected although only one datagram was lost and {} later ones were delivered to it (disconnect reason: {:?})",
        delivered_to_client,
        client.disconnect_reason()
    );
}
