// F17 triage (C16: decoding the serialization of any value the library can build yields the same value - every netcode packet kind with any
// sequence number, sequence-length classes 0..8 bytes). In-crate unit test: append this module to renetcode/src/packet.rs (it needs the
// crate-private Packet::encode / Packet::decode). Before the fix the three asserts fail with PacketTooSmall: sequence 0 is written with no
// sequence byte, so a body-less packet is 1 + 0 + 0 + 16 = 17 bytes, and decode refused everything below 2 + NETCODE_MAC_BYTES = 18.
// The same 17-byte datagram leaves the public API: NetcodeClient::disconnect() right after NetcodeClient::new() (f17_seq0_bodyless.rs).
#[cfg(test)]
mod f17_triage {
    use super::*;
    use crate::crypto::generate_random_bytes;

    #[test]
    fn bodyless_packets_with_sequence_zero_round_trip() {
        let key = generate_random_bytes();
        for packet in [Packet::Disconnect, Packet::ConnectionDenied, Packet::Payload(&[])] {
            let mut buffer = [0u8; 64];
            let len = packet.encode(&mut buffer, 7, Some((0, &key))).unwrap();
            assert_eq!(len, 17);
            let (sequence, decoded) = Packet::decode(&mut buffer[..len], 7, Some(&key), None).expect("what encode produced must decode");
            assert_eq!(sequence, 0);
            assert_eq!(decoded, packet);
        }
    }
}
