#!/bin/bash
# Run once after a fresh restore, offline: build the fact extractor (nightly rustc_private driver, no dependencies) and
# warm the dependency part of the extraction target directory. Nothing here is needed for correctness: ./check builds the
# driver and extracts on demand; this only moves the one-time cost out of the first check.
set -e
cd "$(dirname "$0")"
export CARGO_NET_OFFLINE=true
(cd driver && cargo build --offline --release 2>&1 | tail -2)
python3 - <<'PY'
import sys; sys.path.insert(0, ".")
from sa import check
d, key, fresh = check.ensure_facts()
print("facts", key, "extracted" if fresh else "cached")
PY
echo "setup ok"
