#!/bin/bash
# build the fact extractor (offline, nightly) and warm the dependency target directory
set -e
cd "$(dirname "$0")"
export CARGO_NET_OFFLINE=true
(cd driver && cargo build --offline --release)
python3 -m sa.check C12 >/dev/null 2>&1 || true
echo "setup ok"
